#!/usr/bin/env python3
"""Rewrites the seeded-defect table of DESIGN.md from seeded/*/meta.json."""
import json, glob, os, re
rows = []
for m in sorted(glob.glob('/verif/seeded/*/meta.json')):
    d = json.load(open(m))
    sid = os.path.basename(os.path.dirname(m))
    needs = d.get('needs_to_manifest') or d.get('needs') or ''
    if isinstance(needs, list): needs = '; '.join(needs)
    det = d.get('detected_by') or ''
    if isinstance(det, list): det = '; '.join(det)
    def cl(s): return re.sub(r'\s+', ' ', str(s)).replace('|', '/').strip()
    rows.append(f"| {sid} | {cl(needs)[:230]} | {cl(det)[:230]} |")
tab = "| seeded | what it needs to manifest | detected by |\n|---|---|---|\n" + "\n".join(rows) + "\n"
p = '/verif/DESIGN.md'
s = open(p).read()
s = re.sub(r'(<!-- SEEDED-TABLE-BEGIN -->\n).*?(<!-- SEEDED-TABLE-END -->)', lambda m: m.group(1) + tab + m.group(2), s, flags=re.S)
open(p, 'w').write(s)
print(len(rows), 'rows')
