#!/usr/bin/env python3
import json, sys, glob, jsonschema
s = json.load(open("/root/.vp/EVIDENCE.schema.json"))
bad = 0
for f in sorted(glob.glob("/verif/evidence/*.json")):
    try:
        jsonschema.validate(json.load(open(f)), s); print("ok ", f)
    except Exception as e:
        bad += 1; print("BAD", f, str(e)[:300])
sys.exit(1 if bad else 0)
