#!/usr/bin/env python3
"""tools/keepmut.py <prop> <n> <confirm-json> <detected_by> <needs...>  — files a confirmed seeded defect under /verif/seeded/<prop>-<n>/"""
import json, os, shutil, sys
prop, n, confirm, detected = sys.argv[1:5]
needs = " ".join(sys.argv[5:])
src = f"/tmp/mut/out/{prop}"
dst = f"/verif/seeded/{prop}-{n}"
os.makedirs(dst, exist_ok=True)
shutil.copy(f"{src}/patch{n}.diff", f"{dst}/patch.diff")
shutil.copy(f"{src}/demo{n}_test.go", f"{dst}/demo_test.go")
if os.path.exists(f"{src}/notes{n}.md"):
    shutil.copy(f"{src}/notes{n}.md", f"{dst}/notes.md")
meta = {
  "property": prop,
  "breaks": "see notes.md",
  "needs_to_manifest": needs,
  "confirmed": json.loads(confirm),
  "what_i_ran": [
    "tools/confirm_mut.sh patch.diff demo_test.go   (scratch worktree of /repo: applies, builds, whole suite identical to the unmodified tree, demo passes unmodified / fails patched)",
    f"tools/trymut.sh patch.diff {prop}   (quick check against a scratch copy of /repo with the patch applied)",
  ],
  "detected_by": detected,
}
json.dump(meta, open(f"{dst}/meta.json", "w"), indent=1)
print("kept", dst)
