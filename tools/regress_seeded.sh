#!/bin/bash
# tools/regress_seeded.sh [ids…] — re-runs the quick check of every seeded defect's property against a scratch copy
# of /repo with the patch applied and reports whether it is still detected (exit 1 + VIOLATION).
cd "$(dirname "$0")/.."
ids=${@:-$(ls seeded)}
for s in $ids; do
  prop=${s%%-*}
  chk=$prop
  [ -f seeded/$s/check_with ] && chk=$(cat seeded/$s/check_with)
  out=$(LINES_MAX=3 tools/trymut.sh seeded/$s/patch.diff $chk 2>&1)
  if echo "$out" | grep -q "^VIOLATION"; then echo "$s detected by $chk"; else echo "$s MISSED by $chk :: $(echo "$out" | tail -2 | tr '\n' ' ' | cut -c1-200)"; fi
done
