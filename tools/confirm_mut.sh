#!/bin/bash
# tools/confirm_mut.sh <patch.diff> <demo_test.go> [<subdir for demo, default .>]
# Confirms in a scratch worktree of /repo: patch applies, builds, whole suite has the same failures as the
# unmodified tree, demo fails with the patch and passes without. Prints a JSON summary line. Removes the worktree.
set -u
# scratch trees live at ever-changing paths: their build output goes to a separate cache that is
# dropped when it grows (the shared cache would otherwise keep every one of them for days)
export GOCACHE=/var/tmp/gocache.mut
trap '[ "$(du -sm /var/tmp/gocache.mut 2>/dev/null | cut -f1)" -gt 8000 ] 2>/dev/null && rm -rf /var/tmp/gocache.mut' EXIT
export GOFLAGS=-mod=mod GOPROXY=off
patch="$(readlink -f "$1")"; demo="$(readlink -f "$2")"; sub="${3:-.}"
W=/var/tmp/confirm.$$
git -C /repo worktree add --detach "$W" HEAD >/dev/null 2>&1 || exit 2
cp /repo/testdata/trace.snappy.parquet "$W/testdata/trace.snappy.parquet"
cd "$W"
fails() { go test -vet=off -count=1 ./... 2>&1 | grep -a -E "^(--- FAIL|FAIL|panic:)" | sed -E "s/[(]?[0-9.]+s[)]?$//" | sort | uniq; }
demo_run() { cp "$demo" "$W/$sub/zz_seeded_demo_test.go"; (cd "$W/$sub" && go test -vet=off -count=1 -run 'Seeded|seeded|Demo' . 2>&1 | tail -3 | tr '\n' ' '); rc=${PIPESTATUS[0]}; rm -f "$W/$sub/zz_seeded_demo_test.go"; }
base_fail="$(fails)"
d0="$(cp "$demo" "$W/$sub/zz_seeded_demo_test.go"; cd "$W/$sub" && go test -vet=off -count=1 -run 'Seeded|seeded|Demo' . >/tmp/confirm.$$.d0 2>&1; echo $?; rm -f "$W/$sub/zz_seeded_demo_test.go")"
git apply --whitespace=nowarn "$patch" || { echo '{"applies":false}'; cd /; git -C /repo worktree remove --force "$W"; exit 1; }
go build ./... >/dev/null 2>&1; b=$?
mut_fail="$(fails)"
d1="$(cp "$demo" "$W/$sub/zz_seeded_demo_test.go"; cd "$W/$sub" && go test -vet=off -count=1 -run 'Seeded|seeded|Demo' . >/tmp/confirm.$$.d1 2>&1; echo $?; rm -f "$W/$sub/zz_seeded_demo_test.go")"
same=false; [ "$base_fail" = "$mut_fail" ] && same=true
echo "{\"applies\":true,\"builds\":$([ $b = 0 ] && echo true || echo false),\"suite_same_as_unmodified\":$same,\"demo_exit_unmodified\":$d0,\"demo_exit_patched\":$d1}"
[ "$same" = false ] && { echo "--- base"; echo "$base_fail"; echo "--- mut"; echo "$mut_fail"; }
rm -f /tmp/confirm.$$.d0 /tmp/confirm.$$.d1
cd /; git -C /repo worktree remove --force "$W"
