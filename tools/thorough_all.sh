#!/bin/bash
# Runs the thorough tier of the listed checks (default: all) one after another; output under $OUT.
OUT=${OUT:-/var/tmp/thor}; mkdir -p $OUT
cd "$(dirname "$0")/.."
ids=${@:-C16 C19 C12 C06 C04 C07 C17 C18 C20 C03 C05 C11 C02 C14 C13 C08 C09 C10 C15 C01}
for id in $ids; do
  s=$(date +%s)
  VERIF_OUT=$OUT ./run check $id thorough > $OUT/$id.log 2>&1
  rc=$?
  e=$(date +%s)
  echo "$id exit=$rc wall=$((e-s))s $(grep -c VIOLATION $OUT/$id.log) violations; $(jq -c '[.coverage.exhaustive, (.coverage.executions // .coverage.faults_injected // .coverage.states), .coverage.deviation_bound_completed]' $OUT/evidence/$id.json 2>/dev/null)" | tee -a $OUT/summary.txt
done
