#!/bin/bash
# tools/trymut.sh <patch.diff> <id> [<id>…]  — run quick checks against a scratch copy of /repo with the patch applied.
# Prints, per check, the exit code and the VIOLATION / KNOWN-FINDING / summary lines. /repo itself is not touched.
set -u
# scratch trees live at ever-changing paths: their build output goes to a separate cache that is
# dropped when it grows (the shared cache would otherwise keep every one of them for days)
export GOCACHE=/var/tmp/gocache.mut
trap '[ "$(du -sm /var/tmp/gocache.mut 2>/dev/null | cut -f1)" -gt 8000 ] 2>/dev/null && rm -rf /var/tmp/gocache.mut' EXIT
patch="$(readlink -f "$1")"; shift
tier="${TIER:-quick}"
S=/var/tmp/mutrepo.$$
rm -rf "$S" && mkdir -p "$S" && (cd /repo && git archive HEAD | tar -x -C "$S") || exit 2
# the environment emptied this test file in /repo; keep the scratch tree identical to /repo's working tree
cp /repo/testdata/trace.snappy.parquet "$S/testdata/trace.snappy.parquet"
(cd "$S" && git init -q . 2>/dev/null; git -C "$S" apply --whitespace=nowarn "$patch") || { echo "PATCH DOES NOT APPLY"; rm -rf "$S"; exit 2; }
export VERIF_REPO="$S" VERIF_OUT="/var/tmp/mutout.$$"
mkdir -p "$VERIF_OUT"
for id in "$@"; do
  /verif/run check "$id" "$tier" > "$VERIF_OUT/$id.log" 2>&1; rc=$?
  echo "== $id exit=$rc"
  grep -a -E "^(VIOLATION|KNOWN-FINDING|HARNESS-ERROR|  kind=|  case:|C[0-9]+ (quick|thorough):)" "$VERIF_OUT/$id.log" | grep -a -v "^KNOWN-FINDING" | cut -c1-220 | head -${LINES_MAX:-12}
done
rm -rf "$S" "$VERIF_OUT"
