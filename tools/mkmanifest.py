#!/usr/bin/env python3
"""Generates /verif/MANIFEST.json from the table below and validates it against the schema."""
import json, os, sys
V = os.path.dirname(os.path.dirname(os.path.abspath(__file__)))
props = [json.loads(l) for l in open(os.path.join(V, "properties.jsonl"))]
ids = [p["id"] for p in props]

# id -> (category, technique, text, note, design_ref)
CHECKS = {}
def check(id, cat, technique, text, note, ref):
    CHECKS[id] = dict(cat=cat, technique=technique, text=text, note=note, ref=ref)

check("C06", "exploration",
  "bounded exhaustive enumeration (stateless choice-tree DFS) of all column indexes up to N pages x probes on the real Search/Find, index-only oracle",
  "Every column index with <=4 (quick) / <=5-6 (thorough) pages over 11 page kinds (null page or (min,max) over a 4-value alphabet), 9 column types incl. truncated byte arrays and fixed-length types, built both through the real indexer and through the real writer + reopened file, is searched for 9 probe values; the result must be a page whose bounds contain the probe, never NumPages when some page can contain it, and never beyond a page that really holds it. The space is finite and enumerated completely, which is the right level for a pure function of a small index.",
  "Small-scope: indexes longer than the bound and alphabets beyond 4 values per type are not explored; page content of a (min,max) page is the alphabet values in [min,max].",
  "DESIGN.md §2 C06")

check("C01", "exploration",
  "bounded exhaustive enumeration (choice-tree DFS, deviation-bounded option lattice) of row type x row sequence x Write/Flush history x writer options on the real writer and the three real read paths, compared with the written Go values under the documented mapping",
  "Every execution writes real rows through GenericWriter[T] and reads them back through Read[T], GenericReader[T].Read (3 batch sizes) and RowGroup.Rows().ReadRows+Schema.Reconstruct; all must equal the input (floats by bits, nil==empty). The space is the product of 25 struct shapes, boundary-value row alphabets, run-length patterns around the 8/64/128 thresholds, all call histories for n<=3 and a 19-axis option lattice explored completely within 1 (quick) or 2 (thorough) deviations from the defaults: a finite space enumerated completely, which is what a for-all over inputs x configurations x histories needs and what sampling tests cannot give.",
  "Small scope: 25 hand-listed struct shapes two levels deep, one-factor-at-a-time row alphabets, option combinations beyond the deviation bound are not covered; -0.0 in an optional non-pointer float may come back as +0.0 (two-valued mapping).",
  "DESIGN.md §2 C01")

check("C03", "exploration",
  "bounded exhaustive enumeration of row type x row sequence x batch split through seven real ingestion paths; differential oracle on the stored (column, value bytes, repetition, definition) streams plus Reconstruct(Deconstruct(v))",
  "For every enumerated value (25 struct shapes, boundary-value alphabets, null/non-null run patterns crossing the 8/64/128-row kernels' boundaries, batch splits) the streams stored by GenericWriter, GenericBuffer, Buffer.Write, RowBuffer, WriteRows(Deconstruct) and per-column ColumnWriters must equal, value by value and level by level, the streams stored by Writer.Write(any), and re-assembly must return the value. The space is finite and fully enumerated; the typed and reflection implementations check each other on every point of it.",
  "Differential: a defect common to all seven paths is not visible here (C01/C02 look at that); map-typed rows compare counts and re-assembly only; small scope as C01.",
  "DESIGN.md §2 C03")

check("C10", "exploration",
  "bounded exhaustive enumeration of schema x sorting spec x container x row-kind sequence x Write batching x sort-run size on the real buffers and SortingWriter; oracle = permutation with intact rows + order under an independently written comparator + agreement with Schema.Comparator and the file's sorting metadata",
  "7 row types (required, optional non-pointer, pointer, string, bool/uuid keys, plus a repeated and a nested-optional non-key column) x 13 sorting-column lists (1-2 columns, asc/desc, nulls first/last) x 6 containers (GenericBuffer, Buffer, RowBuffer, SortingWriter with and without duplicate dropping, sorted buffer written with WriteRowGroup) x all sequences of <=2 (3 thorough) row kinds over the product of the key alphabets, 3-/4-sequences over the first key, 3-run patterns with run lengths around the 8-wide row-index kernel, up/down sweeps, x Write batchings and sort-run sizes. Every output must be a permutation of the input with every row intact across columns, ordered by a reference comparator written from the SortingColumn contract, consistent with Schema.Comparator, and (SortingWriter) carry the configured sorting metadata; with dedupe one row per key.",
  "Sort keys exclude NaN and repeated key columns; n is small except for run-structured inputs; nulls-first/last is taken to be independent of direction, as the SortingColumn interface documents.",
  "DESIGN.md §2 C10")

check("C08", "model_checking",
  "explicit exhaustive exploration of all operation sequences up to depth D over the seek/read alphabet on the real readers, checked step by step against a cursor reference model (a slice index), then drained to the end",
  "Every sequence of <=3 (quick) / <=4 (thorough) operations from {SeekToRow(0..N), Read(1), Read(2), Read(N+1)} (ReadPage for page readers) - one deeper on the four plain files - is executed on a fresh real reader for 64 file configurations and 12 reader kinds, and after every operation and the final drain the rows/values returned must be exactly those of the cursor model. Depth-bounded but complete: the cached-page / skip-counter / buffered-bytes state combinations the property worries about are all reachable within 3-4 operations on files with 1-3 rows per page, which is why exhaustive enumeration of short histories (not sampling of long ones) is the right instrument.",
  "Histories longer than D, other file shapes and page layouts are not covered; async mode is exercised only as a sequential client here (schedules are C15's); merged/concatenated forward-only readers are C09's.",
  "DESIGN.md §2 C08")

check("C02", "exploration",
  "bounded exhaustive enumeration of written files (row type x row sequence x history x option lattice within the deviation bound), each decided by an independent spec-only Parquet decoder (pqref) on the raw bytes plus stream equality with the library's reader",
  "Every enumerated file is parsed and fully checked by pqref - a decoder written from the format specification that shares no code with the library: magic/footer, per-row-group and per-chunk sizes/offsets/counts, page tiling, encodings and encoding_stats, decompressed sizes, v2 level lengths/num_rows/num_nulls, CRC32, pages starting at repetition level 0, offset index and column index cardinalities, bloom filter framing - and the (repetition, definition, value) streams it decodes must equal what the library reads. A writer bug mirrored by a reader tolerance cannot hide from it (it found the symmetric RLE boolean run defect).",
  "Trusted base: pqref itself (tested against files of other implementations in /repo/testdata) and the upstream zstd/brotli decompressors. Null-page min/max placeholders are not required to be empty. WriteRowGroup copy/re-encode outputs are checked under C11.",
  "DESIGN.md §2 C02")
check("C05", "exploration",
  "bounded exhaustive enumeration of page layouts (sequences of page kinds over boundary-value alphabets, cut with ColumnWriter.Flush) x column type x repetition x row-group cut x index size limit x page version x statistics options; oracle = pqref's bound/count/histogram/boundary-order checks on the raw bytes + the library's own accessors",
  "For 18 ordered column types and required/optional/repeated columns, every sequence of <=2 (quick) / <=3 (thorough) pages over {all-null page, {a}, {a,b}} - including NaN, -0, infinities, extremes, 0xFF-prefixed byte strings under truncation limits - is written with exactly that page layout, optionally split into two row groups. Page-header statistics, chunk statistics, column index entries, null counts/null pages, level histograms and the claimed boundary order are recomputed from the decoded pages by the independent decoder, and ColumnIndex()/Bounds()/NullCount() must agree.",
  "Alphabets of 4-6 values per type and <=3 pages; a NaN bound on a unit holding only NaN is accepted (it bounds nothing and readers must ignore it); copy-path statistics are covered by C11's check.",
  "DESIGN.md §2 C05")

check("C07", "exploration",
  "bounded exhaustive enumeration of physical type x repetition x filter build path x value set x bits-per-value x open option on the real writer and reader; oracle = every written non-null value probes true through ColumnChunk.BloomFilter().Check and through spec hashing of the raw bitset by the independent decoder",
  "14 physical/fixed-length types x required/optional/repeated x 12 build paths (incremental, dictionary, dictionary->PLAIN fallback, small pages, several row groups, deferred, gzip-compressed, data page v1, WriteRowGroup of a buffer / verbatim copy / re-encode / source without filter) x value sets (all sequences of <=3 boundary values, n distinct values around the 128-hash buffer and 256, few values repeated) x bits per value {10,1} x {default, prefetched, lazily loaded} filters. A mismatch between the bulk write-side hashing and the per-value read-side hashing of any type, or a filter missing part of a chunk, shows up as a false negative on an enumerated value.",
  "Small value alphabets; the values probed are those read back from each row group (C01 ties them to what was written); encryption of filters is C18's.",
  "DESIGN.md §2 C07")

check("C09", "exploration",
  "bounded exhaustive enumeration of k sorted inputs (per-key counts), sort spec, input kind, consumption path and read batch size on the real merge; oracle = sortedness under an independent comparator, multiset equality through unique (input, seq) payloads, per-input order, one row per key with duplicate dropping",
  "k in 0..3 (4 thorough) inputs described by per-key counts over {0,1,2} (all overlap patterns arise from the product: empty, disjoint, touching, nested, identical), plus scenarios where one key of one input is a long run around the merge's 24/48/192-row buffers and the 1024-row refinement threshold; 8 sort specs (asc/desc, second column, nullable key nulls first/last), 4 input kinds (sorted buffer, single-page file, small-page file with page index, first of several row groups), 5 paths (Rows, Rows+dedupe, WriteRowGroup, WriteRowGroup+dedupe, MergeRowReaders over readers returning 1-2 rows per call and EOF with or after the last rows) and several batch sizes.",
  "Small key alphabet (3 values + null) and k<=4; cross-input tie order is not constrained; forward seeks on merged rows are not part of this check.",
  "DESIGN.md §2 C09")

check("C13", "fault_enumeration",
  "exhaustive fault enumeration: every single bit and every short burst of every page body of a family of small real files, crossed with every access path and every seek target; page bodies located by the independent decoder",
  "32 files (plain/dictionary x v1/v2 x none/snappy/gzip/zstd x 1/2 row groups, 4 columns incl. optional and repeated, several pages per chunk): for every data and dictionary page, every bit of the stored body is flipped and every 2-3 (thorough 4, 8) byte window is overwritten with 0x00/0xFF/its inverse, and each corrupted file is read through 9 access paths including SeekToRow(k) for every k followed by row, page and reader reads, the value reader and async mode. An access that needs the page must return an error that errors.Is ErrCorrupted, never differing data with a nil error, never a panic; rows delivered before the error must equal the intact file's. CRC-32 detects all these faults, so the verdict is exact.",
  "Corruption of page headers, footers and page indexes is outside the statement; pages whose CRC is exactly 0 are not verified by the library (1 in 2^32).",
  "DESIGN.md §2 C13")

check("C14", "fault_enumeration",
  "exhaustive fault enumeration at the io.Writer / io.ReaderAt seams: every byte offset of the sink (4 failure behaviours), every sink call of a multi-chunk file (4 intra-call positions), every truncation length, every ReadAt call index (6 contract-conformant failure answers), across writer configurations and open options",
  "For 12 writer configurations the fault-free output is recorded, then the same write history is replayed against a sink that fails at every byte offset (partial write + error then dead, one short write without error, dead forever, one-shot error then recovered) and - for a 2500/6000-row file spanning several 32 KiB page-buffer chunks - at every sink call after 0/1/half/all-but-one bytes: a nil error from Write/Flush/Close is only accepted if the sink holds the complete file. Every strict prefix of every file is opened with 5 option sets and read to the end: it must be rejected. Every ReadAt call of open+read is failed in 6 ways incl. EOF and short reads: either an error surfaces or all rows are the original ones; rows returned before an error are a prefix of the original; nothing panics.",
  "Encryption and the remaining option combinations are not crossed with the sweeps; a sink that returns (0, nil) forever is not modelled (the standard library's bufio.Writer itself never terminates on it).",
  "DESIGN.md §2 C14")

check("C04", "exploration",
  "bounded exhaustive enumeration of value sequences per (encoding, type) pair on the real Encode*/Decode* methods, with a round-trip oracle, an independent spec decoder (pqref), destination-buffer histories, and case-by-case comparison of the encoded bytes across build variants (asm, AVX-512/AVX2 disabled, purego)",
  "For 63 (encoding, type) pairs incl. the hybrid RLE/bit-packed encoding at every bit width 0..32, ALL sequences of length <=4 (6 thorough) over boundary-value alphabets and 10 structured patterns at 18 lengths around the 8/32/64/128/256/1024-value block boundaries are encoded; Decode(Encode(x)) must equal x for four destination-buffer histories, encoding must not depend on what dst held or on reusing a previous result, pqref must decode the same sequence from the bytes, and the bytes must be identical in every build variant.",
  "Alphabets of 5-6 values per type; lengths beyond 1025 and dictionaries' own insert/lookup kernels are exercised through C01/C03 (DictFixed type, 600-row batches), not here; GOEXPERIMENT=simd build not included.",
  "DESIGN.md §2 C04")

check("C11", "exploration",
  "bounded exhaustive enumeration of source row-group kind x source writer configuration x destination writer configuration x buffered-rows history on the real WriteRowGroup, with a differential oracle against the row-by-row path under the same destination configuration, the wrapper's expected row semantics, and the independent decoder",
  "10 source kinds (file row group, MultiRowGroup, buffer, merges of disjoint / overlapping / deduplicated inputs, identity and column-changing ConvertRowGroup, a foreign RowGroup implementation whose Rows() filters, a row with a 1500-element list) crossed with source and destination configurations from a reduced lattice (codec, encoding, page version, statistics, bloom filter size, MaxRowsPerRowGroup 5/14, dictionary limit, page size) within 3 (quick) / 4 (thorough) deviations, with and without rows already buffered in the destination. Output rows must equal the row path's and the wrapper's semantics; the file must pass pqref; no row group may exceed the limit; every (codec, page type+encoding, page statistics, bloom filter) fact of the output must also be produced by the row path under the same destination options. Verif-tagged accessors to the path counters prove that the verbatim-copy, re-encode and row paths are all exercised (counters in evidence).",
  "Hook: zz_verif_paths.go (build tag verif, injected by overlay) exposes the unexported path counters. Page boundaries and row-group partitioning below the maximum are not compared; the return value of WriteRowGroup is not specified by the property and not checked.",
  "DESIGN.md §2 C11")

check("C12", "exploration",
  "bounded exhaustive enumeration of source struct type x every single (thorough: double) schema edit at every position of the type tree x row alphabet x 5 conversion paths, with Go types built by reflect.StructOf and a projection reference model on Go values",
  "6 source types (flat, groups, pointer groups, lists of structs, required leaves under two optional or repeated ancestors, LIST-tagged) are edited by deleting a field, swapping adjacent fields, or adding an optional leaf / required leaf / string / optional group / list at the first and last position of EVERY struct of the tree; all boundary-value alphabet rows are written with the source type and read through the target type via NewReader(schema), GenericReader[any](schema), ConvertRowGroup, CopyRows and MergeRowGroups(schema). Every row must equal the projection of the source row (shared fields identical incl. nesting and nil-ness, added fields zero/nil), same count and order.",
  "Only compatible targets are generated, so the 'incompatible targets are rejected' clause is not exercised; known finding: MergeRowGroups with a schema that adds columns under optional/repeated groups (5 listed classes).",
  "DESIGN.md §2 C12")

check("C20", "model_checking",
  "explicit exhaustive exploration of all call histories up to depth H on one shared codec value under a deterministic instance pool (always-reuse / never-reuse, injected through the overlay pool shim), followed by round-trip probes over inputs x destination-buffer kinds x destination capacities",
  "For 7 codecs every sequence of <=2 (quick) / <=3 (thorough) operations from {Encode(x), Decode(Encode(x)), Decode(invalid y)} - 7 inputs incl. empty, highly compressible and incompressible 64 KiB, 10 invalid inputs incl. truncated and bit-flipped frames - is executed on one codec value whose pooled compressor/decompressor objects are forced to be reused (or never reused); then Decode(Encode(x)) must be exact for every input, 6 destination kinds (nil, empty, cap 1, exact, 4x, an alias of the previous result) and every capacity 0..len+2 for small inputs. Decoding garbage may fail in any way except not returning.",
  "Hook: sync.Pool of internal/memory replaced by the deterministic vsync.Pool (overlay, build tag verif). Inputs beyond the 7 listed and histories longer than H are not covered; concurrent use of one codec value is part of C15.",
  "DESIGN.md §2 C20")

check("C16", "exploration",
  "bounded exhaustive enumeration of hand-over kind x file shape x every sequence of disturbing operations up to depth D, executed with poison-on-release and always-reuse pools (verif hooks) so that any alias into recycled memory changes deterministically; oracle = deep snapshot at hand-over time",
  "12 hand-over kinds on both sides of the API (Go values from Read[T] and from GenericReader.Read into a reused batch with shallow copies retained; parquet Rows uncloned and cloned, sync and async; cloned page Values; the caller's rows passed to GenericWriter.Write, Writer.WriteRows, RowBuffer.WriteRows, SortingWriter.WriteRows, GenericBuffer.Write+sort, FilterRowWriter.WriteRows) x 5 file shapes x ALL sequences of <=2 (3 thorough) operations from {read more into the same batch, SeekToRow(0)+read, Reset, Close, read another file, write another file, GC}; after every step the held values must equal the snapshot taken when they were handed over (uncloned Rows only until the next call on their reader).",
  "Hooks: verifPoison inserted at the top of putSliceToPool and the deterministic LIFO pool (overlay, build tag verif). Depth <=3; unrelated activity runs in the same goroutine (other goroutines: C15).",
  "DESIGN.md §2 C16")

check("C17", "exploration",
  "bounded exhaustive enumeration of job x container x pool policy x every history of prior uses of the same instance up to depth D, comparing the bytes of the final job with a fresh instance's, plus case-by-case comparison of the fresh digests across build variants (asm, AVX2 disabled, purego)",
  "8 jobs (default, small pages, dictionary fallback, bloom filters, 2 row groups, key/value + sorting metadata, v1+snappy+statistics, all combined) on 4 containers (GenericWriter, Writer(any), GenericBuffer sorted and written with WriteRowGroup, SortingWriter) after ALL sequences of <=2 (quick) / <=3 (thorough) prior uses from {complete small / large / empty job, job aborted after Write, job whose sink fails, Flush only, Close twice}, each followed by Reset, under the real and the always-reuse pool; the final job must be byte-identical to the same job on a fresh instance (also when run in another goroutine), and the fresh job's digest must be identical in every build variant.",
  "Go map-typed values and encryption excluded by the statement. One row type; histories longer than D and the GOEXPERIMENT=simd build are not covered.",
  "DESIGN.md §2 C17")

check("C18", "fault_enumeration",
  "exhaustive fault enumeration over the encrypted modules of small real files (every byte flipped, every equal-length module pair transplanted, modules from twin files, truncations, signature stripped/zeroed) plus enumeration of key assignments and seek histories; module boundaries located by walking the length prefixes",
  "12 configurations (encrypted footer / signed plaintext footer x footer key only / per-column key x {v2 small pages, v1+snappy+AAD prefix, bloom filters+2 row groups}). (a) round trip with the right keys incl. seek histories (read 0/1/5/20 rows, SeekToRow(every 7th row), read) on a 150-row many-page file; (b) the raw bytes contain no value token nor token prefix (values, dictionaries, statistics, indexes); (c) wrong or missing footer / column keys are rejected; (d) every byte of every module, of the encrypted footer module and of the plaintext footer + signature is flipped, every ordered pair of equal-length modules is transplanted, every module is replaced by its twin from a file with another identifier and from a file written with the same EncryptionConfig object, every module is truncated by 1 byte and by half, the footer signature is stripped and zeroed: the file must never open and read fully without error, and rows returned before an error must be a prefix of the original.",
  "Nonces are random (no oracle depends on ciphertext bytes); the plaintext FileCryptoMetaData of encrypted-footer files is not an encrypted module: changes there are only required not to alter rows; AES_GCM_CTR_V1 is not implemented by the library.",
  "DESIGN.md §2 C18")

check("C19", "exploration",
  "bounded exhaustive enumeration of variant value trees by grammar x shredding schema x write path x read path on the real encoder/decoder, shredded writer and readers, plus all short histories of cursor creation / Next / SeekToRow on the columnar VariantReader; oracle = structural equality with the value written",
  "Value trees: 37 primitives covering all 21 kinds at their width/length edges, all arrays of <=2 elements and all objects over {a, b, zz} (each absent or one of 4 core values, unsorted insertion order), 2-level nestings with a key shared at two depths, and offset-width edges (255/256 elements, 255/256 keys, 64 KiB strings). Each goes through Encode/Decode, the streaming Builder and Marshal/Unmarshal, and through 23 shredding schemas (unshredded, 13 primitive typed_values, objects with shredded and unshredded fields, nested objects, lists of primitives/objects/lists) x 5 write paths (incl. VariantColumnWriter.WriteValue and its event API with shared field references) x 3 read paths (converted to unshredded, through the file schema, NewReader with a Variant schema). All sequences of <=4 (5 thorough) operations {create cursor a, create cursor b, Next(3), Next(10), SeekToRow(0|7|25)} on a VariantReader are checked against a cursor model.",
  "Depth <=2 and small field-name pool; values are written raw (metadata/value bytes) so Go-native lossy mappings do not interfere; typed column reads cover one object schema.",
  "DESIGN.md §2 C19")

check("C15", "model_checking",
  "stateless model checking of the real library under a cooperative scheduler: the library's sync / sync.atomic / channel / go operations are rewritten onto the verifsched scheduler at build time (mkoverlay AST rewrite, go build -overlay) and a deviation-bounded DFS enumerates every schedule of each scenario; oracle = no deadlock / leak / panic and equality with the serial execution",
  "7 scenarios of documented concurrent use (asyncPages consumer sequences against the readPages goroutine incl. use after Close; async GenericReader with seeks; two goroutines sharing one lazily indexed File; concurrently filled row groups committed in order; independent writer next to a reader or another writer sharing the process-wide pools, with pool hit/miss as explorer choices and poison on release; one goroutine per ColumnWriter; two goroutines on one codec value). For each, EVERY schedule within 1 (quick) / 2 (thorough) deviations from the default scheduler is executed on the implementation itself (preemptions, non-default wake-ups at blocking points, pool misses; select choices enumerated freely); every schedule must terminate without deadlock, goroutine leak or panic and produce exactly the serial result. Evidence counts schedules (traces validated against the implementation = executions), distinct scheduler states and scheduling steps.",
  "Hooks: full sync/atomic/channel/go rewrite for the sched build (overlay, tags verif,debug,vsched; nothing committed to /repo). Sequential consistency at synchronisation granularity; unsynchronised plain-memory accesses are invisible to a cooperative scheduler (complement: after the exploration the same scenario bodies run free-running in a race-detector build, 200 / 3000 runs per case (quick: every 6th S1 consumer sequence), reported under coverage.supplement - sampling, supplementary, not the deciding step); third-party codec goroutines uncontrolled; 2-3 goroutines, bounded deviations.",
  "DESIGN.md §2 C15")

NOT_YET = "check not built yet in this round (design in DESIGN.md §2); not claimed until its check exists"

m = {
  "version": 1,
  "setup_cmd": "./setup.sh",
  "hooks": {
    "guard": "verif (build tag carried by every injected file; nothing is committed to /repo: hooks are injected at build time with go build -overlay)",
    "enable": "cd /verif/harness && go build -tags verif -overlay /verif/.work/overlay-<variant>/overlay.json ./cmd/vcheck  (done by ./run)",
    "baseline_off_cmd": "cd /repo && GOFLAGS=-mod=mod GOPROXY=off go test -json -vet=off -count=1 -timeout 25m ./...",
    "source_commits": [],
    "add_only": True,
  },
  "engines": [
    {"name": "explorer", "path": "harness/engine", "serves_properties": sorted(CHECKS),
     "kind_free_text": "stateless deviation-bounded choice-tree DFS over executions of the real library, sharded over 16 worker processes; violations confirmed by 5 fresh-process replays"},
  ],
  "checks": [],
  "not_applicable": [],
  "notes": "All checks: ./run check <id> <tier>. Exit 0 = held on everything explored (KNOWN-FINDING lines possible), 1 = VIOLATION, 2 = HARNESS-ERROR.",
}
# the enumeration rules as the checks' code states them (tools/rules.json is regenerated with
# `.work/bin/vcheck-asm --rules > tools/rules.json` whenever a check's space changes)
RULES = {}
try:
    RULES = json.load(open(os.path.join(V, "tools", "rules.json")))
except OSError:
    pass
for id in ids:
    if id in CHECKS:
        c = dict(CHECKS[id])
        if id in RULES:
            c["text"] = c["text"] + " CURRENT SPACE, as stated by the check's code (supersedes the counts above where they differ): " + RULES[id]
        m["checks"].append({
          "property_id": id,
          "quick_cmd": f"./run check {id} quick",
          "thorough_cmd": f"./run check {id} thorough",
          "evidence_file": f"/verif/evidence/{id}.json",
          "replay_cmd_template": "./run replay {path}",
          "engine": "explorer",
          "level_claimed": {"category": c["cat"], "text": c["text"], "design_ref": c["ref"]},
          "level_note": c["note"],
          "technique": c["technique"],
        })
    else:
        m["not_applicable"].append({"property_id": id, "reason": NOT_YET})
out = os.path.join(V, "MANIFEST.json")
json.dump(m, open(out, "w"), indent=1)
try:
    import jsonschema
    jsonschema.validate(m, json.load(open("/root/.vp/MANIFEST.schema.json")))
    print("MANIFEST.json valid;", len(m["checks"]), "checks,", len(m["not_applicable"]), "not_applicable")
except ImportError:
    print("jsonschema not available; wrote without validation")
