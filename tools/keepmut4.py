#!/usr/bin/env python3
"""tools/keepmut2.py <prop> <n> <detected_by> <check_with|-> <needs...>  — files a confirmed round-3 seeded defect
(/tmp/mut/out4/<prop>/patch<n>.diff, confirm<n>.json) under /verif/seeded/<prop>-<n+2>/"""
import json, os, shutil, sys
prop, n, detected, check_with = sys.argv[1:5]
needs = " ".join(sys.argv[5:])
src = f"/tmp/mut/out4/{prop}"
k = int(n) + 6
dst = f"/verif/seeded/{prop}-{k}"
conf = json.loads(open(f"{src}/confirm{n}.json").readline())
assert conf["applies"] and conf["builds"] and conf["suite_same_as_unmodified"] and conf["demo_exit_unmodified"] == 0 and conf["demo_exit_patched"] != 0, conf
os.makedirs(dst, exist_ok=True)
shutil.copy(f"{src}/patch{n}.diff", f"{dst}/patch.diff")
shutil.copy(f"{src}/demo{n}_test.go", f"{dst}/demo_test.go")
if os.path.exists(f"{src}/notes{n}.md"):
    shutil.copy(f"{src}/notes{n}.md", f"{dst}/notes.md")
chk = prop if check_with == "-" else check_with
if check_with != "-":
    open(f"{dst}/check_with", "w").write(check_with + "\n")
meta = {
  "property": prop, "round": 4, "breaks": "see notes.md", "needs_to_manifest": needs, "confirmed": conf,
  "what_i_ran": [
    "tools/confirm_mut.sh patch.diff demo_test.go   (scratch worktree of /repo: applies, builds, whole suite identical to the unmodified tree, demo passes unmodified / fails patched)",
    f"tools/trymut.sh patch.diff {chk}   (quick check against a scratch copy of /repo with the patch applied)",
  ],
  "detected_by": detected,
}
json.dump(meta, open(f"{dst}/meta.json", "w"), indent=1)
print("kept", dst)
