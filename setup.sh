#!/bin/bash
# Offline build of the verification machinery; warms the Go build cache.
set -e
cd "$(dirname "${BASH_SOURCE[0]}")"
export GOFLAGS=-mod=mod GOPROXY=off
cp /repo/go.sum harness/go.sum
./run build asm purego sched race
echo "setup ok"
