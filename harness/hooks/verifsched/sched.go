//go:build verif

// Package verifsched is a cooperative, deterministic scheduler used to model
// check the library's concurrent code. It is injected into the library's
// module with `go build -overlay` (see cmd/mkoverlay); it is never committed.
//
// Only the standard library is imported.
package verifsched

import (
	"fmt"
	"runtime"
	"runtime/debug"
	"strings"
	"sync"
	"sync/atomic"
)

// Chooser resolves one nondeterministic choice among n alternatives (returns
// 0..n-1). deviation=true means alternative 0 is the default (keep running the
// current goroutine, pool hit, ...) and any other alternative is a costed
// deviation (a preemption).
type Chooser func(n int, label string, deviation bool) int

// Result describes one controlled execution.
type Result struct {
	Steps      int      // scheduling points executed
	Deadlock   bool     // no enabled goroutine, not all finished
	Livelock   bool     // horizon exceeded
	Blocked    []string // description of each blocked goroutine at deadlock
	Trace      []string // compact per-step trace "g0 mutex.lock file.go:1665"
	Panic      any      // first panic value raised in a controlled goroutine
	PanicStack string   // stack of that panic
	Leaked     int      // controlled goroutines still alive when Run returned
	States     []uint64 // hash of the shim-visible state at every step
	BodyDone   bool     // g0 (body) ran to completion (or panicked)
	Goroutines int      // controlled goroutines created (including g0)
}

const (
	traceCap  = 2000
	statesCap = 1 << 20
)

const (
	gParked = iota // parked at a scheduling point (or not yet started)
	gRunning
	gDone
)

// G is a controlled goroutine. Shims receive it from Point and use it to
// publish state hashes; all methods are nil-safe (nil = pass-through mode).
type G struct {
	s       *sched
	id      int
	goid    uint64
	wake    chan struct{}
	status  int
	label   string
	enabled func() bool
	hist    uint64
	answer  int
}

type evKind int

const (
	evPoint evKind = iota
	evDone
	evChoose
)

type event struct {
	kind  evKind
	g     *G
	n     int
	label string
	dev   bool
}

type sched struct {
	ch      Chooser
	horizon int
	gs      []*G
	cur     atomic.Pointer[G]
	events  chan event
	res     Result
	stopped bool

	objIDs   map[any]uint64
	objVals  map[uint64]uint64
	objXor   uint64
	canon    map[any]uint64
	cleanups map[any]func()
}

var (
	active atomic.Pointer[sched]
	runMu  sync.Mutex
)

// Run executes body as controlled goroutine g0 under the cooperative
// scheduler and returns when every controlled goroutine has finished, or on
// deadlock / horizon. The Chooser is always invoked on the goroutine that
// called Run, so a panic raised by the Chooser propagates to Run's caller.
func Run(ch Chooser, horizon int, body func()) (res Result) {
	runMu.Lock()
	defer runMu.Unlock()
	if horizon <= 0 {
		horizon = 1 << 20
	}
	if ch == nil {
		ch = func(int, string, bool) int { return 0 }
	}
	s := &sched{
		ch:       ch,
		horizon:  horizon,
		events:   make(chan event),
		objIDs:   map[any]uint64{},
		objVals:  map[uint64]uint64{},
		canon:    map[any]uint64{},
		cleanups: map[any]func(){},
	}
	active.Store(s)
	defer func() {
		// Runs on normal return and when the Chooser panics.
		s.stopped = true
		s.cur.Store(nil)
		active.Store(nil)
		for _, g := range s.gs {
			if g.status != gDone {
				s.res.Leaked++
			}
		}
		s.res.Goroutines = len(s.gs)
		for _, f := range s.cleanups {
			f()
		}
		res = s.res
	}()

	g0 := s.spawn(body)
	s.loop(g0)
	return
}

func (s *sched) spawn(f func()) *G {
	g := &G{s: s, id: len(s.gs), wake: make(chan struct{}), status: gParked, label: "start"}
	s.gs = append(s.gs, g)
	started := make(chan struct{})
	go func() {
		g.goid = curGoid()
		close(started)
		<-g.wake
		defer func() {
			r := recover()
			if r != nil && s.res.Panic == nil {
				s.res.Panic = r
				s.res.PanicStack = string(debug.Stack())
			}
			g.status = gDone
			g.enabled = nil
			if g.id == 0 {
				s.res.BodyDone = true
			}
			s.events <- event{kind: evDone, g: g}
		}()
		f()
	}()
	<-started
	return g
}

// resume hands the baton to g and returns immediately; the caller must then
// wait for the next event.
func (s *sched) resume(g *G) {
	g.status = gRunning
	g.enabled = nil
	s.cur.Store(g)
	g.wake <- struct{}{}
}

func (s *sched) isEnabled(g *G) bool {
	if g.status != gParked {
		return false
	}
	return g.enabled == nil || g.enabled()
}

// loop is the scheduler proper; it runs on Run's goroutine.
func (s *sched) loop(first *G) {
	var last *G
	next := first
	for {
		if next != nil {
			s.traceStep(next)
			last = next
			s.resume(next)
		}
		ev := <-s.events
		s.cur.Store(nil)
		if ev.kind == evChoose {
			ev.g.answer = s.ask(ev.n, ev.label, ev.dev)
			s.cur.Store(ev.g)
			ev.g.wake <- struct{}{}
			next = nil
			continue
		}
		// evPoint / evDone: decide who runs next.
		s.recordState()
		var alts []*G
		if s.isEnabled(last) {
			alts = append(alts, last)
		}
		for _, g := range s.gs {
			if g != last && s.isEnabled(g) {
				alts = append(alts, g)
			}
		}
		if len(alts) == 0 {
			alive := 0
			for _, g := range s.gs {
				if g.status != gDone {
					alive++
					s.res.Blocked = append(s.res.Blocked, fmt.Sprintf("g%d: %s", g.id, g.label))
				}
			}
			if alive > 0 {
				s.res.Deadlock = true
			}
			return
		}
		if s.res.Steps >= s.horizon {
			s.res.Livelock = true
			return
		}
		k := 0
		if len(alts) > 1 {
			dev := alts[0] == last
			k = s.ask(len(alts), "sched", dev)
		}
		next = alts[k]
	}
}

func (s *sched) ask(n int, label string, dev bool) int {
	if n <= 1 {
		return 0
	}
	k := s.ch(n, label, dev)
	if k < 0 || k >= n {
		panic(fmt.Sprintf("verifsched: chooser returned %d for %d alternatives (%s)", k, n, label))
	}
	return k
}

func (s *sched) traceStep(g *G) {
	s.res.Steps++
	g.hist = mix(g.hist, hashString(g.label))
	if len(s.res.Trace) < traceCap {
		s.res.Trace = append(s.res.Trace, fmt.Sprintf("g%d %s", g.id, g.label))
	}
}

func (s *sched) recordState() {
	if len(s.res.States) >= statesCap {
		return
	}
	h := s.objXor
	for _, g := range s.gs {
		h = mix(h, uint64(g.id)<<8|uint64(g.status))
		h = mix(h, g.hist)
		if g.status == gParked {
			h = mix(h, hashString(g.label))
		}
	}
	s.res.States = append(s.res.States, h)
}

// current returns the controlled goroutine the caller is running as, or nil.
func current() *G {
	s := active.Load()
	if s == nil {
		return nil
	}
	g := s.cur.Load()
	if g == nil || g.goid != curGoid() {
		return nil
	}
	return g
}

// Active reports whether the caller is a controlled goroutine inside Run.
func Active() bool { return current() != nil }

// Running reports whether some Run is in progress in this process (cheap; it
// says nothing about the calling goroutine). Shims use it to skip building
// closures on the pass-through fast path.
func Running() bool { return active.Load() != nil }

// Go spawns f as a controlled goroutine when Active(), else plain `go f()`.
func Go(f func()) {
	g := Point(Label("go"), nil)
	if g == nil {
		go f()
		return
	}
	g.s.spawn(f)
}

// Yield is an explicit scheduling point (no-op when !Active()).
func Yield(label string) { Point("yield "+label, nil) }

// Point is the scheduling point every shim calls BEFORE its operation takes
// effect. enabled (may be nil = always) tells the scheduler whether the
// operation could proceed; it is evaluated only while no controlled goroutine
// is running and must be side-effect free. Point returns the controlled
// goroutine (nil in pass-through mode, in which case nothing happened and the
// caller must use the real primitive).
func Point(label string, enabled func() bool) *G {
	g := current()
	if g == nil {
		return nil
	}
	s := g.s
	// Fast path: no other goroutine could run, this one can: no hand-off.
	if enabled == nil || enabled() {
		other := false
		for _, o := range s.gs {
			if o != g && s.isEnabled(o) {
				other = true
				break
			}
		}
		if !other && s.res.Steps < s.horizon {
			g.label = label
			g.status = gParked
			s.recordState()
			g.status = gRunning
			s.traceStep(g)
			return g
		}
	}
	g.label = label
	g.enabled = enabled
	g.status = gParked
	s.events <- event{kind: evPoint, g: g}
	<-g.wake
	return g
}

// Choose asks the Chooser a question on behalf of a shim (pool hit/miss,
// select case). Outside Run it returns 0.
func Choose(n int, label string, deviation bool) int {
	if n <= 1 {
		return 0
	}
	g := current()
	if g == nil {
		return 0
	}
	g.s.events <- event{kind: evChoose, g: g, n: n, label: label, dev: deviation}
	<-g.wake
	return g.answer
}

// ID returns the goroutine's small deterministic id (g0 = body), -1 for nil.
func (g *G) ID() int {
	if g == nil {
		return -1
	}
	return g.id
}

// Touch publishes the current abstract value of shared object obj (a pointer
// used as identity) into the global state hash.
func (g *G) Touch(obj any, val uint64) {
	if g == nil {
		return
	}
	s := g.s
	id, ok := s.objIDs[obj]
	if !ok {
		id = uint64(len(s.objIDs) + 1)
		s.objIDs[obj] = id
	} else {
		s.objXor ^= mix(id, s.objVals[id])
	}
	s.objVals[id] = val
	s.objXor ^= mix(id, val)
}

// Canon maps a pointer-like identity to a small number that is stable across
// replays of the same execution (order of first sight). nil maps to 0.
func (g *G) Canon(p any) uint64 {
	if g == nil || p == nil {
		return 0
	}
	s := g.s
	if v, ok := s.canon[p]; ok {
		return v
	}
	v := uint64(len(s.canon) + 1)
	s.canon[p] = v
	return v
}

// OnAbandon registers (f != nil) or clears (f == nil) a cleanup keyed by obj
// that Run executes when it returns while the object is still in a held state
// (mutex locked by a goroutine that never resumed, ...), so that process-wide
// objects are usable again by the next Run.
func (g *G) OnAbandon(obj any, f func()) {
	if g == nil {
		return
	}
	if f == nil {
		delete(g.s.cleanups, obj)
	} else {
		g.s.cleanups[obj] = f
	}
}

// ---------------------------------------------------------------------------

var (
	labelMu    sync.Mutex
	labelCache = map[[6]uintptr]string{}
)

// Label returns "op file.go:line" for the first caller outside verifsched.
func Label(op string) string {
	if active.Load() == nil {
		return op
	}
	var pcs [6]uintptr
	n := runtime.Callers(2, pcs[:])
	labelMu.Lock()
	loc, ok := labelCache[pcs]
	labelMu.Unlock()
	if !ok {
		loc = "?"
		frames := runtime.CallersFrames(pcs[:n])
		for {
			fr, more := frames.Next()
			if !strings.Contains(fr.Function, "/verifsched") && fr.File != "" {
				file := fr.File
				if i := strings.LastIndexByte(file, '/'); i >= 0 {
					file = file[i+1:]
				}
				loc = fmt.Sprintf("%s:%d", file, fr.Line)
				break
			}
			if !more {
				break
			}
		}
		labelMu.Lock()
		labelCache[pcs] = loc
		labelMu.Unlock()
	}
	return op + " " + loc
}

func mix(h, v uint64) uint64 {
	h ^= v + 0x9e3779b97f4a7c15 + (h << 6) + (h >> 2)
	h *= 0xff51afd7ed558ccd
	h ^= h >> 33
	return h
}

func hashString(s string) uint64 {
	h := uint64(14695981039346656037)
	for i := 0; i < len(s); i++ {
		h ^= uint64(s[i])
		h *= 1099511628211
	}
	return h
}

// HashString is exported for shims that fold strings into state values.
func HashString(s string) uint64 { return hashString(s) }

// Mix is exported for shims that combine state values.
func Mix(h, v uint64) uint64 { return mix(h, v) }

// DistinctStates counts the distinct values in a set of Result.States.
func DistinctStates(all ...[]uint64) int {
	seen := map[uint64]struct{}{}
	for _, st := range all {
		for _, v := range st {
			seen[v] = struct{}{}
		}
	}
	return len(seen)
}
