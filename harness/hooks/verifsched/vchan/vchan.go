//go:build verif

// Package vchan provides Chan[T], a channel with exact Go semantics that is
// driven by the verifsched cooperative scheduler. A nil *Chan[T] is the nil
// channel.
//
// A Chan created while !verifsched.Active() wraps a real `chan T` (pass-through
// mode, usable by ordinary concurrent Go code). A Chan created on a controlled
// goroutine is a pure data structure whose blocking is cooperative. One
// object never switches mode; using a controlled channel outside Run only
// works for operations that do not block, and using a pass-through channel on
// a controlled goroutine panics (it could hang the whole scheduler).
package vchan

import (
	"reflect"

	"github.com/parquet-go/parquet-go/verifsched"
)

// Chan is the channel type `chan T` is rewritten to (as *Chan[T]).
type Chan[T any] struct {
	real chan T // non-nil: pass-through mode

	cap    int
	buf    []T
	closed bool
	recvq  []*waiter[T]
	sendq  []*waiter[T]
	nsent  uint64
}

// sel is one parked channel operation or select statement.
type sel struct {
	fired int // index of the case completed by a partner, -1 if none
}

type waiter[T any] struct {
	s   *sel
	idx int
	val T     // send: value to deliver
	dst *T    // recv: where the partner stores the value
	ok  *bool // recv: where the partner stores ok
}

// Make is make(chan T, capacity).
func Make[T any](capacity int) *Chan[T] {
	if capacity < 0 {
		panic("makechan: size out of range")
	}
	if !verifsched.Active() {
		return &Chan[T]{real: make(chan T, capacity), cap: capacity}
	}
	return &Chan[T]{cap: capacity}
}

func (c *Chan[T]) Len() int {
	if c == nil {
		return 0
	}
	if c.real != nil {
		return len(c.real)
	}
	return len(c.buf)
}

func (c *Chan[T]) Cap() int {
	if c == nil {
		return 0
	}
	return c.cap
}

// Send is `c <- v`.
func (c *Chan[T]) Send(v T) {
	if c != nil && c.real != nil {
		passthroughGuard()
		c.real <- v
		return
	}
	doSelect("chan send", false, []Case{&SendC[T]{c: c, v: v}})
}

// Recv is `<-c`.
func (c *Chan[T]) Recv() T {
	v, _ := c.Recv2()
	return v
}

// Recv2 is `v, ok := <-c`.
func (c *Chan[T]) Recv2() (T, bool) {
	if c != nil && c.real != nil {
		passthroughGuard()
		v, ok := <-c.real
		return v, ok
	}
	rc := &RecvC[T]{c: c}
	doSelect("chan recv", false, []Case{rc})
	return rc.Val, rc.Ok
}

// Close is close(c).
func (c *Chan[T]) Close() {
	if c == nil {
		panic("close of nil channel")
	}
	if c.real != nil {
		passthroughGuard()
		close(c.real)
		return
	}
	g := verifsched.Point(verifsched.Label("chan close"), nil)
	if c.closed {
		panic("close of closed channel")
	}
	c.closed = true
	c.touch(g)
}

func (c *Chan[T]) touch(g *verifsched.G) {
	v := uint64(len(c.buf))<<1 | c.nsent<<20
	if c.closed {
		v |= 1
	}
	g.Touch(c, v)
}

func passthroughGuard() {
	if verifsched.Active() {
		panic("verifsched: pass-through channel (created outside Run) used on a controlled goroutine")
	}
}

// ------------------------------------------------------------------ select

// Case is one communication clause of a select.
type Case interface {
	isNil() bool
	isReal() bool
	ready(self *sel) bool
	exec(g *verifsched.G) // perform the operation (case is ready)
	enqueue(s *sel, idx int)
	dequeue(s *sel)
	reflectCase() reflect.SelectCase
	reflectDone(v reflect.Value, ok bool)
}

// RecvC is a receive clause; after Select returns its index, Val/Ok hold the
// received value.
type RecvC[T any] struct {
	c   *Chan[T]
	Val T
	Ok  bool
}

// SendC is a send clause; the value was evaluated when the clause was built.
type SendC[T any] struct {
	c *Chan[T]
	v T
}

// RecvCase builds `case … <-c:`.
func RecvCase[T any](c *Chan[T]) *RecvC[T] { return &RecvC[T]{c: c} }

// SendCase builds `case c <- v:`.
func SendCase[T any](c *Chan[T], v T) *SendC[T] { return &SendC[T]{c: c, v: v} }

// Select runs a select statement over cases and returns the index of the
// clause that was executed, or -1 for the default clause.
func Select(hasDefault bool, cases ...Case) int {
	return doSelect("select", hasDefault, cases)
}

func doSelect(op string, hasDefault bool, cases []Case) int {
	nreal, nctl := 0, 0
	for _, c := range cases {
		if c.isNil() {
			continue
		}
		if c.isReal() {
			nreal++
		} else {
			nctl++
		}
	}
	if nreal > 0 && nctl > 0 {
		panic("verifsched: select mixes pass-through and controlled channels")
	}
	if !verifsched.Active() {
		if nctl == 0 {
			return realSelect(hasDefault, cases) // also covers all-nil selects
		}
		return outsideSelect(op, hasDefault, cases)
	}
	if nreal > 0 {
		passthroughGuard()
	}

	self := &sel{fired: -1}
	for i, c := range cases {
		if !c.isNil() {
			c.enqueue(self, i)
		}
	}
	anyReady := func() bool {
		if self.fired >= 0 || hasDefault {
			return true
		}
		for _, c := range cases {
			if !c.isNil() && c.ready(self) {
				return true
			}
		}
		return false
	}
	g := verifsched.Point(verifsched.Label(op), anyReady)
	for _, c := range cases {
		if !c.isNil() {
			c.dequeue(self)
		}
	}
	if self.fired >= 0 {
		return self.fired // a partner completed the rendezvous for us
	}
	var rdy []int
	for i, c := range cases {
		if !c.isNil() && c.ready(self) {
			rdy = append(rdy, i)
		}
	}
	if len(rdy) == 0 {
		if !hasDefault {
			panic("verifsched: resumed select has no ready case")
		}
		return -1
	}
	k := 0
	if len(rdy) > 1 {
		k = verifsched.Choose(len(rdy), "select", false)
	}
	cases[rdy[k]].exec(g)
	return rdy[k]
}

// outsideSelect handles controlled channels touched by code that is not (or
// no longer) under the scheduler, e.g. a deferred Close after Run returned:
// only operations that can complete immediately are possible.
func outsideSelect(op string, hasDefault bool, cases []Case) int {
	self := &sel{fired: -1}
	for i, c := range cases {
		if !c.isNil() && c.ready(self) {
			c.exec(nil)
			return i
		}
	}
	if hasDefault {
		return -1
	}
	panic("verifsched: " + op + " on a controlled channel would block outside Run")
}

func realSelect(hasDefault bool, cases []Case) int {
	rc := make([]reflect.SelectCase, 0, len(cases)+1)
	for _, c := range cases {
		rc = append(rc, c.reflectCase())
	}
	if hasDefault {
		rc = append(rc, reflect.SelectCase{Dir: reflect.SelectDefault})
	}
	i, v, ok := reflect.Select(rc)
	if i == len(cases) {
		return -1
	}
	cases[i].reflectDone(v, ok)
	return i
}

// --------------------------------------------------------------- recv case

func (r *RecvC[T]) isNil() bool  { return r.c == nil }
func (r *RecvC[T]) isReal() bool { return r.c != nil && r.c.real != nil }

func (r *RecvC[T]) ready(self *sel) bool {
	c := r.c
	if len(c.buf) > 0 || c.closed {
		return true
	}
	for _, w := range c.sendq {
		if w.s != self && w.s.fired < 0 {
			return true
		}
	}
	return false
}

func (r *RecvC[T]) exec(g *verifsched.G) {
	c := r.c
	switch {
	case len(c.buf) > 0:
		r.Val, r.Ok = c.buf[0], true
		var zero T
		c.buf[0] = zero
		c.buf = c.buf[1:]
	case c.closed:
		var zero T
		r.Val, r.Ok = zero, false
	default:
		for i, w := range c.sendq {
			if w.s.fired < 0 {
				r.Val, r.Ok = w.val, true
				w.s.fired = w.idx
				c.sendq = append(c.sendq[:i:i], c.sendq[i+1:]...)
				c.nsent++
				break
			}
		}
	}
	c.touch(g)
}

func (r *RecvC[T]) enqueue(s *sel, idx int) {
	r.c.recvq = append(r.c.recvq, &waiter[T]{s: s, idx: idx, dst: &r.Val, ok: &r.Ok})
}

func (r *RecvC[T]) dequeue(s *sel) { r.c.recvq = removeSel(r.c.recvq, s) }

func (r *RecvC[T]) reflectCase() reflect.SelectCase {
	if r.c == nil {
		return reflect.SelectCase{Dir: reflect.SelectRecv, Chan: reflect.ValueOf((chan T)(nil))}
	}
	return reflect.SelectCase{Dir: reflect.SelectRecv, Chan: reflect.ValueOf(r.c.real)}
}

func (r *RecvC[T]) reflectDone(v reflect.Value, ok bool) {
	r.Ok = ok
	if ok {
		r.Val, _ = v.Interface().(T)
	}
}

// --------------------------------------------------------------- send case

func (s *SendC[T]) isNil() bool  { return s.c == nil }
func (s *SendC[T]) isReal() bool { return s.c != nil && s.c.real != nil }

func (s *SendC[T]) ready(self *sel) bool {
	c := s.c
	if c.closed || len(c.buf) < c.cap {
		return true
	}
	if len(c.buf) > 0 {
		return false // full buffer: receivers take from the buffer first
	}
	for _, w := range c.recvq {
		if w.s != self && w.s.fired < 0 {
			return true
		}
	}
	return false
}

func (s *SendC[T]) exec(g *verifsched.G) {
	c := s.c
	if c.closed {
		panic("send on closed channel")
	}
	c.nsent++
	if len(c.buf) == 0 {
		for i, w := range c.recvq {
			if w.s.fired < 0 {
				*w.dst, *w.ok = s.v, true
				w.s.fired = w.idx
				c.recvq = append(c.recvq[:i:i], c.recvq[i+1:]...)
				c.touch(g)
				return
			}
		}
	}
	c.buf = append(c.buf, s.v)
	c.touch(g)
}

func (s *SendC[T]) enqueue(sl *sel, idx int) {
	s.c.sendq = append(s.c.sendq, &waiter[T]{s: sl, idx: idx, val: s.v})
}

func (s *SendC[T]) dequeue(sl *sel) { s.c.sendq = removeSel(s.c.sendq, sl) }

func (s *SendC[T]) reflectCase() reflect.SelectCase {
	if s.c == nil {
		return reflect.SelectCase{Dir: reflect.SelectSend, Chan: reflect.ValueOf((chan T)(nil)), Send: reflect.ValueOf(&s.v).Elem()}
	}
	return reflect.SelectCase{Dir: reflect.SelectSend, Chan: reflect.ValueOf(s.c.real), Send: reflect.ValueOf(&s.v).Elem()}
}

func (s *SendC[T]) reflectDone(reflect.Value, bool) {}

func removeSel[T any](q []*waiter[T], s *sel) []*waiter[T] {
	out := q[:0]
	for _, w := range q {
		if w.s != s {
			out = append(out, w)
		}
	}
	for i := len(out); i < len(q); i++ {
		q[i] = nil
	}
	return out
}
