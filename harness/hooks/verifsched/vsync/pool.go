//go:build verif

package vsync

import (
	"sync"
	"sync/atomic"
	"unsafe"

	"github.com/parquet-go/parquet-go/verifsched"
)

// PoolPolicy selects how every vsync.Pool behaves (process wide).
type PoolPolicy int32

const (
	PoolReal        PoolPolicy = iota // delegate to the real sync.Pool (default)
	PoolAlwaysReuse                   // LIFO stack per Pool, Get pops if non-empty
	PoolNeverReuse                    // Get always misses, Put drops
	PoolChoose                        // like AlwaysReuse, but under Run the Chooser decides hit(0)/miss(1)
)

var (
	poolPolicy atomic.Int32
	poolMu     sync.Mutex // guards every LIFO stack and the registry
	poolReg    = map[*Pool]struct{}{}
)

// SetPoolPolicy switches the policy of all pools; LIFO stacks are kept.
func SetPoolPolicy(p PoolPolicy) { poolPolicy.Store(int32(p)) }

// GetPoolPolicy returns the current policy.
func GetPoolPolicy() PoolPolicy { return PoolPolicy(poolPolicy.Load()) }

// ResetPools empties the LIFO stack of every pool touched so far.
func ResetPools() {
	poolMu.Lock()
	defer poolMu.Unlock()
	for p := range poolReg {
		clear(p.stack)
		p.stack = p.stack[:0]
	}
}

// PooledObjects returns the total number of objects sitting in LIFO stacks.
func PooledObjects() int {
	poolMu.Lock()
	defer poolMu.Unlock()
	n := 0
	for p := range poolReg {
		n += len(p.stack)
	}
	return n
}

// Pool is API compatible with sync.Pool.
type Pool struct {
	noCopy noCopy
	New    func() any

	real  sync.Pool
	stack []any
}

func dataWord(v any) unsafe.Pointer { return (*[2]unsafe.Pointer)(unsafe.Pointer(&v))[1] }

func (p *Pool) Get() any {
	g := verifsched.Point(verifsched.Label("pool.get"), nil)
	var v any
	switch pol := GetPoolPolicy(); pol {
	case PoolReal:
		v = p.real.Get()
	case PoolNeverReuse:
	default:
		poolMu.Lock()
		n := len(p.stack)
		poolMu.Unlock()
		if n > 0 && pol == PoolChoose && g != nil {
			if verifsched.Choose(2, "pool", true) == 1 {
				n = 0 // miss
			}
		}
		if n > 0 {
			poolMu.Lock()
			if n = len(p.stack); n > 0 {
				v = p.stack[n-1]
				p.stack[n-1] = nil
				p.stack = p.stack[:n-1]
			}
			poolMu.Unlock()
			g.Touch(p, uint64(n-1))
		}
	}
	if v == nil && p.New != nil {
		v = p.New()
	}
	return v
}

func (p *Pool) Put(x any) {
	g := verifsched.Point(verifsched.Label("pool.put"), nil)
	if x == nil {
		return
	}
	switch GetPoolPolicy() {
	case PoolReal:
		p.real.Put(x)
	case PoolNeverReuse:
	default:
		w := dataWord(x)
		poolMu.Lock()
		for _, y := range p.stack {
			if dataWord(y) == w {
				poolMu.Unlock()
				panic("verifsched: double Put")
			}
		}
		if len(p.stack) == 0 {
			poolReg[p] = struct{}{}
		}
		p.stack = append(p.stack, x)
		n := len(p.stack)
		poolMu.Unlock()
		g.Touch(p, uint64(n))
	}
}
