//go:build verif

// Package vsync is a drop-in replacement for the subset of package sync the
// library uses. Outside verifsched.Run every type delegates to the real
// primitive; inside Run every operation is a scheduling point and blocking is
// cooperative.
package vsync

import (
	"sync"
	"sync/atomic"

	"github.com/parquet-go/parquet-go/verifsched"
)

type noCopy struct{}

func (*noCopy) Lock()   {}
func (*noCopy) Unlock() {}

// Locker is sync.Locker.
type Locker = sync.Locker

// ---------------------------------------------------------------- Mutex

type Mutex struct {
	real  sync.Mutex
	owner int // controlled owner id + 1; 0 = not held by a controlled goroutine
}

func (m *Mutex) Lock() {
	if !verifsched.Running() {
		m.real.Lock()
		return
	}
	g := verifsched.Point(verifsched.Label("mutex.lock"), func() bool { return m.owner == 0 })
	if g == nil {
		m.real.Lock()
		return
	}
	m.real.Lock()
	m.owner = g.ID() + 1
	g.Touch(m, uint64(m.owner))
	g.OnAbandon(m, func() { m.owner = 0; m.real.Unlock() })
}

func (m *Mutex) TryLock() bool {
	g := verifsched.Point(verifsched.Label("mutex.trylock"), nil)
	if g == nil {
		return m.real.TryLock()
	}
	if m.owner != 0 || !m.real.TryLock() {
		return false
	}
	m.owner = g.ID() + 1
	g.Touch(m, uint64(m.owner))
	g.OnAbandon(m, func() { m.owner = 0; m.real.Unlock() })
	return true
}

func (m *Mutex) Unlock() {
	g := verifsched.Point(verifsched.Label("mutex.unlock"), nil)
	if g == nil {
		m.real.Unlock()
		return
	}
	if m.owner == 0 {
		// Locked outside Run (or not at all): real semantics decide.
		m.real.Unlock()
		return
	}
	m.owner = 0
	g.Touch(m, 0)
	g.OnAbandon(m, nil)
	m.real.Unlock()
}

// -------------------------------------------------------------- RWMutex

type RWMutex struct {
	real    sync.RWMutex
	writer  bool
	readers int
}

func (m *RWMutex) touch(g *verifsched.G) {
	v := uint64(m.readers) << 1
	if m.writer {
		v |= 1
	}
	g.Touch(m, v)
	if v == 0 {
		g.OnAbandon(m, nil)
		return
	}
	g.OnAbandon(m, func() {
		if m.writer {
			m.real.Unlock()
		}
		for ; m.readers > 0; m.readers-- {
			m.real.RUnlock()
		}
		m.writer = false
	})
}

func (m *RWMutex) Lock() {
	if !verifsched.Running() {
		m.real.Lock()
		return
	}
	g := verifsched.Point(verifsched.Label("rwmutex.lock"), func() bool { return !m.writer && m.readers == 0 })
	m.real.Lock()
	if g != nil {
		m.writer = true
		m.touch(g)
	}
}

func (m *RWMutex) Unlock() {
	g := verifsched.Point(verifsched.Label("rwmutex.unlock"), nil)
	if g != nil && m.writer {
		m.writer = false
		m.touch(g)
	}
	m.real.Unlock()
}

func (m *RWMutex) RLock() {
	if !verifsched.Running() {
		m.real.RLock()
		return
	}
	g := verifsched.Point(verifsched.Label("rwmutex.rlock"), func() bool { return !m.writer })
	m.real.RLock()
	if g != nil {
		m.readers++
		m.touch(g)
	}
}

func (m *RWMutex) RUnlock() {
	g := verifsched.Point(verifsched.Label("rwmutex.runlock"), nil)
	if g != nil && m.readers > 0 {
		m.readers--
		m.touch(g)
	}
	m.real.RUnlock()
}

func (m *RWMutex) TryLock() bool {
	g := verifsched.Point(verifsched.Label("rwmutex.trylock"), nil)
	if g != nil && (m.writer || m.readers > 0) {
		return false
	}
	if !m.real.TryLock() {
		return false
	}
	if g != nil {
		m.writer = true
		m.touch(g)
	}
	return true
}

func (m *RWMutex) TryRLock() bool {
	g := verifsched.Point(verifsched.Label("rwmutex.tryrlock"), nil)
	if g != nil && m.writer {
		return false
	}
	if !m.real.TryRLock() {
		return false
	}
	if g != nil {
		m.readers++
		m.touch(g)
	}
	return true
}

type rlocker RWMutex

func (r *rlocker) Lock()   { (*RWMutex)(r).RLock() }
func (r *rlocker) Unlock() { (*RWMutex)(r).RUnlock() }

func (m *RWMutex) RLocker() Locker { return (*rlocker)(m) }

// ----------------------------------------------------------------- Once

type Once struct {
	done    atomic.Uint32
	mu      sync.Mutex
	running bool // a controlled goroutine is inside Do
}

func (o *Once) Do(f func()) {
	if !verifsched.Running() {
		if o.done.Load() == 0 {
			o.doSlow(f)
		}
		return
	}
	g := verifsched.Point(verifsched.Label("once.do"), func() bool { return !o.running })
	if g == nil {
		if o.done.Load() == 0 {
			o.doSlow(f)
		}
		return
	}
	if o.done.Load() != 0 {
		return
	}
	o.mu.Lock()
	o.running = true
	g.Touch(o, 1)
	g.OnAbandon(o, func() { o.running = false; o.mu.Unlock() })
	defer func() {
		// like the real Once: done even when f panics
		o.done.Store(1)
		o.running = false
		g.Touch(o, 2)
		g.OnAbandon(o, nil)
		o.mu.Unlock()
	}()
	f()
}

func (o *Once) doSlow(f func()) {
	o.mu.Lock()
	defer o.mu.Unlock()
	if o.done.Load() == 0 {
		defer o.done.Store(1)
		f()
	}
}

func OnceFunc(f func()) func() {
	var once Once
	return func() { once.Do(f) }
}

func OnceValue[T any](f func() T) func() T {
	var once Once
	var v T
	return func() T { once.Do(func() { v = f() }); return v }
}

func OnceValues[T1, T2 any](f func() (T1, T2)) func() (T1, T2) {
	var once Once
	var v1 T1
	var v2 T2
	return func() (T1, T2) { once.Do(func() { v1, v2 = f() }); return v1, v2 }
}

// ------------------------------------------------------------ WaitGroup

type WaitGroup struct {
	noCopy noCopy
	real   sync.WaitGroup
	n      int // counter of Add calls made by controlled goroutines
}

func (wg *WaitGroup) Add(delta int) {
	g := verifsched.Point(verifsched.Label("wg.add"), nil)
	if g == nil {
		wg.real.Add(delta)
		return
	}
	wg.n += delta
	if wg.n < 0 {
		panic("sync: negative WaitGroup counter")
	}
	g.Touch(wg, uint64(wg.n))
}

func (wg *WaitGroup) Done() { wg.Add(-1) }

func (wg *WaitGroup) Wait() {
	if !verifsched.Running() {
		wg.real.Wait()
		return
	}
	g := verifsched.Point(verifsched.Label("wg.wait"), func() bool { return wg.n == 0 })
	if g == nil {
		wg.real.Wait()
	}
}

// ----------------------------------------------------------------- Cond

type Cond struct {
	noCopy  noCopy
	L       Locker
	real    *sync.Cond
	realMu  sync.Mutex
	waiters []*condWaiter
}

type condWaiter struct{ signaled bool }

func NewCond(l Locker) *Cond { return &Cond{L: l} }

func (c *Cond) realCond() *sync.Cond {
	c.realMu.Lock()
	defer c.realMu.Unlock()
	if c.real == nil {
		c.real = sync.NewCond(c.L)
	}
	return c.real
}

func (c *Cond) Wait() {
	if !verifsched.Active() {
		c.realCond().Wait()
		return
	}
	w := &condWaiter{}
	c.waiters = append(c.waiters, w)
	c.L.Unlock()
	verifsched.Point(verifsched.Label("cond.wait"), func() bool { return w.signaled })
	c.L.Lock()
}

func (c *Cond) Signal() {
	g := verifsched.Point(verifsched.Label("cond.signal"), nil)
	if g == nil {
		c.realCond().Signal()
		return
	}
	if len(c.waiters) > 0 {
		c.waiters[0].signaled = true
		c.waiters = c.waiters[1:]
	}
}

func (c *Cond) Broadcast() {
	g := verifsched.Point(verifsched.Label("cond.broadcast"), nil)
	if g == nil {
		c.realCond().Broadcast()
		return
	}
	for _, w := range c.waiters {
		w.signaled = true
	}
	c.waiters = nil
}

// ------------------------------------------------------------------ Map

type Map struct {
	real sync.Map
	ver  uint64
}

func (m *Map) pt(op string, write bool) {
	g := verifsched.Point(verifsched.Label(op), nil)
	if g != nil && write {
		m.ver++
		g.Touch(m, m.ver)
	}
}

func (m *Map) Load(key any) (any, bool) { m.pt("map.load", false); return m.real.Load(key) }
func (m *Map) Store(key, value any)     { m.pt("map.store", true); m.real.Store(key, value) }
func (m *Map) Delete(key any)           { m.pt("map.delete", true); m.real.Delete(key) }
func (m *Map) Clear()                   { m.pt("map.clear", true); m.real.Clear() }
func (m *Map) LoadOrStore(key, value any) (any, bool) {
	m.pt("map.loadorstore", true)
	return m.real.LoadOrStore(key, value)
}
func (m *Map) LoadAndDelete(key any) (any, bool) {
	m.pt("map.loadanddelete", true)
	return m.real.LoadAndDelete(key)
}
func (m *Map) Swap(key, value any) (any, bool) {
	m.pt("map.swap", true)
	return m.real.Swap(key, value)
}
func (m *Map) CompareAndSwap(key, old, new any) bool {
	m.pt("map.cas", true)
	return m.real.CompareAndSwap(key, old, new)
}
func (m *Map) CompareAndDelete(key, old any) bool {
	m.pt("map.cad", true)
	return m.real.CompareAndDelete(key, old)
}
func (m *Map) Range(f func(key, value any) bool) { m.pt("map.range", false); m.real.Range(f) }
