//go:build verif

package verifsched

import (
	"runtime"
	"sync/atomic"
)

// identity returns a value that is unique among live goroutines. The portable
// default parses runtime.Stack, which costs a full traceback (~10µs on deep
// stacks). A build may install something cheaper with SetGoroutineIdentity
// (hooks/internal/debug installs the address of the runtime g on amd64).
var identity atomic.Pointer[func() uint64]

// SetGoroutineIdentity installs f as the goroutine identity function. It must
// be called before the first Run (package init time).
func SetGoroutineIdentity(f func() uint64) { identity.Store(&f) }

func curGoid() uint64 {
	if f := identity.Load(); f != nil {
		return (*f)()
	}
	return stackGoid()
}

func stackGoid() uint64 {
	var buf [40]byte
	n := runtime.Stack(buf[:], false)
	var id uint64
	for _, c := range buf[10:n] { // "goroutine 123 ["
		if c < '0' || c > '9' {
			break
		}
		id = id*10 + uint64(c-'0')
	}
	return id
}
