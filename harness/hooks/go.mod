module verifhooks

go 1.24.9
