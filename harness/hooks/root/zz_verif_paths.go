//go:build verif

package parquet

// Accessors for the unexported WriteRowGroup path counters and disable
// switches (property C11): a check can prove which path ran and produce a
// second witness with the fast paths off.

func VerifCopyPathCount() int64     { return copyPathCounter.Load() }
func VerifReencodePathCount() int64 { return reencodePathCounter.Load() }

func VerifSetDisableWriteCopy(v bool)     { disableWriteCopy = v }
func VerifSetDisableWriteReencode(v bool) { disableWriteReencode = v }

// VerifRowRange exposes the row-range views which the merge planner builds
// over partially overlapping row groups (property C08 names them; they are
// otherwise only reachable through merges of >= 1024-row stretches).
func VerifRowRange(base RowGroup, off, length int64) RowGroup {
	return newRowRangeRowGroup(base, off, length)
}
