//go:build verif

package parquet

import (
	"github.com/parquet-go/parquet-go/internal/memory"
	"github.com/parquet-go/parquet-go/verifsched/vsync"
)

// Pool policies accepted by VerifSetPoolPolicy (values of vsync.PoolPolicy).
const (
	VerifPoolReal        = int(vsync.PoolReal)
	VerifPoolAlwaysReuse = int(vsync.PoolAlwaysReuse)
	VerifPoolNeverReuse  = int(vsync.PoolNeverReuse)
	VerifPoolChoose      = int(vsync.PoolChoose)
)

// VerifSetPoison turns 0xDB poisoning of slices returned to the internal
// memory pools on or off.
func VerifSetPoison(on bool) { memory.VerifSetPoison(on) }

// VerifPoisonCount returns how many slices have been poisoned so far.
func VerifPoisonCount() int64 { return memory.VerifPoisonCount.Load() }

// VerifSetPoolPolicy selects the behaviour of every (rewritten) sync.Pool.
func VerifSetPoolPolicy(p int) { vsync.SetPoolPolicy(vsync.PoolPolicy(p)) }

// VerifResetPools empties the deterministic LIFO stacks of all pools.
func VerifResetPools() { vsync.ResetPools() }

// VerifPooledObjects returns the number of objects held in LIFO stacks.
func VerifPooledObjects() int { return vsync.PooledObjects() }
