//go:build verif

package memory

import "testing"

// Self-test of the injected poison hook; run with
//
//	go test -tags verif -overlay <dir>/overlay.json -run VerifPoison github.com/parquet-go/parquet-go/internal/memory
func TestVerifPoison(t *testing.T) {
	for _, on := range []bool{false, true} {
		VerifSetPoison(on)
		var b SliceBuffer[int32]
		for i := 0; i < 3000; i++ { // > 4 KiB: comes from a pool bucket
			b.AppendValue(int32(i))
		}
		alias := b.Slice()
		alias = alias[:cap(alias)]
		before := VerifPoisonCount.Load()
		b.Reset()
		poisoned := 0
		for _, v := range alias {
			if uint32(v) == 0xDBDBDBDB {
				poisoned++
			}
		}
		if on && (poisoned != len(alias) || VerifPoisonCount.Load() == before) {
			t.Fatalf("poison on: %d of %d elements poisoned", poisoned, len(alias))
		}
		if !on && poisoned != 0 {
			t.Fatalf("poison off: %d elements poisoned", poisoned)
		}
	}
	VerifSetPoison(false)
}
