//go:build verif

package memory

import (
	"sync/atomic"
	"unsafe"
)

// VerifPoisonOn makes putSliceToPool overwrite the full capacity of every
// slice it is handed with 0xDB BEFORE the slice is pooled, so that any reader
// still holding the memory observes garbage deterministically.
var VerifPoisonOn atomic.Bool

// VerifPoisonCount counts the slices poisoned so far (coverage evidence).
var VerifPoisonCount atomic.Int64

// VerifSetPoison switches poisoning on or off.
func VerifSetPoison(on bool) { VerifPoisonOn.Store(on) }

// verifPoison is called as the first statement of putSliceToPool (inserted by
// mkoverlay).
func verifPoison[T Datum](s *slice[T]) {
	if !VerifPoisonOn.Load() || s == nil || cap(s.data) == 0 {
		return
	}
	n := cap(s.data) * int(unsafe.Sizeof(*new(T)))
	if n == 0 {
		return
	}
	b := unsafe.Slice((*byte)(unsafe.Pointer(unsafe.SliceData(s.data))), n)
	for i := range b {
		b[i] = 0xDB
	}
	VerifPoisonCount.Add(1)
}
