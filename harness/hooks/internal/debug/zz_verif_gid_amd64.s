//go:build verif

#include "textflag.h"

// func verifGetg() uintptr
// Returns the runtime's g pointer of the calling goroutine. It is used only
// as an opaque identity to tell controlled goroutines from foreign ones.
TEXT ·verifGetg(SB),NOSPLIT,$0-8
	MOVQ (TLS), R14
	MOVQ R14, ret+0(FP)
	RET
