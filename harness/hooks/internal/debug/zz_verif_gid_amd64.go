//go:build verif

package debug

import "github.com/parquet-go/parquet-go/verifsched"

// The assembly stub lives here (and not in verifsched) because the assembler
// needs a directory that really exists in the repository, which an
// overlay-only package does not have.
func verifGetg() uintptr

func init() {
	verifsched.SetGoroutineIdentity(func() uint64 { return uint64(verifGetg()) })
}
