package pqref

import (
	"encoding/binary"
	"math/bits"
)

// ---------------------------------------------------------------------------
// XXH64 (xxhash_spec.md)

const (
	xxP1 uint64 = 0x9E3779B185EBCA87
	xxP2 uint64 = 0xC2B2AE3D27D4EB4F
	xxP3 uint64 = 0x165667B19E3779F9
	xxP4 uint64 = 0x85EBCA77C2B2AE63
	xxP5 uint64 = 0x27D4EB2F165667C5
)

func xxRound(acc, lane uint64) uint64 {
	acc += lane * xxP2
	acc = bits.RotateLeft64(acc, 31)
	return acc * xxP1
}

func xxMerge(acc, v uint64) uint64 {
	acc ^= xxRound(0, v)
	return acc*xxP1 + xxP4
}

// XXH64 computes the 64-bit xxHash of b.
func XXH64(b []byte, seed uint64) uint64 {
	n := len(b)
	var h uint64
	if n >= 32 {
		v1 := seed + xxP1 + xxP2
		v2 := seed + xxP2
		v3 := seed
		v4 := seed - xxP1
		for len(b) >= 32 {
			v1 = xxRound(v1, binary.LittleEndian.Uint64(b[0:8]))
			v2 = xxRound(v2, binary.LittleEndian.Uint64(b[8:16]))
			v3 = xxRound(v3, binary.LittleEndian.Uint64(b[16:24]))
			v4 = xxRound(v4, binary.LittleEndian.Uint64(b[24:32]))
			b = b[32:]
		}
		h = bits.RotateLeft64(v1, 1) + bits.RotateLeft64(v2, 7) + bits.RotateLeft64(v3, 12) + bits.RotateLeft64(v4, 18)
		h = xxMerge(h, v1)
		h = xxMerge(h, v2)
		h = xxMerge(h, v3)
		h = xxMerge(h, v4)
	} else {
		h = seed + xxP5
	}
	h += uint64(n)
	for len(b) >= 8 {
		h ^= xxRound(0, binary.LittleEndian.Uint64(b))
		h = bits.RotateLeft64(h, 27)*xxP1 + xxP4
		b = b[8:]
	}
	if len(b) >= 4 {
		h ^= uint64(binary.LittleEndian.Uint32(b)) * xxP1
		h = bits.RotateLeft64(h, 23)*xxP2 + xxP3
		b = b[4:]
	}
	for _, c := range b {
		h ^= uint64(c) * xxP5
		h = bits.RotateLeft64(h, 11) * xxP1
	}
	h ^= h >> 33
	h *= xxP2
	h ^= h >> 29
	h *= xxP3
	h ^= h >> 32
	return h
}

// ---------------------------------------------------------------------------
// Split block bloom filter (BloomFilter.md)

type Bloom struct {
	HeaderLen  int
	NumBytes   int32
	Bitset     []byte
	Compressed bool

	// Offset is the file offset of the bloom filter header.
	Offset int64
	// AlgorithmOK / HashOK report whether the header selects BLOCK / XXHASH.
	AlgorithmOK, HashOK bool
}

var bloomSalt = [8]uint32{
	0x47b6137b, 0x44974d91, 0x8824ad5b, 0xa2b7289d,
	0x705495c7, 0x2df1424b, 0x9efc4947, 0x5c6bfb31,
}

// CheckHash probes the filter with a 64-bit hash.
func (b *Bloom) CheckHash(h uint64) bool {
	if b == nil {
		return false
	}
	nblocks := uint64(len(b.Bitset) / 32)
	if nblocks == 0 {
		return false
	}
	idx := ((h >> 32) * nblocks) >> 32
	block := b.Bitset[idx*32 : idx*32+32]
	key := uint32(h)
	for i := 0; i < 8; i++ {
		mask := uint32(1) << ((key * bloomSalt[i]) >> 27)
		if binary.LittleEndian.Uint32(block[i*4:])&mask == 0 {
			return false
		}
	}
	return true
}

// Check probes the filter with the PLAIN encoding of a value (BYTE_ARRAY:
// raw bytes without the length prefix).
func (b *Bloom) Check(plainValue []byte) bool {
	return b.CheckHash(XXH64(plainValue, 0))
}

// ReadBloomFilter reads the bloom filter of a column chunk; nil, nil if the
// chunk has none.
func (f *File) ReadBloomFilter(rg, col int) (b *Bloom, err error) {
	defer func() {
		if p := recover(); p != nil {
			b, err = nil, errf("internal-panic", "ReadBloomFilter: %v", p)
		}
	}()
	m, err := f.chunkMeta(rg, col)
	if err != nil {
		return nil, err
	}
	if m.BloomFilterOffset == nil {
		return nil, nil
	}
	off := *m.BloomFilterOffset
	size := int64(len(f.Data))
	if off < 4 || off >= size {
		return nil, errf("bloom-bounds", "bloom_filter_offset %d outside the file (%d bytes)", off, size)
	}
	r := &tr{b: f.Data[off:]}
	b = &Bloom{Offset: off}
	var seen uint64
	compression := int16(0)
	r.fields(0, func(id int16, t byte) {
		mark(&seen, id)
		switch id {
		case 1:
			b.NumBytes = r.i32(t)
		case 2:
			r.structOf(t, 1, func(id int16, t byte) {
				if id == 1 {
					b.AlgorithmOK = true
				}
				r.skip(t, 2)
			})
		case 3:
			r.structOf(t, 1, func(id int16, t byte) {
				if id == 1 {
					b.HashOK = true
				}
				r.skip(t, 2)
			})
		case 4:
			r.structOf(t, 1, func(id int16, t byte) {
				compression = id
				r.skip(t, 2)
			})
		default:
			r.skip(t, 1)
		}
	})
	r.required("BloomFilterHeader", seen, 1, 2, 3, 4)
	if r.err != nil {
		return nil, errf("bloom-header", "%v", r.err)
	}
	b.HeaderLen = r.pos
	if compression != 1 {
		b.Compressed = true
		return b, nil
	}
	if b.NumBytes < 0 || int64(b.NumBytes) > size-off-int64(b.HeaderLen) {
		return b, errf("bloom-bounds", "bloom filter bitset of %d bytes at %d exceeds the file (%d bytes)", b.NumBytes, off+int64(b.HeaderLen), size)
	}
	start := off + int64(b.HeaderLen)
	b.Bitset = f.Data[start : start+int64(b.NumBytes) : start+int64(b.NumBytes)]
	return b, nil
}

func (f *File) chunkMeta(rg, col int) (*ColumnMetaData, error) {
	if f == nil {
		return nil, errf("bad-argument", "nil file")
	}
	if rg < 0 || rg >= len(f.RowGroups) {
		return nil, errf("bad-argument", "row group %d out of range [0,%d)", rg, len(f.RowGroups))
	}
	g := &f.RowGroups[rg]
	if col < 0 || col >= len(g.Columns) {
		return nil, errf("bad-argument", "column %d out of range [0,%d)", col, len(g.Columns))
	}
	c := &g.Columns[col]
	if c.Meta == nil {
		return nil, errf("column-meta-missing", "rg%d/col%d has no ColumnMetaData", rg, col)
	}
	return c.Meta, nil
}
