package pqref

import (
	"encoding/binary"
	"errors"
	"fmt"
	"math/bits"
)

// MaxValues bounds the number of values decoded from a single page or
// encoded block. RLE can describe billions of values in a few bytes; the
// bound keeps corrupt input from exhausting memory.
var MaxValues = 1 << 26

func physicalWidth(typ int32, typeLength int) (int, error) {
	switch typ {
	case TypeInt32, TypeFloat:
		return 4, nil
	case TypeInt64, TypeDouble:
		return 8, nil
	case TypeInt96:
		return 12, nil
	case TypeFixedLenByteArray:
		if typeLength < 0 {
			return 0, fmt.Errorf("pqref: negative type length %d", typeLength)
		}
		return typeLength, nil
	}
	return 0, fmt.Errorf("pqref: type %d has no fixed width", typ)
}

func bitWidthOf(maxLevel int) int { return bits.Len32(uint32(maxLevel)) }

// DecodeValues decodes numValues values of the given physical type from data
// encoded with encoding. Each returned value is the PLAIN representation of a
// single value (BOOLEAN: one byte 0/1; BYTE_ARRAY: the bytes without length
// prefix). numValues < 0 means "until the data is exhausted" (PLAIN, DELTA_*,
// BYTE_STREAM_SPLIT).
func DecodeValues(encoding int32, typ int32, typeLength int, data []byte, numValues int) (vals [][]byte, err error) {
	defer func() {
		if p := recover(); p != nil {
			vals, err = nil, fmt.Errorf("pqref: DecodeValues panic: %v", p)
		}
	}()
	var fl decodeFlags
	vals, _, err = decodeValues(encoding, typ, typeLength, data, numValues, &fl)
	if err == nil && fl.wideRLE && !LenientRLERunValues {
		return nil, errWideRLE
	}
	return vals, err
}

// LenientRLERunValues makes the exported DecodeValues and DecodeHybrid accept
// RLE runs whose repeated value does not fit in the bit width (for example
// 0xFF for a run of true booleans, where the specification requires 0x01).
// Such booleans decode as true; other values are returned unmasked. Check and
// ReadColumn always decode leniently, Check reports "rle-run-value-width".
var LenientRLERunValues = false

var errWideRLE = errors.New("pqref: hybrid: the repeated value of an RLE run does not fit in the bit width")

type decodeFlags struct {
	wideRLE bool // some RLE run value has bits set beyond the bit width
}

// decodeValues also returns the number of bytes of data that were consumed.
func decodeValues(encoding int32, typ int32, typeLength int, data []byte, n int, fl *decodeFlags) ([][]byte, int, error) {
	if n > MaxValues {
		return nil, 0, fmt.Errorf("pqref: %d values exceed MaxValues", n)
	}
	switch encoding {
	case EncPlain:
		return decodePlain(typ, typeLength, data, n)
	case EncRLE:
		if typ != TypeBoolean {
			return nil, 0, fmt.Errorf("pqref: RLE encoding is only valid for BOOLEAN values, not type %d", typ)
		}
		if n < 0 {
			return nil, 0, errors.New("pqref: RLE encoding needs an explicit value count")
		}
		if len(data) < 4 {
			if n == 0 && len(data) == 0 {
				return nil, 0, nil
			}
			return nil, 0, errors.New("pqref: RLE boolean data shorter than its 4-byte length prefix")
		}
		l := int64(binary.LittleEndian.Uint32(data))
		if l > int64(len(data)-4) {
			return nil, 0, fmt.Errorf("pqref: RLE boolean length prefix %d exceeds the %d bytes available", l, len(data)-4)
		}
		idx, used, wide, err := decodeHybrid(data[4:4+l], 1, n)
		if err != nil {
			return nil, 0, err
		}
		if wide {
			fl.wideRLE = true
			for i, v := range idx {
				if v != 0 {
					idx[i] = 1
				}
			}
		}
		if used != int(l) && n > 0 {
			return nil, 0, fmt.Errorf("pqref: RLE boolean data has %d trailing bytes inside its length prefix", int(l)-used)
		}
		buf := make([]byte, n)
		out := make([][]byte, n)
		for i, v := range idx {
			if v > 1 {
				return nil, 0, fmt.Errorf("pqref: RLE boolean value %d", v)
			}
			buf[i] = byte(v)
			out[i] = buf[i : i+1 : i+1]
		}
		return out, 4 + int(l), nil
	case EncDeltaBinaryPacked:
		var w int
		switch typ {
		case TypeInt32:
			w = 4
		case TypeInt64:
			w = 8
		default:
			return nil, 0, fmt.Errorf("pqref: DELTA_BINARY_PACKED is not valid for type %d", typ)
		}
		v, used, err := decodeDeltaBinaryPacked(data)
		if err != nil {
			return nil, 0, err
		}
		if n >= 0 && len(v) != n {
			return nil, 0, fmt.Errorf("pqref: DELTA_BINARY_PACKED block holds %d values, expected %d", len(v), n)
		}
		buf := make([]byte, w*len(v))
		out := make([][]byte, len(v))
		for i, x := range v {
			b := buf[i*w : (i+1)*w : (i+1)*w]
			if w == 4 {
				binary.LittleEndian.PutUint32(b, uint32(x))
			} else {
				binary.LittleEndian.PutUint64(b, x)
			}
			out[i] = b
		}
		return out, used, nil
	case EncDeltaLengthByteArray:
		if typ != TypeByteArray {
			return nil, 0, fmt.Errorf("pqref: DELTA_LENGTH_BYTE_ARRAY is not valid for type %d", typ)
		}
		out, used, err := decodeDeltaLengthByteArray(data)
		if err != nil {
			return nil, 0, err
		}
		if n >= 0 && len(out) != n {
			return nil, 0, fmt.Errorf("pqref: DELTA_LENGTH_BYTE_ARRAY block holds %d values, expected %d", len(out), n)
		}
		return out, used, nil
	case EncDeltaByteArray:
		if typ != TypeByteArray && typ != TypeFixedLenByteArray {
			return nil, 0, fmt.Errorf("pqref: DELTA_BYTE_ARRAY is not valid for type %d", typ)
		}
		out, used, err := decodeDeltaByteArray(data)
		if err != nil {
			return nil, 0, err
		}
		if n >= 0 && len(out) != n {
			return nil, 0, fmt.Errorf("pqref: DELTA_BYTE_ARRAY block holds %d values, expected %d", len(out), n)
		}
		if typ == TypeFixedLenByteArray {
			for i, v := range out {
				if len(v) != typeLength {
					return nil, 0, fmt.Errorf("pqref: DELTA_BYTE_ARRAY value %d has %d bytes, fixed length is %d", i, len(v), typeLength)
				}
			}
		}
		return out, used, nil
	case EncByteStreamSplit:
		switch typ {
		case TypeInt32, TypeInt64, TypeFloat, TypeDouble, TypeFixedLenByteArray:
		default:
			return nil, 0, fmt.Errorf("pqref: BYTE_STREAM_SPLIT is not valid for type %d", typ)
		}
		w, err := physicalWidth(typ, typeLength)
		if err != nil {
			return nil, 0, err
		}
		if w == 0 {
			if n < 0 {
				n = 0
			}
			return make([][]byte, n), 0, nil
		}
		if n < 0 {
			if len(data)%w != 0 {
				return nil, 0, fmt.Errorf("pqref: BYTE_STREAM_SPLIT data of %d bytes is not a multiple of the value width %d", len(data), w)
			}
			n = len(data) / w
		}
		// The stream length is defined by the value count: the whole section
		// must hold exactly n*w bytes.
		if int64(n)*int64(w) != int64(len(data)) {
			return nil, 0, fmt.Errorf("pqref: BYTE_STREAM_SPLIT data has %d bytes, %d values of width %d need %d", len(data), n, w, int64(n)*int64(w))
		}
		buf := make([]byte, n*w)
		out := make([][]byte, n)
		for j := 0; j < w; j++ {
			stream := data[j*n : (j+1)*n]
			for i, c := range stream {
				buf[i*w+j] = c
			}
		}
		for i := range out {
			out[i] = buf[i*w : (i+1)*w : (i+1)*w]
		}
		return out, len(data), nil
	case EncPlainDictionary, EncRLEDictionary:
		return nil, 0, errors.New("pqref: dictionary encodings cannot be decoded without the dictionary page")
	case EncBitPacked:
		return nil, 0, errors.New("pqref: BIT_PACKED is a level-only encoding")
	}
	return nil, 0, fmt.Errorf("pqref: unknown encoding %d", encoding)
}

func decodePlain(typ int32, typeLength int, data []byte, n int) ([][]byte, int, error) {
	switch typ {
	case TypeBoolean:
		if n < 0 {
			n = len(data) * 8
			if n > MaxValues {
				return nil, 0, errors.New("pqref: too many boolean values")
			}
		}
		need := (n + 7) / 8
		if need > len(data) {
			return nil, 0, fmt.Errorf("pqref: PLAIN BOOLEAN: %d values need %d bytes, have %d", n, need, len(data))
		}
		buf := make([]byte, n)
		out := make([][]byte, n)
		for i := 0; i < n; i++ {
			buf[i] = (data[i>>3] >> uint(i&7)) & 1
			out[i] = buf[i : i+1 : i+1]
		}
		return out, need, nil
	case TypeByteArray:
		var out [][]byte
		if n >= 0 {
			if n > len(data)/4 {
				return nil, 0, fmt.Errorf("pqref: PLAIN BYTE_ARRAY: %d values cannot fit in %d bytes", n, len(data))
			}
			out = make([][]byte, 0, n)
		}
		pos := 0
		for n < 0 && pos < len(data) || len(out) < n {
			if len(data)-pos < 4 {
				return nil, 0, fmt.Errorf("pqref: PLAIN BYTE_ARRAY: truncated length prefix of value %d", len(out))
			}
			l := int64(binary.LittleEndian.Uint32(data[pos:]))
			pos += 4
			if l > int64(len(data)-pos) {
				return nil, 0, fmt.Errorf("pqref: PLAIN BYTE_ARRAY: value %d of %d bytes exceeds the %d bytes remaining", len(out), l, len(data)-pos)
			}
			out = append(out, data[pos:pos+int(l):pos+int(l)])
			pos += int(l)
		}
		return out, pos, nil
	}
	w, err := physicalWidth(typ, typeLength)
	if err != nil {
		return nil, 0, err
	}
	if w == 0 {
		if n < 0 {
			n = 0
		}
		out := make([][]byte, n)
		for i := range out {
			out[i] = data[:0:0]
		}
		return out, 0, nil
	}
	if n < 0 {
		if len(data)%w != 0 {
			return nil, 0, fmt.Errorf("pqref: PLAIN: %d bytes is not a multiple of the value width %d", len(data), w)
		}
		n = len(data) / w
	}
	if int64(n)*int64(w) > int64(len(data)) {
		return nil, 0, fmt.Errorf("pqref: PLAIN: %d values of width %d need %d bytes, have %d", n, w, int64(n)*int64(w), len(data))
	}
	out := make([][]byte, n)
	for i := range out {
		out[i] = data[i*w : (i+1)*w : (i+1)*w]
	}
	return out, n * w, nil
}

// ---------------------------------------------------------------------------
// RLE / bit-packing hybrid

// DecodeHybrid decodes exactly n values of the given bit width (0..32) from
// an RLE/bit-packed hybrid stream without length prefix.
func DecodeHybrid(data []byte, bitWidth int, n int) (vals []uint32, err error) {
	defer func() {
		if p := recover(); p != nil {
			vals, err = nil, fmt.Errorf("pqref: DecodeHybrid panic: %v", p)
		}
	}()
	vals, _, wide, err := decodeHybrid(data, bitWidth, n)
	if err == nil && wide && !LenientRLERunValues {
		return nil, errWideRLE
	}
	return vals, err
}

func readUvarint(data []byte, pos int) (uint64, int, error) {
	var v uint64
	var shift uint
	for i := 0; i < 10; i++ {
		if pos >= len(data) {
			return 0, pos, errors.New("pqref: truncated varint")
		}
		c := data[pos]
		pos++
		v |= uint64(c&0x7f) << shift
		if c&0x80 == 0 {
			if i == 9 && c > 1 {
				return 0, pos, errors.New("pqref: varint overflows 64 bits")
			}
			return v, pos, nil
		}
		shift += 7
	}
	return 0, pos, errors.New("pqref: varint longer than 10 bytes")
}

func readZigzag(data []byte, pos int) (int64, int, error) {
	u, pos, err := readUvarint(data, pos)
	return int64(u>>1) ^ -int64(u&1), pos, err
}

// decodeHybrid returns the values and the number of bytes consumed: all runs
// needed to produce n values are consumed entirely (a bit-packed run always
// spans whole groups of 8 values).
func decodeHybrid(data []byte, bw int, n int) (vals []uint32, consumed int, wide bool, err error) {
	if bw < 0 || bw > 32 {
		return nil, 0, false, fmt.Errorf("pqref: hybrid bit width %d out of range", bw)
	}
	if n < 0 || n > MaxValues {
		return nil, 0, false, fmt.Errorf("pqref: hybrid value count %d out of range", n)
	}
	out := make([]uint32, n)
	got := 0
	pos := 0
	valBytes := (bw + 7) / 8
	for got < n {
		h, p, err := readUvarint(data, pos)
		if err != nil {
			return nil, pos, false, fmt.Errorf("pqref: hybrid: run header after %d of %d values: %w", got, n, err)
		}
		pos = p
		if h&1 == 1 {
			groups := h >> 1
			if groups == 0 {
				return nil, pos, false, errors.New("pqref: hybrid: bit-packed run of 0 groups")
			}
			avail := uint64(len(data) - pos)
			if bw > 0 && groups > avail/uint64(bw) {
				return nil, pos, false, fmt.Errorf("pqref: hybrid: bit-packed run of %d groups (width %d) needs %d bytes, %d remain", groups, bw, groups*uint64(bw), avail)
			}
			take := n - got
			if groups < uint64(take+7)/8 {
				take = int(groups) * 8
			}
			if bw > 0 {
				unpack32(out[got:got+take], data[pos:], uint(bw))
				pos += int(groups) * bw
			}
			got += take
		} else {
			count := h >> 1
			if count == 0 {
				return nil, pos, false, errors.New("pqref: hybrid: RLE run of length 0")
			}
			if len(data)-pos < valBytes {
				return nil, pos, false, errors.New("pqref: hybrid: truncated RLE run value")
			}
			var v uint32
			for i := 0; i < valBytes; i++ {
				v |= uint32(data[pos+i]) << (8 * uint(i))
			}
			pos += valBytes
			if bw < 32 && v>>uint(bw) != 0 {
				wide = true
			}
			take := n - got
			if count < uint64(take) {
				take = int(count)
			}
			if v != 0 {
				for i := got; i < got+take; i++ {
					out[i] = v
				}
			}
			got += take
		}
	}
	return out, pos, wide, nil
}

// unpack32 reads len(dst) values of width w (1..32) packed LSB first.
func unpack32(dst []uint32, src []byte, w uint) {
	var acc uint64
	var nbits uint
	pos := 0
	mask := uint64(1)<<w - 1
	for i := range dst {
		for nbits < w {
			acc |= uint64(src[pos]) << nbits
			pos++
			nbits += 8
		}
		dst[i] = uint32(acc & mask)
		acc >>= w
		nbits -= w
	}
}

// unpack64 reads len(dst) values of width w (1..64) packed LSB first.
func unpack64(dst []uint64, src []byte, w uint) {
	bitpos := uint64(0)
	for i := range dst {
		var v uint64
		got := uint(0)
		for got < w {
			byteIdx := bitpos >> 3
			off := uint(bitpos & 7)
			take := 8 - off
			if take > w-got {
				take = w - got
			}
			chunk := (uint64(src[byteIdx]) >> off) & (uint64(1)<<take - 1)
			v |= chunk << got
			got += take
			bitpos += uint64(take)
		}
		dst[i] = v
	}
}

// decodeBitPackedLevels decodes the deprecated BIT_PACKED level encoding:
// values packed MSB first, no header.
func decodeBitPackedLevels(data []byte, bw int, n int) ([]uint32, int, error) {
	if n < 0 || n > MaxValues {
		return nil, 0, fmt.Errorf("pqref: value count %d out of range", n)
	}
	need := (int64(n)*int64(bw) + 7) / 8
	if need > int64(len(data)) {
		return nil, 0, fmt.Errorf("pqref: BIT_PACKED levels: %d values of width %d need %d bytes, have %d", n, bw, need, len(data))
	}
	out := make([]uint32, n)
	bitpos := 0
	for i := range out {
		var v uint32
		for k := 0; k < bw; k++ {
			bit := (data[bitpos>>3] >> uint(7-bitpos&7)) & 1
			v = v<<1 | uint32(bit)
			bitpos++
		}
		out[i] = v
	}
	return out, int(need), nil
}

// ---------------------------------------------------------------------------
// DELTA_BINARY_PACKED

// decodeDeltaBinaryPacked decodes one DELTA_BINARY_PACKED block sequence.
// Values are returned as uint64 computed modulo 2^64; truncating to 32 bits
// yields the INT32 wrap-around result.
func decodeDeltaBinaryPacked(data []byte) ([]uint64, int, error) {
	pos := 0
	blockSize, pos, err := readUvarint(data, pos)
	if err != nil {
		return nil, pos, fmt.Errorf("pqref: delta: block size: %w", err)
	}
	miniblocks, pos, err := readUvarint(data, pos)
	if err != nil {
		return nil, pos, fmt.Errorf("pqref: delta: miniblock count: %w", err)
	}
	total, pos, err := readUvarint(data, pos)
	if err != nil {
		return nil, pos, fmt.Errorf("pqref: delta: total value count: %w", err)
	}
	first, pos, err := readZigzag(data, pos)
	if err != nil {
		return nil, pos, fmt.Errorf("pqref: delta: first value: %w", err)
	}
	if blockSize == 0 || blockSize%128 != 0 || blockSize > 1<<24 {
		return nil, pos, fmt.Errorf("pqref: delta: block size %d is not a positive multiple of 128", blockSize)
	}
	if miniblocks == 0 || blockSize%miniblocks != 0 {
		return nil, pos, fmt.Errorf("pqref: delta: %d miniblocks do not divide block size %d", miniblocks, blockSize)
	}
	vpm := blockSize / miniblocks
	if vpm%32 != 0 {
		return nil, pos, fmt.Errorf("pqref: delta: miniblock size %d is not a multiple of 32", vpm)
	}
	if total > uint64(MaxValues) {
		return nil, pos, fmt.Errorf("pqref: delta: total value count %d exceeds MaxValues", total)
	}
	if total == 0 {
		return nil, pos, nil
	}
	// Every block takes at least 1+miniblocks bytes.
	nblocks := (total - 1 + blockSize - 1) / blockSize
	if nblocks*(1+miniblocks) > uint64(len(data)-pos) {
		return nil, pos, fmt.Errorf("pqref: delta: %d values need %d blocks which cannot fit in %d bytes", total, nblocks, len(data)-pos)
	}
	out := make([]uint64, total)
	out[0] = uint64(first)
	got := 1
	n := int(total)
	mb := int(miniblocks)
	tmpLen := vpm
	if tmpLen > total {
		tmpLen = total
	}
	tmp := make([]uint64, tmpLen)
	for got < n {
		minDelta, p, err := readZigzag(data, pos)
		if err != nil {
			return nil, pos, fmt.Errorf("pqref: delta: min delta: %w", err)
		}
		pos = p
		if len(data)-pos < mb {
			return nil, pos, errors.New("pqref: delta: truncated miniblock bit widths")
		}
		widths := data[pos : pos+mb]
		pos += mb
		for m := 0; m < mb && got < n; m++ {
			w := uint(widths[m])
			if w > 64 {
				return nil, pos, fmt.Errorf("pqref: delta: miniblock bit width %d", w)
			}
			nbytes := int(vpm) / 8 * int(w)
			if nbytes > len(data)-pos {
				return nil, pos, fmt.Errorf("pqref: delta: miniblock of %d values at width %d needs %d bytes, %d remain (the last miniblock must be padded to its full size)", vpm, w, nbytes, len(data)-pos)
			}
			take := n - got
			if take > int(vpm) {
				take = int(vpm)
			}
			t := tmp[:take]
			if w == 0 {
				for i := range t {
					t[i] = 0
				}
			} else {
				unpack64(t, data[pos:pos+nbytes], w)
			}
			pos += nbytes
			prev := out[got-1]
			for _, d := range t {
				prev += uint64(minDelta) + d
				out[got] = prev
				got++
			}
		}
	}
	return out, pos, nil
}

func decodeDeltaLengths(data []byte, what string) ([]int, int64, int, error) {
	raw, used, err := decodeDeltaBinaryPacked(data)
	if err != nil {
		return nil, 0, used, err
	}
	lens := make([]int, len(raw))
	var sum int64
	for i, x := range raw {
		l := int32(uint32(x))
		if l < 0 {
			return nil, 0, used, fmt.Errorf("pqref: %s: negative length %d for value %d", what, l, i)
		}
		lens[i] = int(l)
		sum += int64(l)
	}
	return lens, sum, used, nil
}

func decodeDeltaLengthByteArray(data []byte) ([][]byte, int, error) {
	lens, sum, pos, err := decodeDeltaLengths(data, "DELTA_LENGTH_BYTE_ARRAY")
	if err != nil {
		return nil, pos, err
	}
	if sum > int64(len(data)-pos) {
		return nil, pos, fmt.Errorf("pqref: DELTA_LENGTH_BYTE_ARRAY: lengths sum to %d but only %d bytes follow", sum, len(data)-pos)
	}
	out := make([][]byte, len(lens))
	for i, l := range lens {
		out[i] = data[pos : pos+l : pos+l]
		pos += l
	}
	return out, pos, nil
}

func decodeDeltaByteArray(data []byte) ([][]byte, int, error) {
	prefixes, _, pos, err := decodeDeltaLengths(data, "DELTA_BYTE_ARRAY prefix")
	if err != nil {
		return nil, pos, err
	}
	suffixes, used, err := decodeDeltaLengthByteArray(data[pos:])
	pos += used
	if err != nil {
		return nil, pos, err
	}
	if len(suffixes) != len(prefixes) {
		return nil, pos, fmt.Errorf("pqref: DELTA_BYTE_ARRAY: %d prefix lengths but %d suffixes", len(prefixes), len(suffixes))
	}
	// First pass: sizes.
	var total int64
	prevLen := 0
	for i, p := range prefixes {
		if p > prevLen {
			return nil, pos, fmt.Errorf("pqref: DELTA_BYTE_ARRAY: value %d has prefix length %d but the previous value has %d bytes", i, p, prevLen)
		}
		prevLen = p + len(suffixes[i])
		total += int64(prevLen)
		if total > int64(MaxPageSize) {
			return nil, pos, errors.New("pqref: DELTA_BYTE_ARRAY: decoded size exceeds MaxPageSize")
		}
	}
	buf := make([]byte, 0, total)
	out := make([][]byte, len(prefixes))
	var prev []byte
	for i, p := range prefixes {
		start := len(buf)
		buf = append(buf, prev[:p]...)
		buf = append(buf, suffixes[i]...)
		prev = buf[start:len(buf):len(buf)]
		out[i] = prev
	}
	return out, pos, nil
}
