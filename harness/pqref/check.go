package pqref

import (
	"bytes"
	"fmt"
	"hash/crc32"
	"sort"
)

// Issue is one well-formedness violation. Where locates it ("file", "rg0",
// "rg0/col1", "rg0/col1/page2" where the page number is the index within
// Pages(), dictionary page included). Code is a short stable kebab-case id.
type Issue struct {
	Where string
	Code  string
	Msg   string
}

func (i Issue) String() string { return i.Where + ": " + i.Code + ": " + i.Msg }

// IssueCodes lists every code Check can report.
var IssueCodes = []string{
	// file
	"magic", "encrypted", "footer-length", "footer-thrift", "schema-invalid", "file-num-rows", "internal-panic",
	// row group
	"rg-columns-count", "rg-num-rows", "rg-total-byte-size", "rg-total-compressed-size", "rg-file-offset", "rg-ordinal", "sorting-column-index",
	// chunk metadata
	"column-meta-missing", "external-file", "path-in-schema", "column-type", "dict-offset-order", "dict-page-offset", "data-page-offset",
	"dict-page-position", "dict-page-multiple", "chunk-bounds", "page-header", "pages-tiling", "total-compressed-size", "total-uncompressed-size",
	"chunk-num-values", "encodings-missing", "encoding-stats",
	// pages
	"page-type-unknown", "page-too-large", "page-decompress", "page-uncompressed-size", "page-num-values", "crc-mismatch",
	"levels-encoding", "levels-decode", "levels-trailing-bytes", "levels-byte-length", "rep-level-range", "def-level-range", "page-first-rep-level",
	"v2-num-rows", "v2-num-nulls", "dict-encoding", "dict-decode", "dict-missing", "dict-index-range", "values-decode", "values-trailing-bytes", "rle-run-value-width",
	// statistics (chunk: "stats-*", page header: "page-stats-*")
	"stats-null-count", "stats-value-size", "stats-nan", "stats-min-bound", "stats-max-bound", "stats-min-not-exact", "stats-max-not-exact",
	"stats-legacy-min-max", "stats-distinct-count",
	"page-stats-null-count", "page-stats-value-size", "page-stats-nan", "page-stats-min-bound", "page-stats-max-bound", "page-stats-min-not-exact",
	"page-stats-max-not-exact", "page-stats-legacy-min-max", "page-stats-distinct-count",
	// offset index
	"offset-index-bounds", "offset-index-read", "offset-index-length", "offset-index-count", "offset-index-offset", "offset-index-size",
	"offset-index-first-row", "offset-index-byte-array-bytes",
	// column index
	"column-index-bounds", "column-index-read", "column-index-length", "column-index-count", "column-index-null-pages", "column-index-null-counts",
	"column-index-null-page-minmax", "column-index-value-size", "column-index-nan", "column-index-min-bound", "column-index-max-bound",
	"column-index-boundary-order", "column-index-rep-histogram", "column-index-def-histogram",
	// size statistics
	"size-stats-byte-array-bytes", "size-stats-rep-histogram", "size-stats-def-histogram",
	// bloom filter
	"bloom-bounds", "bloom-header", "bloom-algorithm", "bloom-num-bytes", "bloom-length", "bloom-miss",
}

// Check verifies that the file's metadata describes exactly the bytes
// present. The returned File is nil when the footer cannot be parsed.
func Check(data []byte) (f *File, issues []Issue) {
	c := &checker{}
	defer func() {
		if p := recover(); p != nil {
			c.add("file", "internal-panic", fmt.Sprintf("Check: %v", p))
			f, issues = c.f, c.issues
		}
	}()
	file, err := Parse(data)
	if err != nil {
		if err == ErrEncrypted {
			c.add("file", "encrypted", err.Error())
		} else {
			c.add("file", codeOf(err, "footer-thrift"), msgOf(err))
		}
		return nil, c.issues
	}
	c.f = file
	c.run()
	return c.f, c.issues
}

type checker struct {
	f      *File
	issues []Issue
}

func (c *checker) add(where, code, msg string) {
	c.issues = append(c.issues, Issue{Where: where, Code: code, Msg: msg})
}

// addf takes the location as a string or a fmt.Stringer (built lazily).
func (c *checker) addf(where any, code, format string, args ...any) {
	var w string
	switch x := where.(type) {
	case string:
		w = x
	case fmt.Stringer:
		w = x.String()
	}
	c.add(w, code, fmt.Sprintf(format, args...))
}

// pageWhere is the lazily formatted location of a page.
type pageWhere struct {
	chunk string
	page  int
}

func (p pageWhere) String() string { return fmt.Sprintf("%s/page%d", p.chunk, p.page) }

func (c *checker) run() {
	f := c.f
	var rows int64
	for gi := range f.RowGroups {
		rows += f.RowGroups[gi].NumRows
		c.checkRowGroup(gi)
	}
	if rows != f.NumRows {
		c.addf("file", "file-num-rows", "file num_rows is %d but the row groups sum to %d", f.NumRows, rows)
	}
}

type chunkResult struct {
	hasMeta  bool
	complete bool // rows is meaningful
	rows     int64
}

func (c *checker) checkRowGroup(gi int) {
	f := c.f
	g := &f.RowGroups[gi]
	where := fmt.Sprintf("rg%d", gi)
	if len(g.Columns) != len(f.Leaves) {
		c.addf(where, "rg-columns-count", "row group has %d column chunks, the schema has %d leaves", len(g.Columns), len(f.Leaves))
	}
	if g.Ordinal != nil && int(*g.Ordinal) != gi {
		c.addf(where, "rg-ordinal", "ordinal is %d for row group %d", *g.Ordinal, gi)
	}
	for _, s := range g.SortingColumns {
		if s.ColumnIdx < 0 || int(s.ColumnIdx) >= len(f.Leaves) {
			c.addf(where, "sorting-column-index", "sorting column index %d out of range [0,%d)", s.ColumnIdx, len(f.Leaves))
		}
	}
	var sumUncompressed, sumCompressed int64
	allMeta := true
	for ci := range g.Columns {
		if ci >= len(f.Leaves) {
			break
		}
		res := c.checkChunk(gi, ci)
		if !res.hasMeta {
			allMeta = false
			continue
		}
		m := g.Columns[ci].Meta
		sumUncompressed += m.TotalUncompressedSize
		sumCompressed += m.TotalCompressedSize
		if res.complete && res.rows != g.NumRows {
			c.addf(fmt.Sprintf("rg%d/col%d", gi, ci), "rg-num-rows", "column holds %d rows (repetition level 0 entries), row group num_rows is %d", res.rows, g.NumRows)
		}
	}
	if allMeta && len(g.Columns) == len(f.Leaves) {
		if g.TotalByteSize != sumUncompressed {
			c.addf(where, "rg-total-byte-size", "total_byte_size is %d, columns' total_uncompressed_size sum to %d", g.TotalByteSize, sumUncompressed)
		}
		if g.TotalCompressedSize != nil && *g.TotalCompressedSize != sumCompressed {
			c.addf(where, "rg-total-compressed-size", "total_compressed_size is %d, columns' total_compressed_size sum to %d", *g.TotalCompressedSize, sumCompressed)
		}
	}
	if g.FileOffset != nil && len(g.Columns) > 0 && g.Columns[0].Meta != nil {
		if start := chunkStart(g.Columns[0].Meta); *g.FileOffset != start {
			c.addf(where, "rg-file-offset", "file_offset is %d, the first page of the first column is at %d", *g.FileOffset, start)
		}
	}
}

func (c *checker) checkChunk(gi, ci int) (res chunkResult) {
	f := c.f
	where := fmt.Sprintf("rg%d/col%d", gi, ci)
	cc := &f.RowGroups[gi].Columns[ci]
	leaf := &f.Leaves[ci]
	m := cc.Meta
	if m == nil {
		c.addf(where, "column-meta-missing", "column chunk has no meta_data (crypto_metadata: %v, encrypted_column_metadata: %v)", cc.HasCryptoMetadata, cc.HasEncryptedColumnMetadata)
		return res
	}
	res.hasMeta = true
	if cc.FilePath != nil && *cc.FilePath != "" {
		c.addf(where, "external-file", "column chunk data lives in external file %q; not checked", *cc.FilePath)
		return res
	}
	if !equalStrings(m.PathInSchema, leaf.Path) {
		c.addf(where, "path-in-schema", "path_in_schema is %q, the leaf path is %q", m.PathInSchema, leaf.Path)
	}
	if m.Type != leaf.Type {
		c.addf(where, "column-type", "meta_data.type is %d, the schema leaf has type %d", m.Type, leaf.Type)
		return res
	}
	if d := m.DictionaryPageOffset; d != nil && *d != 0 && *d >= m.DataPageOffset {
		c.addf(where, "dict-offset-order", "dictionary_page_offset %d is not before data_page_offset %d", *d, m.DataPageOffset)
	}

	cd := f.decodeChunk(leaf, m, func(pageIdx int, code, msg string, fatal bool) {
		c.add(fmt.Sprintf("%s/page%d", where, pageIdx), code, msg)
	})
	if cd.WalkErr != nil {
		c.add(where, codeOf(cd.WalkErr, "pages-tiling"), msgOf(cd.WalkErr))
	}

	// ---- page structure ----
	var sumCompressed, sumUncompressed, sumValues int64
	firstData, dictPages := -1, 0
	used := map[pek]int64{}
	var dataPages []*PageInfo
	for i := range cd.Pages {
		p := &cd.Pages[i]
		pwhere := pageWhere{where, i}
		sumCompressed += int64(p.HeaderLen) + int64(p.CompressedSize)
		sumUncompressed += int64(p.HeaderLen) + int64(p.UncompressedSize)
		if p.CRC != nil {
			body := f.Data[p.BodyOffset : p.BodyOffset+int64(p.BodyLen)]
			if sum := crc32.ChecksumIEEE(body); sum != uint32(*p.CRC) {
				c.addf(pwhere, "crc-mismatch", "page header crc is %#08x, CRC32 of the %d body bytes is %#08x", uint32(*p.CRC), len(body), sum)
			}
		}
		switch p.Type {
		case PageTypeDictionary:
			dictPages++
			if dictPages > 1 {
				c.addf(pwhere, "dict-page-multiple", "column chunk has more than one dictionary page")
			} else if i != 0 {
				c.addf(pwhere, "dict-page-position", "dictionary page is page %d of the chunk, it must come first", i)
			}
			used[pek{p.Type, p.Encoding}]++
		case PageTypeData, PageTypeDataV2:
			if firstData < 0 {
				firstData = i
			}
			sumValues += int64(p.NumValues)
			used[pek{p.Type, p.Encoding}]++
			dataPages = append(dataPages, p)
		}
	}
	if cd.WalkErr == nil {
		if sumCompressed != m.TotalCompressedSize {
			c.addf(where, "total-compressed-size", "total_compressed_size is %d, page headers + compressed_page_size sum to %d", m.TotalCompressedSize, sumCompressed)
		}
		if sumUncompressed != m.TotalUncompressedSize {
			c.addf(where, "total-uncompressed-size", "total_uncompressed_size is %d, page headers + uncompressed_page_size sum to %d", m.TotalUncompressedSize, sumUncompressed)
		}
		if sumValues != m.NumValues {
			c.addf(where, "chunk-num-values", "num_values is %d, data pages' num_values sum to %d", m.NumValues, sumValues)
		}
		if firstData >= 0 && cd.Pages[firstData].HeaderOffset != m.DataPageOffset {
			c.addf(where, "data-page-offset", "data_page_offset is %d, the first data page is at %d", m.DataPageOffset, cd.Pages[firstData].HeaderOffset)
		}
		if d := m.DictionaryPageOffset; d != nil && *d > 0 {
			if len(cd.Pages) == 0 || cd.Pages[0].Type != PageTypeDictionary || cd.Pages[0].HeaderOffset != *d {
				c.addf(where, "dict-page-offset", "dictionary_page_offset is %d but no dictionary page starts the chunk there", *d)
			}
		}
		// encodings superset
		have := map[int32]bool{}
		for _, e := range m.Encodings {
			have[e] = true
		}
		var missing []int
		for k := range used {
			if !have[k.encoding] {
				missing = append(missing, int(k.encoding))
			}
		}
		if len(missing) > 0 {
			sort.Ints(missing)
			c.addf(where, "encodings-missing", "pages use encodings %v which are absent from meta_data.encodings %v", dedupInts(missing), m.Encodings)
		}
		if m.EncodingStats != nil {
			stat := map[pek]int64{}
			for _, s := range m.EncodingStats {
				stat[pek{s.PageType, s.Encoding}] += int64(s.Count)
			}
			bad := false
			for k, n := range used {
				if stat[k] != n {
					bad = true
				}
			}
			for k, n := range stat {
				if used[k] != n {
					bad = true
				}
			}
			if bad {
				c.addf(where, "encoding-stats", "encoding_stats %v do not match the pages present %v (page type, encoding -> count)", fmtPEK(stat), fmtPEK(used))
			}
		}
	}

	// ---- per data page ----
	for _, dp := range cd.Data {
		pwhere := pageWhere{where, dp.Index}
		p := &dp.Info
		nulls := int64(p.NumValues) - int64(dp.NonNull)
		if p.Type == PageTypeDataV2 {
			if int(p.NumRows) != dp.NumRows {
				c.addf(pwhere, "v2-num-rows", "header num_rows is %d, the page holds %d rows", p.NumRows, dp.NumRows)
			}
			if int64(p.NumNulls) != nulls {
				c.addf(pwhere, "v2-num-nulls", "header num_nulls is %d, the page holds %d nulls", p.NumNulls, nulls)
			}
		}
		if len(dp.Rep) > 0 && dp.Rep[0] != 0 {
			c.addf(pwhere, "page-first-rep-level", "page starts with repetition level %d: pages must start on a row boundary", dp.Rep[0])
		}
		if p.Stats != nil {
			c.checkStats(pwhere.String(), "page-stats", leaf, p.Stats, [][][]byte{dp.Values}, nulls)
		}
	}

	if !cd.Complete {
		// Some page could not be decoded: value dependent checks are skipped.
		c.checkBloom(where, gi, ci, m, nil)
		return res
	}
	res.complete = true
	var nulls int64
	values := make([][][]byte, len(cd.Data))
	for i, dp := range cd.Data {
		res.rows += int64(dp.NumRows)
		nulls += int64(dp.Info.NumValues) - int64(dp.NonNull)
		values[i] = dp.Values
	}
	if m.Statistics != nil {
		c.checkStats(where, "stats", leaf, m.Statistics, values, nulls)
	}
	c.checkSizeStats(where, leaf, m, cd)
	c.checkOffsetIndex(where, gi, ci, leaf, cd)
	c.checkColumnIndex(where, gi, ci, leaf, cd)
	c.checkBloom(where, gi, ci, m, values)
	return res
}

func equalStrings(a, b []string) bool {
	if len(a) != len(b) {
		return false
	}
	for i := range a {
		if a[i] != b[i] {
			return false
		}
	}
	return true
}

func dedupInts(s []int) []int {
	out := s[:0]
	for i, v := range s {
		if i == 0 || v != s[i-1] {
			out = append(out, v)
		}
	}
	return out
}

type pek struct{ pageType, encoding int32 }

func fmtPEK(m map[pek]int64) string {
	keys := make([]pek, 0, len(m))
	for k := range m {
		keys = append(keys, k)
	}
	sort.Slice(keys, func(i, j int) bool {
		if keys[i].pageType != keys[j].pageType {
			return keys[i].pageType < keys[j].pageType
		}
		return keys[i].encoding < keys[j].encoding
	})
	var b bytes.Buffer
	b.WriteByte('[')
	for i, k := range keys {
		if i > 0 {
			b.WriteByte(' ')
		}
		fmt.Fprintf(&b, "(%d,%d)->%d", k.pageType, k.encoding, m[k])
	}
	b.WriteByte(']')
	return b.String()
}

// ---------------------------------------------------------------------------
// statistics

// minMax returns the smallest and largest non-NaN value.
func minMax(leaf *Leaf, pages [][][]byte) (lo, hi []byte, ok bool) {
	for _, vals := range pages {
		for _, v := range vals {
			if IsNaN(leaf, v) {
				continue
			}
			if !ok {
				lo, hi, ok = v, v, true
				continue
			}
			if CompareValues(leaf, v, lo) < 0 {
				lo = v
			}
			if CompareValues(leaf, v, hi) > 0 {
				hi = v
			}
		}
	}
	return lo, hi, ok
}

// checkBound verifies one statistics bound. isMin selects the direction.
func (c *checker) checkBound(where any, prefix string, leaf *Leaf, bound, actual []byte, haveActual, isMin bool, exact *bool) {
	name := "max"
	if isMin {
		name = "min"
	}
	if w := leaf.valueWidth(); w >= 0 && len(bound) != w {
		c.addf(where, prefix+"-value-size", "%s value has %d bytes, the column type needs %d", name, len(bound), w)
		return
	}
	if IsNaN(leaf, bound) {
		c.addf(where, prefix+"-nan", "%s value is NaN", name)
		return
	}
	if !haveActual {
		return
	}
	cmp := CompareValues(leaf, bound, actual)
	if isMin && cmp > 0 {
		c.addf(where, prefix+"-min-bound", "min %x is greater than the smallest value %x", clip(bound), clip(actual))
		return
	}
	if !isMin && cmp < 0 {
		c.addf(where, prefix+"-max-bound", "max %x is less than the largest value %x", clip(bound), clip(actual))
		return
	}
	if exact != nil && *exact && cmp != 0 {
		c.addf(where, prefix+"-"+name+"-not-exact", "is_%s_value_exact is true but %s %x differs from the actual %s %x", name, name, clip(bound), name, clip(actual))
	}
}

func clip(b []byte) []byte {
	if len(b) > 32 {
		return b[:32]
	}
	return b
}

func (c *checker) checkStats(where, prefix string, leaf *Leaf, st *Statistics, pages [][][]byte, nulls int64) {
	if st.NullCount != nil && *st.NullCount != nulls {
		c.addf(where, prefix+"-null-count", "null_count is %d, the levels describe %d nulls", *st.NullCount, nulls)
	}
	if st.DistinctCount != nil {
		switch leaf.order() {
		case ordFloat, ordDouble, ordFloat16:
		default:
			seen := map[string]struct{}{}
			for _, vals := range pages {
				for _, v := range vals {
					seen[string(v)] = struct{}{}
				}
			}
			if int64(len(seen)) != *st.DistinctCount {
				c.addf(where, prefix+"-distinct-count", "distinct_count is %d, there are %d distinct non-null values", *st.DistinctCount, len(seen))
			}
		}
	}
	k := leaf.order()
	if k == ordNone || !(st.HasMin || st.HasMax || st.HasMinValue || st.HasMaxValue) {
		return
	}
	lo, hi, ok := minMax(leaf, pages)
	if st.HasMinValue {
		c.checkBound(where, prefix, leaf, st.MinValue, lo, ok, true, st.IsMinValueExact)
	}
	if st.HasMaxValue {
		c.checkBound(where, prefix, leaf, st.MaxValue, hi, ok, false, st.IsMaxValueExact)
	}
	// The deprecated min/max fields are only defined for signed comparison.
	switch k {
	case ordBool, ordInt32, ordInt64, ordFloat, ordDouble:
		w := leaf.valueWidth()
		if st.HasMin && ok && len(st.Min) == w && !IsNaN(leaf, st.Min) && CompareValues(leaf, st.Min, lo) > 0 {
			c.addf(where, prefix+"-legacy-min-max", "deprecated min %x is greater than the smallest value %x", st.Min, lo)
		}
		if st.HasMax && ok && len(st.Max) == w && !IsNaN(leaf, st.Max) && CompareValues(leaf, st.Max, hi) < 0 {
			c.addf(where, prefix+"-legacy-min-max", "deprecated max %x is less than the largest value %x", st.Max, hi)
		}
		if st.HasMin && len(st.Min) != w || st.HasMax && len(st.Max) != w {
			c.addf(where, prefix+"-value-size", "deprecated min/max have %d/%d bytes, the column type needs %d", len(st.Min), len(st.Max), w)
		}
	}
}

// ---------------------------------------------------------------------------
// size statistics

func histogram(levels []uint32, maxLevel int, n int) []int64 {
	h := make([]int64, maxLevel+1)
	if levels == nil {
		h[0] = int64(n)
		return h
	}
	for _, l := range levels {
		if int(l) <= maxLevel {
			h[l]++
		}
	}
	return h
}

func equalInt64s(a, b []int64) bool {
	if len(a) != len(b) {
		return false
	}
	for i := range a {
		if a[i] != b[i] {
			return false
		}
	}
	return true
}

func byteArrayBytes(vals [][]byte) int64 {
	var n int64
	for _, v := range vals {
		n += int64(len(v))
	}
	return n
}

func (c *checker) checkSizeStats(where string, leaf *Leaf, m *ColumnMetaData, cd *chunkDecode) {
	ss := m.SizeStatistics
	if ss == nil {
		return
	}
	if ss.UnencodedByteArrayDataBytes != nil {
		if leaf.Type != TypeByteArray {
			c.addf(where, "size-stats-byte-array-bytes", "unencoded_byte_array_data_bytes (%d) is set for a column of type %d", *ss.UnencodedByteArrayDataBytes, leaf.Type)
		} else {
			var n int64
			for _, dp := range cd.Data {
				n += byteArrayBytes(dp.Values)
			}
			if n != *ss.UnencodedByteArrayDataBytes {
				c.addf(where, "size-stats-byte-array-bytes", "unencoded_byte_array_data_bytes is %d, the values total %d bytes", *ss.UnencodedByteArrayDataBytes, n)
			}
		}
	}
	if ss.HasRepetitionLevelHistogram {
		want := make([]int64, leaf.MaxRep+1)
		for _, dp := range cd.Data {
			for i, v := range histogram(dp.Rep, leaf.MaxRep, int(dp.Info.NumValues)) {
				want[i] += v
			}
		}
		if !equalInt64s(want, ss.RepetitionLevelHistogram) {
			c.addf(where, "size-stats-rep-histogram", "repetition_level_histogram is %v, the levels give %v", ss.RepetitionLevelHistogram, want)
		}
	}
	if ss.HasDefinitionLevelHistogram {
		want := make([]int64, leaf.MaxDef+1)
		for _, dp := range cd.Data {
			for i, v := range histogram(dp.Def, leaf.MaxDef, int(dp.Info.NumValues)) {
				want[i] += v
			}
		}
		if !equalInt64s(want, ss.DefinitionLevelHistogram) {
			c.addf(where, "size-stats-def-histogram", "definition_level_histogram is %v, the levels give %v", ss.DefinitionLevelHistogram, want)
		}
	}
}

// ---------------------------------------------------------------------------
// offset index

func (c *checker) checkOffsetIndex(where string, gi, ci int, leaf *Leaf, cd *chunkDecode) {
	oi, err := c.f.ReadOffsetIndex(gi, ci)
	if err != nil {
		c.add(where, codeOf(err, "offset-index-read"), msgOf(err))
	}
	if oi == nil {
		return
	}
	if len(oi.PageLocations) != len(cd.Data) {
		c.addf(where, "offset-index-count", "offset index has %d page locations, the chunk has %d data pages", len(oi.PageLocations), len(cd.Data))
		return
	}
	var rows int64
	for i, dp := range cd.Data {
		pwhere := pageWhere{where, dp.Index}
		loc := oi.PageLocations[i]
		p := &dp.Info
		if loc.Offset != p.HeaderOffset {
			c.addf(pwhere, "offset-index-offset", "page location %d has offset %d, the page header is at %d", i, loc.Offset, p.HeaderOffset)
		}
		if size := int64(p.HeaderLen) + int64(p.BodyLen); int64(loc.CompressedPageSize) != size {
			c.addf(pwhere, "offset-index-size", "page location %d has compressed_page_size %d, header + body take %d bytes", i, loc.CompressedPageSize, size)
		}
		if loc.FirstRowIndex != rows {
			c.addf(pwhere, "offset-index-first-row", "page location %d has first_row_index %d, %d rows precede the page", i, loc.FirstRowIndex, rows)
		}
		rows += int64(dp.NumRows)
	}
	if oi.HasUnencodedByteArrayDataBytes {
		if len(oi.UnencodedByteArrayDataBytes) != len(cd.Data) {
			c.addf(where, "offset-index-byte-array-bytes", "unencoded_byte_array_data_bytes has %d entries for %d data pages", len(oi.UnencodedByteArrayDataBytes), len(cd.Data))
		} else if leaf.Type != TypeByteArray {
			c.addf(where, "offset-index-byte-array-bytes", "unencoded_byte_array_data_bytes is set for a column of type %d", leaf.Type)
		} else {
			for i, dp := range cd.Data {
				if n := byteArrayBytes(dp.Values); n != oi.UnencodedByteArrayDataBytes[i] {
					c.addf(fmt.Sprintf("%s/page%d", where, dp.Index), "offset-index-byte-array-bytes", "unencoded_byte_array_data_bytes[%d] is %d, the page values total %d bytes", i, oi.UnencodedByteArrayDataBytes[i], n)
				}
			}
		}
	}
}

// ---------------------------------------------------------------------------
// column index

func (c *checker) checkColumnIndex(where string, gi, ci int, leaf *Leaf, cd *chunkDecode) {
	x, err := c.f.ReadColumnIndex(gi, ci)
	if err != nil {
		c.add(where, codeOf(err, "column-index-read"), msgOf(err))
	}
	if x == nil {
		return
	}
	n := len(cd.Data)
	if len(x.NullPages) != n || len(x.MinValues) != n || len(x.MaxValues) != n || x.HasNullCounts && len(x.NullCounts) != n {
		nc := "absent"
		if x.HasNullCounts {
			nc = fmt.Sprint(len(x.NullCounts))
		}
		c.addf(where, "column-index-count", "column index lists have lengths null_pages=%d min_values=%d max_values=%d null_counts=%s, the chunk has %d data pages",
			len(x.NullPages), len(x.MinValues), len(x.MaxValues), nc, n)
		return
	}
	k := leaf.order()
	var mins, maxs [][]byte // bounds of the non-null pages, for boundary_order
	for i, dp := range cd.Data {
		pwhere := pageWhere{where, dp.Index}
		isNull := dp.NonNull == 0
		if x.NullPages[i] != isNull {
			c.addf(pwhere, "column-index-null-pages", "null_pages[%d] is %v, the page has %d non-null values out of %d", i, x.NullPages[i], dp.NonNull, dp.Info.NumValues)
		}
		if x.HasNullCounts {
			if nulls := int64(dp.Info.NumValues) - int64(dp.NonNull); x.NullCounts[i] != nulls {
				c.addf(pwhere, "column-index-null-counts", "null_counts[%d] is %d, the page has %d nulls", i, x.NullCounts[i], nulls)
			}
		}
		if x.NullPages[i] {
			if len(x.MinValues[i]) != 0 || len(x.MaxValues[i]) != 0 {
				c.addf(pwhere, "column-index-null-page-minmax", "null page %d has min %x / max %x, both must be empty", i, clip(x.MinValues[i]), clip(x.MaxValues[i]))
			}
			continue
		}
		if isNull || k == ordNone {
			continue
		}
		lo, hi, ok := minMax(leaf, [][][]byte{dp.Values})
		c.checkBound(pwhere, "column-index", leaf, x.MinValues[i], lo, ok, true, nil)
		c.checkBound(pwhere, "column-index", leaf, x.MaxValues[i], hi, ok, false, nil)
		mins = append(mins, x.MinValues[i])
		maxs = append(maxs, x.MaxValues[i])
	}
	if k != ordNone && (x.BoundaryOrder == 1 || x.BoundaryOrder == 2) {
		w := leaf.valueWidth()
		for i := 1; i < len(mins); i++ {
			if w >= 0 && (len(mins[i]) != w || len(mins[i-1]) != w || len(maxs[i]) != w || len(maxs[i-1]) != w) {
				continue
			}
			a, b := CompareValues(leaf, mins[i-1], mins[i]), CompareValues(leaf, maxs[i-1], maxs[i])
			if x.BoundaryOrder == 1 && (a > 0 || b > 0) {
				c.addf(where, "column-index-boundary-order", "boundary_order is ASCENDING but non-null pages %d and %d have min %x,%x max %x,%x", i-1, i, clip(mins[i-1]), clip(mins[i]), clip(maxs[i-1]), clip(maxs[i]))
				break
			}
			if x.BoundaryOrder == 2 && (a < 0 || b < 0) {
				c.addf(where, "column-index-boundary-order", "boundary_order is DESCENDING but non-null pages %d and %d have min %x,%x max %x,%x", i-1, i, clip(mins[i-1]), clip(mins[i]), clip(maxs[i-1]), clip(maxs[i]))
				break
			}
		}
	} else if x.BoundaryOrder < 0 || x.BoundaryOrder > 2 {
		c.addf(where, "column-index-boundary-order", "boundary_order has unknown value %d", x.BoundaryOrder)
	}
	if x.HasRepetitionLevelHistograms {
		var want []int64
		for _, dp := range cd.Data {
			want = append(want, histogram(dp.Rep, leaf.MaxRep, int(dp.Info.NumValues))...)
		}
		if !equalInt64s(want, x.RepetitionLevelHistograms) {
			c.addf(where, "column-index-rep-histogram", "repetition_level_histograms is %v, the levels give %v", x.RepetitionLevelHistograms, want)
		}
	}
	if x.HasDefinitionLevelHistograms {
		var want []int64
		for _, dp := range cd.Data {
			want = append(want, histogram(dp.Def, leaf.MaxDef, int(dp.Info.NumValues))...)
		}
		if !equalInt64s(want, x.DefinitionLevelHistograms) {
			c.addf(where, "column-index-def-histogram", "definition_level_histograms is %v, the levels give %v", x.DefinitionLevelHistograms, want)
		}
	}
}

// ---------------------------------------------------------------------------
// bloom filter

// checkBloom verifies the bloom filter; values is nil when the chunk could not
// be decoded completely (the probes are skipped then).
func (c *checker) checkBloom(where string, gi, ci int, m *ColumnMetaData, values [][][]byte) {
	if m.BloomFilterOffset == nil {
		return
	}
	b, err := c.f.ReadBloomFilter(gi, ci)
	if err != nil {
		c.add(where, codeOf(err, "bloom-header"), msgOf(err))
	}
	if b == nil {
		return
	}
	if !b.AlgorithmOK || !b.HashOK {
		c.addf(where, "bloom-algorithm", "bloom filter header: algorithm BLOCK set: %v, hash XXHASH set: %v", b.AlgorithmOK, b.HashOK)
	}
	if b.NumBytes <= 0 || !b.Compressed && b.NumBytes%32 != 0 {
		c.addf(where, "bloom-num-bytes", "bloom filter numBytes is %d, it must be a positive multiple of 32", b.NumBytes)
	}
	if m.BloomFilterLength != nil && !b.Compressed {
		if total := int64(b.HeaderLen) + int64(b.NumBytes); int64(*m.BloomFilterLength) != total {
			c.addf(where, "bloom-length", "bloom_filter_length is %d, header (%d) + bitset (%d) take %d bytes", *m.BloomFilterLength, b.HeaderLen, b.NumBytes, total)
		}
	}
	if b.Compressed || b.Bitset == nil || values == nil || !b.AlgorithmOK || !b.HashOK || len(b.Bitset) < 32 {
		return
	}
	misses := 0
	var first []byte
	for _, vals := range values {
		for _, v := range vals {
			if !b.Check(v) {
				if misses == 0 {
					first = v
				}
				misses++
			}
		}
	}
	if misses > 0 {
		c.addf(where, "bloom-miss", "%d non-null values of the chunk are not in the bloom filter, first: %x", misses, clip(first))
	}
}
