package pqref

import (
	"bytes"
	"compress/gzip"
	"errors"
	"fmt"
	"io"
	"sync"

	"github.com/andybalholm/brotli"
	"github.com/klauspost/compress/zstd"
)

// MaxPageSize bounds the uncompressed size of a single page (and of any
// decompression output) accepted by this package. It protects against
// absurd allocations driven by corrupt headers.
var MaxPageSize = 1 << 27

// SizeError reports that a block decompressed to a size different from the
// size announced by the metadata.
type SizeError struct {
	Want    int
	Got     int
	AtLeast bool // Got is a lower bound (decoding stopped at the limit)
}

func (e *SizeError) Error() string {
	if e.AtLeast {
		return fmt.Sprintf("pqref: decompressed size is more than %d bytes, expected %d", e.Want, e.Want)
	}
	return fmt.Sprintf("pqref: decompressed size is %d bytes, expected %d", e.Got, e.Want)
}

var errLZ4TooLarge = errors.New("pqref: lz4: output exceeds the maximum size")

// Decompress decodes src with the given parquet codec id. When
// uncompressedSize >= 0 the output must have exactly that size (a *SizeError
// is returned otherwise); when negative any size up to MaxPageSize is
// accepted.
func Decompress(codec int32, src []byte, uncompressedSize int) (out []byte, err error) {
	defer func() {
		if p := recover(); p != nil {
			out, err = nil, fmt.Errorf("pqref: decompress panic: %v", p)
		}
	}()
	if uncompressedSize > MaxPageSize {
		return nil, fmt.Errorf("pqref: uncompressed size %d exceeds MaxPageSize", uncompressedSize)
	}
	limit := uncompressedSize
	if limit < 0 {
		limit = MaxPageSize
	}
	out, err = decompressLimit(codec, src, limit)
	if err != nil {
		return nil, err
	}
	if uncompressedSize >= 0 && len(out) != uncompressedSize {
		return nil, &SizeError{Want: uncompressedSize, Got: len(out)}
	}
	return out, nil
}

// decompressLimit decodes src; producing more than limit bytes is a
// *SizeError with AtLeast set. Producing fewer is not an error here.
func decompressLimit(codec int32, src []byte, limit int) ([]byte, error) {
	switch codec {
	case CodecUncompressed:
		if len(src) > limit {
			return nil, &SizeError{Want: limit, Got: len(src)}
		}
		return src, nil
	case CodecSnappy:
		n, _, err := snappyHeader(src)
		if err != nil {
			return nil, err
		}
		if n > uint64(limit) {
			return nil, &SizeError{Want: limit, Got: int(min(n, uint64(1<<62)))}
		}
		return SnappyDecode(src)
	case CodecGzip:
		zr, _ := gzipPool.Get().(*gzip.Reader)
		var err error
		if zr == nil {
			zr, err = gzip.NewReader(bytes.NewReader(src))
		} else {
			err = zr.Reset(bytes.NewReader(src))
		}
		if err != nil {
			return nil, fmt.Errorf("pqref: gzip: %w", err)
		}
		out, err := readLimited(zr, limit, len(src), "gzip")
		gzipPool.Put(zr)
		return out, err
	case CodecBrotli:
		br, _ := brotliPool.Get().(*brotli.Reader)
		if br == nil {
			br = brotli.NewReader(bytes.NewReader(src))
		} else if err := br.Reset(bytes.NewReader(src)); err != nil {
			return nil, fmt.Errorf("pqref: brotli: %w", err)
		}
		out, err := readLimited(br, limit, len(src), "brotli")
		brotliPool.Put(br)
		return out, err
	case CodecZstd:
		dec, err := zstdDecoder()
		if err != nil {
			return nil, err
		}
		hint := limit
		if hint > 64*len(src)+1024 {
			hint = 64*len(src) + 1024
		}
		out, err := dec.DecodeAll(src, make([]byte, 0, hint))
		if err != nil {
			return nil, fmt.Errorf("pqref: zstd: %w", err)
		}
		if len(out) > limit {
			return nil, &SizeError{Want: limit, Got: len(out)}
		}
		return out, nil
	case CodecLZ4Raw:
		out, err := LZ4BlockDecode(src, limit)
		if err == errLZ4TooLarge {
			return nil, &SizeError{Want: limit, Got: limit + 1, AtLeast: true}
		}
		return out, err
	case CodecLZ4:
		return nil, errors.New("pqref: unsupported codec LZ4 (hadoop framing)")
	case CodecLZO:
		return nil, errors.New("pqref: unsupported codec LZO")
	}
	return nil, fmt.Errorf("pqref: unsupported codec %d", codec)
}

func readLimited(r io.Reader, limit, srcLen int, what string) ([]byte, error) {
	hint := limit
	if hint > 64*srcLen+1024 {
		hint = 64*srcLen + 1024
	}
	buf := bytes.NewBuffer(make([]byte, 0, hint+1))
	n, err := io.Copy(buf, io.LimitReader(r, int64(limit)+1))
	if err != nil {
		return nil, fmt.Errorf("pqref: %s: %w", what, err)
	}
	if n > int64(limit) {
		return nil, &SizeError{Want: limit, Got: limit + 1, AtLeast: true}
	}
	return buf.Bytes(), nil
}

var gzipPool, brotliPool sync.Pool

var (
	zstdOnce sync.Once
	zstdDec  *zstd.Decoder
	zstdErr  error
)

func zstdDecoder() (*zstd.Decoder, error) {
	zstdOnce.Do(func() {
		zstdDec, zstdErr = zstd.NewReader(nil, zstd.WithDecoderMaxMemory(uint64(MaxPageSize)))
	})
	return zstdDec, zstdErr
}

// ---------------------------------------------------------------------------
// Snappy raw block format (format_description.txt)

func snappyHeader(src []byte) (n uint64, hdr int, err error) {
	var shift uint
	for i := 0; i < len(src) && i < 5; i++ {
		c := src[i]
		n |= uint64(c&0x7f) << shift
		if c&0x80 == 0 {
			if n > 0xffffffff {
				return 0, 0, errors.New("pqref: snappy: length overflows 32 bits")
			}
			return n, i + 1, nil
		}
		shift += 7
	}
	return 0, 0, errors.New("pqref: snappy: bad length preamble")
}

// SnappyDecode decodes a raw snappy block.
func SnappyDecode(src []byte) (out []byte, err error) {
	defer func() {
		if p := recover(); p != nil {
			out, err = nil, fmt.Errorf("pqref: snappy panic: %v", p)
		}
	}()
	want, pos, err := snappyHeader(src)
	if err != nil {
		return nil, err
	}
	if want > uint64(MaxPageSize) {
		return nil, fmt.Errorf("pqref: snappy: declared length %d exceeds MaxPageSize", want)
	}
	// No element expands by more than 64/3, so the output cannot be larger
	// than 22x the input: do not trust the preamble for the allocation.
	capHint := int(want)
	if bound := 22*len(src) + 64; capHint > bound {
		capHint = bound
	}
	out = make([]byte, 0, capHint)
	for pos < len(src) {
		tag := src[pos]
		pos++
		var length, offset int
		switch tag & 3 {
		case 0:
			length = int(tag >> 2)
			if length >= 60 {
				nb := length - 59
				if pos+nb > len(src) {
					return nil, errors.New("pqref: snappy: truncated literal length")
				}
				length = 0
				for i := 0; i < nb; i++ {
					length |= int(src[pos+i]) << (8 * uint(i))
				}
				pos += nb
			}
			length++
			if length <= 0 || length > len(src)-pos {
				return nil, errors.New("pqref: snappy: literal exceeds input")
			}
			if uint64(len(out)+length) > want {
				return nil, errors.New("pqref: snappy: output exceeds declared length")
			}
			out = append(out, src[pos:pos+length]...)
			pos += length
			continue
		case 1:
			if pos+1 > len(src) {
				return nil, errors.New("pqref: snappy: truncated copy")
			}
			length = 4 + int(tag>>2)&7
			offset = int(tag>>5)<<8 | int(src[pos])
			pos++
		case 2:
			if pos+2 > len(src) {
				return nil, errors.New("pqref: snappy: truncated copy")
			}
			length = 1 + int(tag>>2)
			offset = int(src[pos]) | int(src[pos+1])<<8
			pos += 2
		case 3:
			if pos+4 > len(src) {
				return nil, errors.New("pqref: snappy: truncated copy")
			}
			length = 1 + int(tag>>2)
			offset = int(src[pos]) | int(src[pos+1])<<8 | int(src[pos+2])<<16 | int(src[pos+3])<<24
			pos += 4
		}
		if offset <= 0 || offset > len(out) {
			return nil, fmt.Errorf("pqref: snappy: copy offset %d out of range (have %d bytes)", offset, len(out))
		}
		if uint64(len(out)+length) > want {
			return nil, errors.New("pqref: snappy: output exceeds declared length")
		}
		out = appendOverlap(out, offset, length)
	}
	if uint64(len(out)) != want {
		return nil, fmt.Errorf("pqref: snappy: decoded %d bytes, preamble says %d", len(out), want)
	}
	return out, nil
}

// appendOverlap appends length bytes copied from offset bytes before the end
// of out; the source may overlap the destination (run-length semantics).
func appendOverlap(out []byte, offset, length int) []byte {
	start := len(out) - offset
	if offset >= length {
		return append(out, out[start:start+length]...)
	}
	for i := 0; i < length; i++ {
		out = append(out, out[start+i])
	}
	return out
}

// ---------------------------------------------------------------------------
// LZ4 block format (lz4_Block_format.md)

// LZ4BlockDecode decodes a raw LZ4 block producing at most maxSize bytes.
func LZ4BlockDecode(src []byte, maxSize int) (out []byte, err error) {
	defer func() {
		if p := recover(); p != nil {
			out, err = nil, fmt.Errorf("pqref: lz4 panic: %v", p)
		}
	}()
	if maxSize < 0 {
		maxSize = MaxPageSize
	}
	capHint := maxSize
	if bound := 255*len(src) + 64; capHint > bound {
		capHint = bound
	}
	out = make([]byte, 0, capHint)
	pos := 0
	for pos < len(src) {
		token := src[pos]
		pos++
		lit := int(token >> 4)
		if lit == 15 {
			for {
				if pos >= len(src) {
					return nil, errors.New("pqref: lz4: truncated literal length")
				}
				c := src[pos]
				pos++
				lit += int(c)
				if lit > MaxPageSize {
					return nil, errLZ4TooLarge
				}
				if c != 255 {
					break
				}
			}
		}
		if lit > len(src)-pos {
			return nil, errors.New("pqref: lz4: literals exceed input")
		}
		if len(out)+lit > maxSize {
			return nil, errLZ4TooLarge
		}
		out = append(out, src[pos:pos+lit]...)
		pos += lit
		if pos == len(src) {
			// last sequence: literals only
			return out, nil
		}
		if pos+2 > len(src) {
			return nil, errors.New("pqref: lz4: truncated match offset")
		}
		offset := int(src[pos]) | int(src[pos+1])<<8
		pos += 2
		if offset == 0 || offset > len(out) {
			return nil, fmt.Errorf("pqref: lz4: match offset %d out of range (have %d bytes)", offset, len(out))
		}
		ml := int(token & 15)
		if ml == 15 {
			for {
				if pos >= len(src) {
					return nil, errors.New("pqref: lz4: truncated match length")
				}
				c := src[pos]
				pos++
				ml += int(c)
				if ml > MaxPageSize {
					return nil, errLZ4TooLarge
				}
				if c != 255 {
					break
				}
			}
		}
		ml += 4
		if len(out)+ml > maxSize {
			return nil, errLZ4TooLarge
		}
		out = appendOverlap(out, offset, ml)
	}
	// The input ended right after a match: the format requires the block to
	// end with a literal-only sequence. An empty input decodes to nothing.
	if len(src) == 0 {
		return out, nil
	}
	return nil, errors.New("pqref: lz4: block does not end with a literals-only sequence")
}
