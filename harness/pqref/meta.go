// Package pqref is an independent Apache Parquet decoder and well-formedness
// checker written from the format specification only (parquet.thrift,
// Encodings.md, Compression.md, PageIndex.md, BloomFilter.md). It shares no
// code with github.com/parquet-go/parquet-go and is meant to be used as a
// reference oracle for it.
//
// All byte slices returned by this package may alias the input file or
// internal decode buffers and must be treated as read-only.
package pqref

import (
	"encoding/binary"
	"errors"
	"fmt"
)

// Physical types (parquet.thrift Type).
const (
	TypeBoolean           = 0
	TypeInt32             = 1
	TypeInt64             = 2
	TypeInt96             = 3
	TypeFloat             = 4
	TypeDouble            = 5
	TypeByteArray         = 6
	TypeFixedLenByteArray = 7
)

// Repetition types.
const (
	RepRequired = 0
	RepOptional = 1
	RepRepeated = 2
)

// Encodings.
const (
	EncPlain                = 0
	EncPlainDictionary      = 2
	EncRLE                  = 3
	EncBitPacked            = 4
	EncDeltaBinaryPacked    = 5
	EncDeltaLengthByteArray = 6
	EncDeltaByteArray       = 7
	EncRLEDictionary        = 8
	EncByteStreamSplit      = 9
)

// Compression codecs.
const (
	CodecUncompressed = 0
	CodecSnappy       = 1
	CodecGzip         = 2
	CodecLZO          = 3
	CodecBrotli       = 4
	CodecLZ4          = 5
	CodecZstd         = 6
	CodecLZ4Raw       = 7
)

// Page types.
const (
	PageTypeData       = 0
	PageTypeIndex      = 1
	PageTypeDictionary = 2
	PageTypeDataV2     = 3
)

// Converted types used by this package.
const (
	convDecimal  = 5
	convUint8    = 11
	convUint64   = 14
	convInterval = 21
)

// ErrEncrypted is returned by Parse for files with an encrypted footer
// ("PARE" magic).
var ErrEncrypted = errors.New("pqref: encrypted footer (PARE) is not supported")

// Error is an error carrying the stable issue code that Check reports for it.
type Error struct {
	Code string
	Msg  string
}

func (e *Error) Error() string { return "pqref: " + e.Code + ": " + e.Msg }

func errf(code, format string, args ...any) *Error {
	return &Error{Code: code, Msg: fmt.Sprintf(format, args...)}
}

// codeOf extracts the issue code of an error (def if it carries none).
func codeOf(err error, def string) string {
	var e *Error
	if errors.As(err, &e) {
		return e.Code
	}
	return def
}

func msgOf(err error) string {
	var e *Error
	if errors.As(err, &e) {
		return e.Msg
	}
	return err.Error()
}

type File struct {
	Data         []byte
	Version      int32
	Schema       []SchemaElement // flattened, as in the footer
	NumRows      int64
	RowGroups    []RowGroup
	KeyValue     []KV // in file order
	CreatedBy    string
	Leaves       []Leaf // derived: leaf columns in schema order
	FooterOffset int64  // offset of the thrift footer
	FooterLen    int64

	// HasColumnOrders reports whether the footer carries column_orders, in
	// which case ColumnOrders[i] is true when leaf i uses TypeDefinedOrder.
	HasColumnOrders bool
	ColumnOrders    []bool
}

type SchemaElement struct {
	Name          string
	Type          *int32
	TypeLength    *int32
	Repetition    *int32
	NumChildren   *int32
	ConvertedType *int32
	Scale         *int32
	Precision     *int32
	FieldID       *int32
	LogicalType   *LogicalType
}

type LogicalType struct {
	// "STRING","MAP","LIST","ENUM","DECIMAL","DATE","TIME","TIMESTAMP",
	// "INTEGER","UNKNOWN","JSON","BSON","UUID","FLOAT16","VARIANT",
	// "GEOMETRY","GEOGRAPHY"; "" for a union member this package does not know.
	Kind          string
	BitWidth      int8
	Signed        bool
	Unit          string // "MILLIS","MICROS","NANOS"
	AdjustedToUTC bool
	Scale         int32
	Precision     int32
}

type Leaf struct {
	Path       []string
	Type       int32 // physical
	TypeLength int32
	MaxRep     int
	MaxDef     int
	Element    *SchemaElement
	Unsigned   bool // order is unsigned: UINT_* logical/converted types
}

type RowGroup struct {
	Columns             []ColumnChunk
	TotalByteSize       int64
	NumRows             int64
	SortingColumns      []SortingColumn
	FileOffset          *int64
	TotalCompressedSize *int64
	Ordinal             *int16
}

type SortingColumn struct {
	ColumnIdx  int32
	Descending bool
	NullsFirst bool
}

type ColumnChunk struct {
	FilePath                   *string
	FileOffset                 int64
	Meta                       *ColumnMetaData // nil if absent (e.g. encrypted)
	OffsetIndexOffset          *int64
	OffsetIndexLength          *int32
	ColumnIndexOffset          *int64
	ColumnIndexLength          *int32
	HasCryptoMetadata          bool
	HasEncryptedColumnMetadata bool
}

type ColumnMetaData struct {
	Type                  int32
	Encodings             []int32
	PathInSchema          []string
	Codec                 int32
	NumValues             int64
	TotalUncompressedSize int64
	TotalCompressedSize   int64
	KeyValue              []KV
	DataPageOffset        int64
	IndexPageOffset       *int64
	DictionaryPageOffset  *int64
	Statistics            *Statistics
	EncodingStats         []PageEncodingStats
	BloomFilterOffset     *int64
	BloomFilterLength     *int32
	SizeStatistics        *SizeStatistics
}

type Statistics struct {
	Max, Min        []byte
	NullCount       *int64
	DistinctCount   *int64
	MaxValue        []byte
	MinValue        []byte
	HasMax, HasMin  bool
	HasMaxValue     bool
	HasMinValue     bool
	IsMaxValueExact *bool
	IsMinValueExact *bool
}

// SizeStatistics. A histogram written as an empty list is equivalent to an
// omitted one (several thrift writers always emit optional lists): the Has*
// flags are set only for non-empty lists.
type SizeStatistics struct {
	UnencodedByteArrayDataBytes *int64
	RepetitionLevelHistogram    []int64
	DefinitionLevelHistogram    []int64
	HasRepetitionLevelHistogram bool
	HasDefinitionLevelHistogram bool
}

type PageEncodingStats struct{ PageType, Encoding, Count int32 }

type KV struct {
	Key   string
	Value *string
}

// Parse decodes the footer of a plaintext parquet file.
func Parse(data []byte) (f *File, err error) {
	defer func() {
		if p := recover(); p != nil {
			f, err = nil, errf("internal-panic", "Parse: %v", p)
		}
	}()
	return parse(data)
}

func parse(data []byte) (*File, error) {
	if len(data) < 4 || string(data[:4]) != "PAR1" {
		if len(data) >= 4 && string(data[:4]) == "PARE" {
			return nil, ErrEncrypted
		}
		return nil, errf("magic", "file does not start with PAR1")
	}
	if len(data) < 12 {
		return nil, errf("magic", "file of %d bytes is too short to hold header magic, footer length and footer magic", len(data))
	}
	tail := string(data[len(data)-4:])
	if tail == "PARE" {
		return nil, ErrEncrypted
	}
	if tail != "PAR1" {
		return nil, errf("magic", "file does not end with PAR1")
	}
	flen := int64(binary.LittleEndian.Uint32(data[len(data)-8:]))
	foff := int64(len(data)) - 8 - flen
	if flen == 0 {
		return nil, errf("footer-length", "footer length is 0")
	}
	if foff < 4 {
		return nil, errf("footer-length", "footer length %d does not fit in a file of %d bytes", flen, len(data))
	}
	r := &tr{b: data[foff : foff+flen]}
	f := &File{Data: data, FooterOffset: foff, FooterLen: flen}
	orders := readFileMeta(r, f)
	if r.err != nil {
		return nil, errf("footer-thrift", "%v", r.err)
	}
	if r.pos != len(r.b) {
		return nil, errf("footer-thrift", "footer thrift struct ends at byte %d of %d", r.pos, len(r.b))
	}
	leaves, err := buildLeaves(f.Schema)
	if err != nil {
		return nil, err
	}
	f.Leaves = leaves
	if orders != nil {
		f.HasColumnOrders = true
		f.ColumnOrders = orders
	}
	return f, nil
}

// LeafIndex returns the index of the leaf column with the given path, or -1.
func (f *File) LeafIndex(path ...string) int {
	for i := range f.Leaves {
		p := f.Leaves[i].Path
		if len(p) != len(path) {
			continue
		}
		eq := true
		for j := range p {
			if p[j] != path[j] {
				eq = false
				break
			}
		}
		if eq {
			return i
		}
	}
	return -1
}

func buildLeaves(schema []SchemaElement) ([]Leaf, error) {
	if len(schema) == 0 {
		return nil, errf("schema-invalid", "empty schema")
	}
	root := &schema[0]
	if root.NumChildren == nil {
		if len(schema) == 1 && root.Type == nil {
			return nil, nil
		}
		return nil, errf("schema-invalid", "root schema element has no num_children")
	}
	var leaves []Leaf
	idx := 1
	var walk func(path []string, rep, def, depth int) error
	walk = func(path []string, rep, def, depth int) error {
		if depth > 256 {
			return errf("schema-invalid", "schema nesting too deep")
		}
		if idx >= len(schema) {
			return errf("schema-invalid", "num_children refer to more elements than the %d present", len(schema))
		}
		e := &schema[idx]
		idx++
		if e.Repetition == nil {
			return errf("schema-invalid", "schema element %q has no repetition_type", e.Name)
		}
		switch *e.Repetition {
		case RepRequired:
		case RepOptional:
			def++
		case RepRepeated:
			def++
			rep++
		default:
			return errf("schema-invalid", "schema element %q has repetition_type %d", e.Name, *e.Repetition)
		}
		path = append(path, e.Name)
		nc := int32(0)
		if e.NumChildren != nil {
			nc = *e.NumChildren
		}
		if nc < 0 {
			return errf("schema-invalid", "schema element %q has num_children %d", e.Name, nc)
		}
		if nc == 0 {
			if e.Type == nil {
				return errf("schema-invalid", "schema element %q has neither type nor children", e.Name)
			}
			if *e.Type < 0 || *e.Type > 7 {
				return errf("schema-invalid", "schema element %q has unknown type %d", e.Name, *e.Type)
			}
			l := Leaf{Path: append([]string(nil), path...), Type: *e.Type, MaxRep: rep, MaxDef: def, Element: e}
			if e.TypeLength != nil {
				l.TypeLength = *e.TypeLength
			}
			if l.Type == TypeFixedLenByteArray && (e.TypeLength == nil || l.TypeLength < 0) {
				return errf("schema-invalid", "FIXED_LEN_BYTE_ARRAY element %q has no valid type_length", e.Name)
			}
			if lt := e.LogicalType; lt != nil && lt.Kind == "INTEGER" {
				l.Unsigned = !lt.Signed
			} else if lt == nil && e.ConvertedType != nil && *e.ConvertedType >= convUint8 && *e.ConvertedType <= convUint64 {
				l.Unsigned = true
			}
			leaves = append(leaves, l)
			return nil
		}
		if e.Type != nil {
			return errf("schema-invalid", "schema element %q has both type and children", e.Name)
		}
		for i := int32(0); i < nc; i++ {
			if err := walk(path, rep, def, depth+1); err != nil {
				return err
			}
		}
		return nil
	}
	nc := *root.NumChildren
	if nc < 0 {
		return nil, errf("schema-invalid", "root num_children %d", nc)
	}
	for i := int32(0); i < nc; i++ {
		if err := walk(make([]string, 0, 8), 0, 0, 0); err != nil {
			return nil, err
		}
	}
	if idx != len(schema) {
		return nil, errf("schema-invalid", "schema has %d elements but the tree uses %d", len(schema), idx)
	}
	return leaves, nil
}

// ---------------------------------------------------------------------------
// thrift struct readers

func readFileMeta(r *tr, f *File) (orders []bool) {
	var seen uint64
	r.fields(0, func(id int16, t byte) {
		mark(&seen, id)
		switch id {
		case 1:
			f.Version = r.i32(t)
		case 2:
			n := r.listOf(t, tStruct, "schema")
			f.Schema = make([]SchemaElement, 0, n)
			for i := 0; i < n && r.err == nil; i++ {
				f.Schema = append(f.Schema, readSchemaElement(r))
			}
		case 3:
			f.NumRows = r.i64(t)
		case 4:
			n := r.listOf(t, tStruct, "row_groups")
			f.RowGroups = make([]RowGroup, 0, n)
			for i := 0; i < n && r.err == nil; i++ {
				f.RowGroups = append(f.RowGroups, readRowGroup(r))
			}
		case 5:
			f.KeyValue = readKVList(r, t)
		case 6:
			f.CreatedBy = r.str(t)
		case 7:
			n := r.listOf(t, tStruct, "column_orders")
			orders = make([]bool, 0, n)
			for i := 0; i < n && r.err == nil; i++ {
				typeDefined := false
				r.fields(1, func(id int16, t byte) {
					if id == 1 {
						typeDefined = true
					}
					r.skip(t, 2)
				})
				orders = append(orders, typeDefined)
			}
		default:
			r.skip(t, 1)
		}
	})
	r.required("FileMetaData", seen, 1, 2, 3, 4)
	return orders
}

func readKVList(r *tr, t byte) []KV {
	n := r.listOf(t, tStruct, "key_value_metadata")
	kvs := make([]KV, 0, n)
	for i := 0; i < n && r.err == nil; i++ {
		var kv KV
		var seen uint64
		r.fields(2, func(id int16, t byte) {
			mark(&seen, id)
			switch id {
			case 1:
				kv.Key = r.str(t)
			case 2:
				s := r.str(t)
				kv.Value = &s
			default:
				r.skip(t, 3)
			}
		})
		r.required("KeyValue", seen, 1)
		kvs = append(kvs, kv)
	}
	return kvs
}

func p32(v int32) *int32 { return &v }
func p64(v int64) *int64 { return &v }

func readSchemaElement(r *tr) SchemaElement {
	var e SchemaElement
	var seen uint64
	r.fields(1, func(id int16, t byte) {
		mark(&seen, id)
		switch id {
		case 1:
			e.Type = p32(r.i32(t))
		case 2:
			e.TypeLength = p32(r.i32(t))
		case 3:
			e.Repetition = p32(r.i32(t))
		case 4:
			e.Name = r.str(t)
		case 5:
			e.NumChildren = p32(r.i32(t))
		case 6:
			e.ConvertedType = p32(r.i32(t))
		case 7:
			e.Scale = p32(r.i32(t))
		case 8:
			e.Precision = p32(r.i32(t))
		case 9:
			e.FieldID = p32(r.i32(t))
		case 10:
			e.LogicalType = readLogicalType(r, t)
		default:
			r.skip(t, 2)
		}
	})
	r.required("SchemaElement", seen, 4)
	return e
}

func readTimeUnit(r *tr, t byte) string {
	unit := ""
	r.structOf(t, 4, func(id int16, t byte) {
		switch id {
		case 1:
			unit = "MILLIS"
		case 2:
			unit = "MICROS"
		case 3:
			unit = "NANOS"
		}
		r.skip(t, 5)
	})
	return unit
}

func readLogicalType(r *tr, t byte) *LogicalType {
	lt := &LogicalType{}
	members := 0
	r.structOf(t, 2, func(id int16, t byte) {
		members++
		switch id {
		case 1:
			lt.Kind = "STRING"
		case 2:
			lt.Kind = "MAP"
		case 3:
			lt.Kind = "LIST"
		case 4:
			lt.Kind = "ENUM"
		case 5:
			lt.Kind = "DECIMAL"
			var seen uint64
			r.structOf(t, 3, func(id int16, t byte) {
				mark(&seen, id)
				switch id {
				case 1:
					lt.Scale = r.i32(t)
				case 2:
					lt.Precision = r.i32(t)
				default:
					r.skip(t, 4)
				}
			})
			r.required("DecimalType", seen, 1, 2)
			return
		case 6:
			lt.Kind = "DATE"
		case 7, 8:
			if id == 7 {
				lt.Kind = "TIME"
			} else {
				lt.Kind = "TIMESTAMP"
			}
			var seen uint64
			r.structOf(t, 3, func(id int16, t byte) {
				mark(&seen, id)
				switch id {
				case 1:
					lt.AdjustedToUTC = r.boolean(t)
				case 2:
					lt.Unit = readTimeUnit(r, t)
				default:
					r.skip(t, 4)
				}
			})
			r.required(lt.Kind+"Type", seen, 1, 2)
			return
		case 10:
			lt.Kind = "INTEGER"
			var seen uint64
			r.structOf(t, 3, func(id int16, t byte) {
				mark(&seen, id)
				switch id {
				case 1:
					lt.BitWidth = r.i8(t)
				case 2:
					lt.Signed = r.boolean(t)
				default:
					r.skip(t, 4)
				}
			})
			r.required("IntType", seen, 1, 2)
			return
		case 11:
			lt.Kind = "UNKNOWN"
		case 12:
			lt.Kind = "JSON"
		case 13:
			lt.Kind = "BSON"
		case 14:
			lt.Kind = "UUID"
		case 15:
			lt.Kind = "FLOAT16"
		case 16:
			lt.Kind = "VARIANT"
		case 17:
			lt.Kind = "GEOMETRY"
		case 18:
			lt.Kind = "GEOGRAPHY"
		}
		r.skip(t, 3)
	})
	if r.err == nil && members > 1 {
		r.fail("LogicalType union has %d members set", members)
	}
	if members == 0 {
		return nil
	}
	return lt
}

func readRowGroup(r *tr) RowGroup {
	var g RowGroup
	var seen uint64
	r.fields(1, func(id int16, t byte) {
		mark(&seen, id)
		switch id {
		case 1:
			n := r.listOf(t, tStruct, "columns")
			g.Columns = make([]ColumnChunk, 0, n)
			for i := 0; i < n && r.err == nil; i++ {
				g.Columns = append(g.Columns, readColumnChunk(r))
			}
		case 2:
			g.TotalByteSize = r.i64(t)
		case 3:
			g.NumRows = r.i64(t)
		case 4:
			n := r.listOf(t, tStruct, "sorting_columns")
			g.SortingColumns = make([]SortingColumn, 0, n)
			for i := 0; i < n && r.err == nil; i++ {
				var s SortingColumn
				var seen uint64
				r.fields(2, func(id int16, t byte) {
					mark(&seen, id)
					switch id {
					case 1:
						s.ColumnIdx = r.i32(t)
					case 2:
						s.Descending = r.boolean(t)
					case 3:
						s.NullsFirst = r.boolean(t)
					default:
						r.skip(t, 3)
					}
				})
				r.required("SortingColumn", seen, 1, 2, 3)
				g.SortingColumns = append(g.SortingColumns, s)
			}
		case 5:
			g.FileOffset = p64(r.i64(t))
		case 6:
			g.TotalCompressedSize = p64(r.i64(t))
		case 7:
			v := r.i16(t)
			g.Ordinal = &v
		default:
			r.skip(t, 2)
		}
	})
	r.required("RowGroup", seen, 1, 2, 3)
	return g
}

func readColumnChunk(r *tr) ColumnChunk {
	var c ColumnChunk
	var seen uint64
	r.fields(2, func(id int16, t byte) {
		mark(&seen, id)
		switch id {
		case 1:
			s := r.str(t)
			c.FilePath = &s
		case 2:
			c.FileOffset = r.i64(t)
		case 3:
			c.Meta = readColumnMetaData(r, t)
		case 4:
			c.OffsetIndexOffset = p64(r.i64(t))
		case 5:
			c.OffsetIndexLength = p32(r.i32(t))
		case 6:
			c.ColumnIndexOffset = p64(r.i64(t))
		case 7:
			c.ColumnIndexLength = p32(r.i32(t))
		case 8:
			c.HasCryptoMetadata = true
			r.skip(t, 3)
		case 9:
			c.HasEncryptedColumnMetadata = true
			r.skip(t, 3)
		default:
			r.skip(t, 3)
		}
	})
	r.required("ColumnChunk", seen, 2)
	return c
}

func readColumnMetaData(r *tr, t byte) *ColumnMetaData {
	m := &ColumnMetaData{}
	var seen uint64
	r.structOf(t, 3, func(id int16, t byte) {
		mark(&seen, id)
		switch id {
		case 1:
			m.Type = r.i32(t)
		case 2:
			n := r.listOf(t, tI32, "encodings")
			m.Encodings = make([]int32, 0, n)
			for i := 0; i < n && r.err == nil; i++ {
				m.Encodings = append(m.Encodings, r.i32(tI32))
			}
		case 3:
			n := r.listOf(t, tBinary, "path_in_schema")
			m.PathInSchema = make([]string, 0, n)
			for i := 0; i < n && r.err == nil; i++ {
				m.PathInSchema = append(m.PathInSchema, r.str(tBinary))
			}
		case 4:
			m.Codec = r.i32(t)
		case 5:
			m.NumValues = r.i64(t)
		case 6:
			m.TotalUncompressedSize = r.i64(t)
		case 7:
			m.TotalCompressedSize = r.i64(t)
		case 8:
			m.KeyValue = readKVList(r, t)
		case 9:
			m.DataPageOffset = r.i64(t)
		case 10:
			m.IndexPageOffset = p64(r.i64(t))
		case 11:
			m.DictionaryPageOffset = p64(r.i64(t))
		case 12:
			m.Statistics = readStatistics(r, t, 4)
		case 13:
			n := r.listOf(t, tStruct, "encoding_stats")
			m.EncodingStats = make([]PageEncodingStats, 0, n)
			for i := 0; i < n && r.err == nil; i++ {
				var s PageEncodingStats
				var seen uint64
				r.fields(4, func(id int16, t byte) {
					mark(&seen, id)
					switch id {
					case 1:
						s.PageType = r.i32(t)
					case 2:
						s.Encoding = r.i32(t)
					case 3:
						s.Count = r.i32(t)
					default:
						r.skip(t, 5)
					}
				})
				r.required("PageEncodingStats", seen, 1, 2, 3)
				m.EncodingStats = append(m.EncodingStats, s)
			}
		case 14:
			m.BloomFilterOffset = p64(r.i64(t))
		case 15:
			m.BloomFilterLength = p32(r.i32(t))
		case 16:
			m.SizeStatistics = readSizeStatistics(r, t, 4)
		default:
			r.skip(t, 4)
		}
	})
	r.required("ColumnMetaData", seen, 1, 2, 3, 4, 5, 6, 7, 9)
	return m
}

func readI64List(r *tr, t byte, what string) []int64 {
	n := r.listOf(t, tI64, what)
	out := make([]int64, 0, n)
	for i := 0; i < n && r.err == nil; i++ {
		out = append(out, r.i64(tI64))
	}
	return out
}

func readSizeStatistics(r *tr, t byte, depth int) *SizeStatistics {
	s := &SizeStatistics{}
	r.structOf(t, depth, func(id int16, t byte) {
		switch id {
		case 1:
			s.UnencodedByteArrayDataBytes = p64(r.i64(t))
		case 2:
			s.RepetitionLevelHistogram = readI64List(r, t, "repetition_level_histogram")
			s.HasRepetitionLevelHistogram = len(s.RepetitionLevelHistogram) > 0
		case 3:
			s.DefinitionLevelHistogram = readI64List(r, t, "definition_level_histogram")
			s.HasDefinitionLevelHistogram = len(s.DefinitionLevelHistogram) > 0
		default:
			r.skip(t, depth+1)
		}
	})
	return s
}

func readStatistics(r *tr, t byte, depth int) *Statistics {
	s := &Statistics{}
	r.structOf(t, depth, func(id int16, t byte) {
		switch id {
		case 1:
			s.Max, s.HasMax = r.bin(t), true
		case 2:
			s.Min, s.HasMin = r.bin(t), true
		case 3:
			s.NullCount = p64(r.i64(t))
		case 4:
			s.DistinctCount = p64(r.i64(t))
		case 5:
			s.MaxValue, s.HasMaxValue = r.bin(t), true
		case 6:
			s.MinValue, s.HasMinValue = r.bin(t), true
		case 7:
			v := r.boolean(t)
			s.IsMaxValueExact = &v
		case 8:
			v := r.boolean(t)
			s.IsMinValueExact = &v
		default:
			r.skip(t, depth+1)
		}
	})
	return s
}
