package pqref

import (
	"bytes"
	"encoding/binary"
	"math"
)

type orderKind int

const (
	ordNone orderKind = iota // undefined order: statistics are not checked
	ordBool
	ordInt32
	ordUint32
	ordInt64
	ordUint64
	ordFloat
	ordDouble
	ordFloat16
	ordBytes     // unsigned lexicographic
	ordDecimalBE // signed big-endian two's complement
)

func (l *Leaf) isDecimal() bool {
	e := l.Element
	if e == nil {
		return false
	}
	if e.LogicalType != nil {
		return e.LogicalType.Kind == "DECIMAL"
	}
	return e.ConvertedType != nil && *e.ConvertedType == convDecimal
}

func (l *Leaf) order() orderKind {
	e := l.Element
	if e != nil {
		if e.ConvertedType != nil && *e.ConvertedType == convInterval {
			return ordNone
		}
		if lt := e.LogicalType; lt != nil {
			switch lt.Kind {
			case "VARIANT", "GEOMETRY", "GEOGRAPHY", "":
				return ordNone
			}
		}
	}
	switch l.Type {
	case TypeBoolean:
		return ordBool
	case TypeInt32:
		if l.Unsigned {
			return ordUint32
		}
		return ordInt32
	case TypeInt64:
		if l.Unsigned {
			return ordUint64
		}
		return ordInt64
	case TypeFloat:
		return ordFloat
	case TypeDouble:
		return ordDouble
	case TypeByteArray, TypeFixedLenByteArray:
		if l.isDecimal() {
			return ordDecimalBE
		}
		if l.Type == TypeFixedLenByteArray && l.TypeLength == 2 && e != nil && e.LogicalType != nil && e.LogicalType.Kind == "FLOAT16" {
			return ordFloat16
		}
		return ordBytes
	}
	return ordNone // INT96
}

// OrderDefined reports whether the column has a sort order defined by the
// specification (false for INT96, INTERVAL, VARIANT, GEOMETRY, GEOGRAPHY).
func OrderDefined(leaf *Leaf) bool { return leaf.order() != ordNone }

// valueWidth returns the required byte width of a statistics value for the
// column's order, or -1 if any length is acceptable.
func (l *Leaf) valueWidth() int {
	switch l.order() {
	case ordBool:
		return 1
	case ordInt32, ordUint32, ordFloat:
		return 4
	case ordInt64, ordUint64, ordDouble:
		return 8
	case ordFloat16:
		return 2
	}
	return -1
}

func float16To32(h uint16) float32 {
	sign := uint32(h>>15) << 31
	exp := uint32(h>>10) & 0x1f
	man := uint32(h) & 0x3ff
	switch exp {
	case 0:
		if man == 0 {
			return math.Float32frombits(sign)
		}
		// subnormal: value = man * 2^-24
		f := float32(man) * float32(math.Ldexp(1, -24))
		if sign != 0 {
			f = -f
		}
		return f
	case 31:
		if man == 0 {
			return math.Float32frombits(sign | 0x7f800000)
		}
		return math.Float32frombits(sign | 0x7fc00000 | man<<13)
	}
	return math.Float32frombits(sign | (exp+112)<<23 | man<<13)
}

// IsNaN reports whether v is a floating point NaN in the column's type.
func IsNaN(leaf *Leaf, v []byte) bool {
	switch leaf.order() {
	case ordFloat:
		return len(v) == 4 && math.IsNaN(float64(math.Float32frombits(binary.LittleEndian.Uint32(v))))
	case ordDouble:
		return len(v) == 8 && math.IsNaN(math.Float64frombits(binary.LittleEndian.Uint64(v)))
	case ordFloat16:
		return len(v) == 2 && float16To32(binary.LittleEndian.Uint16(v)) != float16To32(binary.LittleEndian.Uint16(v))
	}
	return false
}

func cmpOrdered[T int32 | uint32 | int64 | uint64 | float32 | float64](a, b T) int {
	if a < b {
		return -1
	}
	if a > b {
		return 1
	}
	return 0
}

func cmpSignedBE(a, b []byte) int {
	na := len(a) > 0 && a[0]&0x80 != 0
	nb := len(b) > 0 && b[0]&0x80 != 0
	if na != nb {
		if na {
			return -1
		}
		return 1
	}
	fill := byte(0)
	if na {
		fill = 0xff
	}
	n := len(a)
	if len(b) > n {
		n = len(b)
	}
	for i := 0; i < n; i++ {
		ca, cb := fill, fill
		if j := i - (n - len(a)); j >= 0 {
			ca = a[j]
		}
		if j := i - (n - len(b)); j >= 0 {
			cb = b[j]
		}
		if ca != cb {
			if ca < cb {
				return -1
			}
			return 1
		}
	}
	return 0
}

// CompareValues compares two PLAIN-encoded single values in the column's sort
// order: signed for INT32/INT64 unless Leaf.Unsigned; numeric for floats
// (-0 == +0; NaN compares equal to everything, callers filter NaN out);
// unsigned lexicographic for BYTE_ARRAY/FIXED_LEN_BYTE_ARRAY, except DECIMAL
// (signed big-endian) and FLOAT16 (numeric). Values of the wrong width and
// columns without a defined order fall back to bytes.Compare.
func CompareValues(leaf *Leaf, a, b []byte) int {
	k := leaf.order()
	if w := leaf.valueWidth(); w >= 0 && (len(a) != w || len(b) != w) {
		return bytes.Compare(a, b)
	}
	switch k {
	case ordBool:
		return cmpOrdered(int32(a[0]&1), int32(b[0]&1))
	case ordInt32:
		return cmpOrdered(int32(binary.LittleEndian.Uint32(a)), int32(binary.LittleEndian.Uint32(b)))
	case ordUint32:
		return cmpOrdered(binary.LittleEndian.Uint32(a), binary.LittleEndian.Uint32(b))
	case ordInt64:
		return cmpOrdered(int64(binary.LittleEndian.Uint64(a)), int64(binary.LittleEndian.Uint64(b)))
	case ordUint64:
		return cmpOrdered(binary.LittleEndian.Uint64(a), binary.LittleEndian.Uint64(b))
	case ordFloat:
		return cmpOrdered(math.Float32frombits(binary.LittleEndian.Uint32(a)), math.Float32frombits(binary.LittleEndian.Uint32(b)))
	case ordDouble:
		return cmpOrdered(math.Float64frombits(binary.LittleEndian.Uint64(a)), math.Float64frombits(binary.LittleEndian.Uint64(b)))
	case ordFloat16:
		return cmpOrdered(float16To32(binary.LittleEndian.Uint16(a)), float16To32(binary.LittleEndian.Uint16(b)))
	case ordDecimalBE:
		return cmpSignedBE(a, b)
	}
	return bytes.Compare(a, b)
}
