package pqref

import (
	"encoding/binary"
	"errors"
	"fmt"
)

type PageInfo struct {
	HeaderOffset int64 // thrift page header position in the file
	HeaderLen    int
	BodyOffset   int64 // compressed_page_size bytes following the header
	BodyLen      int
	Type         int32 // 0 DATA_PAGE, 1 INDEX_PAGE, 2 DICTIONARY_PAGE, 3 DATA_PAGE_V2

	UncompressedSize, CompressedSize int32
	CRC                              *int32

	NumValues int32 // data pages and dictionary pages
	Encoding  int32

	DefLevelEncoding, RepLevelEncoding int32 // v1

	NumNulls, NumRows                  int32 // v2
	DefLevelsByteLen, RepLevelsByteLen int32
	IsCompressed                       bool

	Stats        *Statistics // page header statistics if present
	DictIsSorted *bool
}

// IsDataPage reports whether the page is a v1 or v2 data page.
func (p *PageInfo) IsDataPage() bool { return p.Type == PageTypeData || p.Type == PageTypeDataV2 }

func readPageHeader(b []byte) (PageInfo, error) {
	var p PageInfo
	r := &tr{b: b}
	var seen uint64
	r.fields(0, func(id int16, t byte) {
		mark(&seen, id)
		switch id {
		case 1:
			p.Type = r.i32(t)
		case 2:
			p.UncompressedSize = r.i32(t)
		case 3:
			p.CompressedSize = r.i32(t)
		case 4:
			p.CRC = p32(r.i32(t))
		case 5:
			var s uint64
			r.structOf(t, 1, func(id int16, t byte) {
				mark(&s, id)
				switch id {
				case 1:
					p.NumValues = r.i32(t)
				case 2:
					p.Encoding = r.i32(t)
				case 3:
					p.DefLevelEncoding = r.i32(t)
				case 4:
					p.RepLevelEncoding = r.i32(t)
				case 5:
					p.Stats = readStatistics(r, t, 2)
				default:
					r.skip(t, 2)
				}
			})
			r.required("DataPageHeader", s, 1, 2, 3, 4)
		case 6:
			r.emptyStruct(t, 1)
		case 7:
			var s uint64
			r.structOf(t, 1, func(id int16, t byte) {
				mark(&s, id)
				switch id {
				case 1:
					p.NumValues = r.i32(t)
				case 2:
					p.Encoding = r.i32(t)
				case 3:
					v := r.boolean(t)
					p.DictIsSorted = &v
				default:
					r.skip(t, 2)
				}
			})
			r.required("DictionaryPageHeader", s, 1, 2)
		case 8:
			var s uint64
			p.IsCompressed = true
			r.structOf(t, 1, func(id int16, t byte) {
				mark(&s, id)
				switch id {
				case 1:
					p.NumValues = r.i32(t)
				case 2:
					p.NumNulls = r.i32(t)
				case 3:
					p.NumRows = r.i32(t)
				case 4:
					p.Encoding = r.i32(t)
				case 5:
					p.DefLevelsByteLen = r.i32(t)
				case 6:
					p.RepLevelsByteLen = r.i32(t)
				case 7:
					p.IsCompressed = r.boolean(t)
				case 8:
					p.Stats = readStatistics(r, t, 2)
				default:
					r.skip(t, 2)
				}
			})
			r.required("DataPageHeaderV2", s, 1, 2, 3, 4, 5, 6)
		default:
			r.skip(t, 1)
		}
	})
	r.required("PageHeader", seen, 1, 2, 3)
	if r.err == nil {
		var need int
		switch p.Type {
		case PageTypeData:
			need = 5
		case PageTypeDictionary:
			need = 7
		case PageTypeDataV2:
			need = 8
		}
		if need != 0 && seen&(1<<uint(need)) == 0 {
			r.fail("PageHeader of type %d lacks its type-specific header (field %d)", p.Type, need)
		}
	}
	if r.err != nil {
		return p, r.err
	}
	p.HeaderLen = r.pos
	return p, nil
}

// chunkStart returns the file offset of the first page of the chunk.
func chunkStart(m *ColumnMetaData) int64 {
	start := m.DataPageOffset
	if m.DictionaryPageOffset != nil && *m.DictionaryPageOffset > 0 && *m.DictionaryPageOffset < start {
		start = *m.DictionaryPageOffset
	}
	return start
}

// Pages walks the page headers of a column chunk, from
// min(dictionary_page_offset (if set and > 0), data_page_offset) for
// total_compressed_size bytes. On error the pages found so far are returned
// along with the error.
func (f *File) Pages(rg, col int) (pages []PageInfo, err error) {
	defer func() {
		if p := recover(); p != nil {
			err = errf("internal-panic", "Pages: %v", p)
		}
	}()
	m, err := f.chunkMeta(rg, col)
	if err != nil {
		return nil, err
	}
	if fp := f.RowGroups[rg].Columns[col].FilePath; fp != nil && *fp != "" {
		return nil, errf("external-file", "column chunk data lives in external file %q", *fp)
	}
	return f.walkPages(m)
}

func (f *File) walkPages(m *ColumnMetaData) ([]PageInfo, error) {
	start := chunkStart(m)
	size := m.TotalCompressedSize
	limit := f.FooterOffset
	if limit == 0 {
		limit = int64(len(f.Data))
	}
	if start < 4 || size < 0 || start > limit || size > limit-start {
		return nil, errf("chunk-bounds", "column chunk [%d, %d+%d) lies outside the data area [4, %d)", start, start, size, limit)
	}
	end := start + size
	var pages []PageInfo
	pos := start
	for pos < end {
		p, err := readPageHeader(f.Data[pos:end])
		if err != nil {
			return pages, errf("page-header", "page %d at offset %d: %v", len(pages), pos, err)
		}
		p.HeaderOffset = pos
		p.BodyOffset = pos + int64(p.HeaderLen)
		if p.CompressedSize < 0 || p.UncompressedSize < 0 {
			return pages, errf("page-header", "page %d at offset %d: negative size (compressed %d, uncompressed %d)", len(pages), pos, p.CompressedSize, p.UncompressedSize)
		}
		if int64(p.CompressedSize) > end-p.BodyOffset {
			return pages, errf("pages-tiling", "page %d at offset %d: body of %d bytes at %d overruns the chunk end %d", len(pages), pos, p.CompressedSize, p.BodyOffset, end)
		}
		p.BodyLen = int(p.CompressedSize)
		pages = append(pages, p)
		pos = p.BodyOffset + int64(p.BodyLen)
	}
	return pages, nil
}

// ---------------------------------------------------------------------------
// decoded column data

// Triple is one (repetition level, definition level, value) entry of a
// column. Val is the PLAIN encoding of the single value: BOOLEAN 1 byte 0/1;
// INT32/FLOAT 4 bytes LE; INT64/DOUBLE 8 bytes LE; INT96 12 bytes;
// BYTE_ARRAY the raw bytes without length prefix; FIXED_LEN_BYTE_ARRAY the raw
// bytes. Val is nil for nulls.
type Triple struct {
	Rep, Def int32
	Null     bool
	Val      []byte
}

type PageData struct {
	Info    PageInfo
	Triples []Triple
	NumRows int // count of rep==0
}

// decodedPage is the internal, richer form of PageData.
type decodedPage struct {
	Info     PageInfo
	Index    int      // index within Pages()
	Rep, Def []uint32 // nil when the max level is 0
	Values   [][]byte // non-null values in order
	Indices  []uint32 // dictionary indices when dictionary encoded
	NumRows  int
	NonNull  int
}

// reportFunc receives problems found while decoding page pageIdx (index within
// Pages()). fatal problems abort the decoding of that page.
type reportFunc func(pageIdx int, code, msg string, fatal bool)

type chunkDecode struct {
	Pages    []PageInfo
	WalkErr  error
	Dict     [][]byte
	HasDict  bool
	Data     []*decodedPage // data pages that decoded, in file order
	Complete bool           // every page was walked and decoded
}

func (f *File) leafFor(rg, col int) (*Leaf, *ColumnMetaData, error) {
	m, err := f.chunkMeta(rg, col)
	if err != nil {
		return nil, nil, err
	}
	if col >= len(f.Leaves) {
		return nil, nil, errf("rg-columns-count", "rg%d has column %d but the schema has %d leaves", rg, col, len(f.Leaves))
	}
	if fp := f.RowGroups[rg].Columns[col].FilePath; fp != nil && *fp != "" {
		return nil, nil, errf("external-file", "column chunk data lives in external file %q", *fp)
	}
	return &f.Leaves[col], m, nil
}

func (f *File) decodeChunk(leaf *Leaf, m *ColumnMetaData, report reportFunc) *chunkDecode {
	cd := &chunkDecode{Complete: true}
	cd.Pages, cd.WalkErr = f.walkPages(m)
	if cd.WalkErr != nil {
		cd.Complete = false
	}
	for i := range cd.Pages {
		p := &cd.Pages[i]
		body := f.Data[p.BodyOffset : p.BodyOffset+int64(p.BodyLen)]
		fatal := false
		rep := func(code, msg string, isFatal bool) {
			if isFatal {
				fatal = true
			}
			report(i, code, msg, isFatal)
		}
		switch p.Type {
		case PageTypeDictionary:
			dict := decodeDictPage(leaf, m.Codec, p, body, rep)
			if fatal {
				cd.Complete = false
				continue
			}
			// A second dictionary page replaces the first one; Check flags it.
			cd.Dict, cd.HasDict = dict, true
		case PageTypeData, PageTypeDataV2:
			dp := decodeDataPage(leaf, m.Codec, p, body, cd.Dict, cd.HasDict, rep)
			if fatal || dp == nil {
				cd.Complete = false
				continue
			}
			dp.Index = i
			cd.Data = append(cd.Data, dp)
		case PageTypeIndex:
			// skipped
		default:
			report(i, "page-type-unknown", fmt.Sprintf("page type %d", p.Type), false)
		}
	}
	return cd
}

func decompressPage(codec int32, src []byte, want int, rep func(code, msg string, fatal bool)) ([]byte, bool) {
	if want > MaxPageSize {
		rep("page-too-large", fmt.Sprintf("uncompressed size %d exceeds MaxPageSize %d", want, MaxPageSize), true)
		return nil, false
	}
	if len(src) == 0 && want == 0 {
		return nil, true
	}
	out, err := Decompress(codec, src, want)
	if err != nil {
		var se *SizeError
		if errors.As(err, &se) {
			rep("page-uncompressed-size", err.Error(), true)
		} else {
			rep("page-decompress", err.Error(), true)
		}
		return nil, false
	}
	return out, true
}

func decodeDictPage(leaf *Leaf, codec int32, p *PageInfo, body []byte, rep func(code, msg string, fatal bool)) [][]byte {
	data, ok := decompressPage(codec, body, int(p.UncompressedSize), rep)
	if !ok {
		return nil
	}
	if p.Encoding != EncPlain && p.Encoding != EncPlainDictionary {
		rep("dict-encoding", fmt.Sprintf("dictionary page uses encoding %d, expected PLAIN", p.Encoding), true)
		return nil
	}
	if p.NumValues < 0 {
		rep("dict-decode", fmt.Sprintf("negative num_values %d", p.NumValues), true)
		return nil
	}
	vals, used, err := decodeValues(EncPlain, leaf.Type, int(leaf.TypeLength), data, int(p.NumValues), &decodeFlags{})
	if err != nil {
		rep("dict-decode", err.Error(), true)
		return nil
	}
	if used != len(data) {
		rep("values-trailing-bytes", fmt.Sprintf("dictionary page: %d values use %d of %d bytes", p.NumValues, used, len(data)), false)
	}
	return vals
}

func decodeLevelsV1(data []byte, enc int32, maxLevel, n int, what string, rep func(code, msg string, fatal bool)) (levels []uint32, used int, ok bool) {
	bw := bitWidthOf(maxLevel)
	switch enc {
	case EncRLE:
		if len(data) < 4 {
			rep("levels-decode", fmt.Sprintf("%s levels: missing 4-byte length prefix", what), true)
			return nil, 0, false
		}
		l := int64(binary.LittleEndian.Uint32(data))
		if l > int64(len(data)-4) {
			rep("levels-decode", fmt.Sprintf("%s levels: length prefix %d exceeds the %d bytes of the page", what, l, len(data)-4), true)
			return nil, 0, false
		}
		lv, c, _, err := decodeHybrid(data[4:4+l], bw, n)
		if err != nil {
			rep("levels-decode", fmt.Sprintf("%s levels (num_values %d): %v", what, n, err), true)
			return nil, 0, false
		}
		if c != int(l) {
			rep("levels-trailing-bytes", fmt.Sprintf("%s levels: %d values use %d of the %d bytes announced by the length prefix", what, n, c, l), false)
		}
		return lv, 4 + int(l), true
	case EncBitPacked:
		lv, c, err := decodeBitPackedLevels(data, bw, n)
		if err != nil {
			rep("levels-decode", fmt.Sprintf("%s levels: %v", what, err), true)
			return nil, 0, false
		}
		return lv, c, true
	}
	rep("levels-encoding", fmt.Sprintf("%s levels use encoding %d", what, enc), true)
	return nil, 0, false
}

func decodeDataPage(leaf *Leaf, codec int32, p *PageInfo, body []byte, dict [][]byte, hasDict bool, rep func(code, msg string, fatal bool)) *decodedPage {
	dp := &decodedPage{Info: *p}
	if p.NumValues < 0 || int(p.NumValues) > MaxValues {
		rep("page-num-values", fmt.Sprintf("num_values %d out of range", p.NumValues), true)
		return nil
	}
	n := int(p.NumValues)
	var values []byte
	if p.Type == PageTypeData {
		data, ok := decompressPage(codec, body, int(p.UncompressedSize), rep)
		if !ok {
			return nil
		}
		if leaf.MaxRep > 0 {
			lv, used, ok := decodeLevelsV1(data, p.RepLevelEncoding, leaf.MaxRep, n, "repetition", rep)
			if !ok {
				return nil
			}
			dp.Rep = lv
			data = data[used:]
		}
		if leaf.MaxDef > 0 {
			lv, used, ok := decodeLevelsV1(data, p.DefLevelEncoding, leaf.MaxDef, n, "definition", rep)
			if !ok {
				return nil
			}
			dp.Def = lv
			data = data[used:]
		}
		values = data
	} else {
		rl, dl := int64(p.RepLevelsByteLen), int64(p.DefLevelsByteLen)
		if rl < 0 || dl < 0 || rl+dl > int64(len(body)) {
			rep("levels-byte-length", fmt.Sprintf("repetition_levels_byte_length %d + definition_levels_byte_length %d exceed the page body of %d bytes", rl, dl, len(body)), true)
			return nil
		}
		if rl+dl > int64(p.UncompressedSize) {
			rep("page-uncompressed-size", fmt.Sprintf("levels take %d bytes but uncompressed_page_size is %d", rl+dl, p.UncompressedSize), true)
			return nil
		}
		repBytes, defBytes, rest := body[:rl], body[rl:rl+dl], body[rl+dl:]
		if leaf.MaxRep > 0 {
			lv, c, _, err := decodeHybrid(repBytes, bitWidthOf(leaf.MaxRep), n)
			if err != nil {
				rep("levels-decode", fmt.Sprintf("repetition levels (num_values %d, %d bytes): %v", n, rl, err), true)
				return nil
			}
			if c != len(repBytes) {
				rep("levels-byte-length", fmt.Sprintf("repetition levels: %d values use %d bytes, header says %d", n, c, rl), false)
			}
			dp.Rep = lv
		} else if rl != 0 {
			rep("levels-byte-length", fmt.Sprintf("repetition_levels_byte_length is %d for a column with max repetition level 0", rl), false)
		}
		if leaf.MaxDef > 0 {
			lv, c, _, err := decodeHybrid(defBytes, bitWidthOf(leaf.MaxDef), n)
			if err != nil {
				rep("levels-decode", fmt.Sprintf("definition levels (num_values %d, %d bytes): %v", n, dl, err), true)
				return nil
			}
			if c != len(defBytes) {
				rep("levels-byte-length", fmt.Sprintf("definition levels: %d values use %d bytes, header says %d", n, c, dl), false)
			}
			dp.Def = lv
		} else if dl != 0 {
			rep("levels-byte-length", fmt.Sprintf("definition_levels_byte_length is %d for a column with max definition level 0", dl), false)
		}
		want := int(int64(p.UncompressedSize) - rl - dl)
		if p.IsCompressed && codec != CodecUncompressed {
			data, ok := decompressPage(codec, rest, want, rep)
			if !ok {
				return nil
			}
			values = data
		} else {
			if len(rest) != want {
				rep("page-uncompressed-size", fmt.Sprintf("uncompressed v2 page: values section has %d bytes, uncompressed_page_size minus levels is %d", len(rest), want), true)
				return nil
			}
			values = rest
		}
	}

	// level ranges and counts
	dp.NumRows = n
	if dp.Rep != nil {
		rows := 0
		for i, r := range dp.Rep {
			if r == 0 {
				rows++
			} else if r > uint32(leaf.MaxRep) {
				rep("rep-level-range", fmt.Sprintf("repetition level %d at position %d exceeds max %d", r, i, leaf.MaxRep), true)
				return nil
			}
		}
		dp.NumRows = rows
	}
	dp.NonNull = n
	if dp.Def != nil {
		nn := 0
		for i, d := range dp.Def {
			if d == uint32(leaf.MaxDef) {
				nn++
			} else if d > uint32(leaf.MaxDef) {
				rep("def-level-range", fmt.Sprintf("definition level %d at position %d exceeds max %d", d, i, leaf.MaxDef), true)
				return nil
			}
		}
		dp.NonNull = nn
	}

	// values
	nn := dp.NonNull
	switch p.Encoding {
	case EncPlainDictionary, EncRLEDictionary:
		if !hasDict {
			rep("dict-missing", fmt.Sprintf("data page uses encoding %d but no dictionary page precedes it", p.Encoding), true)
			return nil
		}
		if len(values) == 0 {
			if nn != 0 {
				rep("values-decode", fmt.Sprintf("dictionary-encoded page with %d non-null values has an empty values section", nn), true)
				return nil
			}
			dp.Values = [][]byte{}
			break
		}
		bw := int(values[0])
		if bw > 32 {
			rep("values-decode", fmt.Sprintf("dictionary index bit width %d", bw), true)
			return nil
		}
		idx, c, wide, err := decodeHybrid(values[1:], bw, nn)
		if err != nil {
			rep("values-decode", fmt.Sprintf("dictionary indices (%d non-null values, bit width %d): %v", nn, bw, err), true)
			return nil
		}
		if wide {
			rep("rle-run-value-width", fmt.Sprintf("dictionary indices: an RLE run value does not fit in the bit width %d", bw), false)
		}
		if nn > 0 && 1+c != len(values) {
			rep("values-trailing-bytes", fmt.Sprintf("dictionary indices: %d values use %d of %d bytes", nn, 1+c, len(values)), false)
		}
		out := make([][]byte, nn)
		for i, x := range idx {
			if int64(x) >= int64(len(dict)) {
				rep("dict-index-range", fmt.Sprintf("dictionary index %d (value %d of the page) but the dictionary has %d entries", x, i, len(dict)), true)
				return nil
			}
			out[i] = dict[x]
		}
		dp.Values, dp.Indices = out, idx
	default:
		if nn == 0 && len(values) == 0 {
			dp.Values = [][]byte{}
			break
		}
		var fl decodeFlags
		vals, c, err := decodeValues(p.Encoding, leaf.Type, int(leaf.TypeLength), values, nn, &fl)
		if err != nil {
			rep("values-decode", fmt.Sprintf("%d non-null values, encoding %d: %v", nn, p.Encoding, err), true)
			return nil
		}
		if fl.wideRLE {
			rep("rle-run-value-width", fmt.Sprintf("encoding %d: the repeated value of an RLE run does not fit in the bit width (e.g. 0xFF instead of 0x01 for true)", p.Encoding), false)
		}
		if c != len(values) {
			rep("values-trailing-bytes", fmt.Sprintf("encoding %d: %d values use %d of %d bytes", p.Encoding, nn, c, len(values)), false)
		}
		dp.Values = vals
	}
	return dp
}

func (dp *decodedPage) toPageData(leaf *Leaf) PageData {
	n := int(dp.Info.NumValues)
	pd := PageData{Info: dp.Info, NumRows: dp.NumRows, Triples: make([]Triple, n)}
	vi := 0
	for i := range pd.Triples {
		t := &pd.Triples[i]
		if dp.Rep != nil {
			t.Rep = int32(dp.Rep[i])
		}
		d := uint32(leaf.MaxDef)
		if dp.Def != nil {
			d = dp.Def[i]
		}
		t.Def = int32(d)
		if d == uint32(leaf.MaxDef) {
			v := dp.Values[vi]
			if v == nil {
				v = []byte{}
			}
			t.Val = v
			vi++
		} else {
			t.Null = true
		}
	}
	return pd
}

// ReadColumn decompresses and decodes every data page (v1 and v2) of a
// column chunk, resolving dictionary indices. It verifies nothing beyond
// what decoding needs.
func (f *File) ReadColumn(rg, col int) (pages []PageData, err error) {
	defer func() {
		if p := recover(); p != nil {
			pages, err = nil, errf("internal-panic", "ReadColumn: %v", p)
		}
	}()
	leaf, m, err := f.leafFor(rg, col)
	if err != nil {
		return nil, err
	}
	var first error
	cd := f.decodeChunk(leaf, m, func(pageIdx int, code, msg string, fatal bool) {
		if fatal && first == nil {
			first = errf(code, "rg%d/col%d/page%d: %s", rg, col, pageIdx, msg)
		}
	})
	if cd.WalkErr != nil {
		return nil, cd.WalkErr
	}
	if first != nil {
		return nil, first
	}
	pages = make([]PageData, len(cd.Data))
	for i, dp := range cd.Data {
		pages[i] = dp.toPageData(leaf)
	}
	return pages, nil
}

// ---------------------------------------------------------------------------
// page index

type OffsetIndex struct {
	PageLocations                  []PageLocation
	UnencodedByteArrayDataBytes    []int64
	HasUnencodedByteArrayDataBytes bool
}

type PageLocation struct {
	Offset             int64
	CompressedPageSize int32
	FirstRowIndex      int64
}

type ColumnIndex struct {
	NullPages                    []bool
	MinValues, MaxValues         [][]byte
	BoundaryOrder                int32
	NullCounts                   []int64
	HasNullCounts                bool
	RepetitionLevelHistograms    []int64
	DefinitionLevelHistograms    []int64
	HasRepetitionLevelHistograms bool
	HasDefinitionLevelHistograms bool
}

// indexBytes returns the bytes of an index structure. When the length is
// known the struct must fit in it; otherwise it may extend to the footer.
func (f *File) indexBytes(what string, off *int64, length *int32) ([]byte, error) {
	if off == nil {
		return nil, nil
	}
	limit := f.FooterOffset
	if limit == 0 {
		limit = int64(len(f.Data))
	}
	if *off < 4 || *off >= limit {
		return nil, errf(what+"-bounds", "%s offset %d outside the data area [4, %d)", what, *off, limit)
	}
	end := limit
	if length != nil {
		if *length < 0 || int64(*length) > limit-*off {
			return nil, errf(what+"-bounds", "%s [%d, %d+%d) outside the data area [4, %d)", what, *off, *off, *length, limit)
		}
		end = *off + int64(*length)
	}
	return f.Data[*off:end], nil
}

// ReadOffsetIndex reads the offset index of a column chunk; nil, nil if absent.
func (f *File) ReadOffsetIndex(rg, col int) (oi *OffsetIndex, err error) {
	defer func() {
		if p := recover(); p != nil {
			oi, err = nil, errf("internal-panic", "ReadOffsetIndex: %v", p)
		}
	}()
	if _, err := f.chunkMetaAllowNil(rg, col); err != nil {
		return nil, err
	}
	c := &f.RowGroups[rg].Columns[col]
	b, err := f.indexBytes("offset-index", c.OffsetIndexOffset, c.OffsetIndexLength)
	if err != nil || b == nil {
		return nil, err
	}
	r := &tr{b: b}
	oi = &OffsetIndex{}
	var seen uint64
	r.fields(0, func(id int16, t byte) {
		mark(&seen, id)
		switch id {
		case 1:
			n := r.listOf(t, tStruct, "page_locations")
			oi.PageLocations = make([]PageLocation, 0, n)
			for i := 0; i < n && r.err == nil; i++ {
				var l PageLocation
				var s uint64
				r.fields(1, func(id int16, t byte) {
					mark(&s, id)
					switch id {
					case 1:
						l.Offset = r.i64(t)
					case 2:
						l.CompressedPageSize = r.i32(t)
					case 3:
						l.FirstRowIndex = r.i64(t)
					default:
						r.skip(t, 2)
					}
				})
				r.required("PageLocation", s, 1, 2, 3)
				oi.PageLocations = append(oi.PageLocations, l)
			}
		case 2:
			oi.UnencodedByteArrayDataBytes = readI64List(r, t, "unencoded_byte_array_data_bytes")
			oi.HasUnencodedByteArrayDataBytes = len(oi.UnencodedByteArrayDataBytes) > 0
		default:
			r.skip(t, 1)
		}
	})
	r.required("OffsetIndex", seen, 1)
	if r.err != nil {
		return nil, errf("offset-index-read", "%v", r.err)
	}
	if c.OffsetIndexLength != nil && r.pos != len(b) {
		return oi, errf("offset-index-length", "offset index struct takes %d bytes, offset_index_length is %d", r.pos, len(b))
	}
	return oi, nil
}

// ReadColumnIndex reads the column index of a column chunk; nil, nil if absent.
func (f *File) ReadColumnIndex(rg, col int) (ci *ColumnIndex, err error) {
	defer func() {
		if p := recover(); p != nil {
			ci, err = nil, errf("internal-panic", "ReadColumnIndex: %v", p)
		}
	}()
	if _, err := f.chunkMetaAllowNil(rg, col); err != nil {
		return nil, err
	}
	c := &f.RowGroups[rg].Columns[col]
	b, err := f.indexBytes("column-index", c.ColumnIndexOffset, c.ColumnIndexLength)
	if err != nil || b == nil {
		return nil, err
	}
	r := &tr{b: b}
	ci = &ColumnIndex{}
	var seen uint64
	readBins := func(t byte, what string) [][]byte {
		n := r.listOf(t, tBinary, what)
		out := make([][]byte, 0, n)
		for i := 0; i < n && r.err == nil; i++ {
			out = append(out, r.bin(tBinary))
		}
		return out
	}
	r.fields(0, func(id int16, t byte) {
		mark(&seen, id)
		switch id {
		case 1:
			n := r.listOf(t, tTrue, "null_pages")
			ci.NullPages = make([]bool, 0, n)
			for i := 0; i < n && r.err == nil; i++ {
				ci.NullPages = append(ci.NullPages, r.elemBool())
			}
		case 2:
			ci.MinValues = readBins(t, "min_values")
		case 3:
			ci.MaxValues = readBins(t, "max_values")
		case 4:
			ci.BoundaryOrder = r.i32(t)
		case 5:
			ci.NullCounts = readI64List(r, t, "null_counts")
			ci.HasNullCounts = true
		case 6:
			ci.RepetitionLevelHistograms = readI64List(r, t, "repetition_level_histograms")
			ci.HasRepetitionLevelHistograms = len(ci.RepetitionLevelHistograms) > 0
		case 7:
			ci.DefinitionLevelHistograms = readI64List(r, t, "definition_level_histograms")
			ci.HasDefinitionLevelHistograms = len(ci.DefinitionLevelHistograms) > 0
		default:
			r.skip(t, 1)
		}
	})
	r.required("ColumnIndex", seen, 1, 2, 3, 4)
	if r.err != nil {
		return nil, errf("column-index-read", "%v", r.err)
	}
	if c.ColumnIndexLength != nil && r.pos != len(b) {
		return ci, errf("column-index-length", "column index struct takes %d bytes, column_index_length is %d", r.pos, len(b))
	}
	return ci, nil
}

func (f *File) chunkMetaAllowNil(rg, col int) (*ColumnMetaData, error) {
	if f == nil {
		return nil, errf("bad-argument", "nil file")
	}
	if rg < 0 || rg >= len(f.RowGroups) {
		return nil, errf("bad-argument", "row group %d out of range [0,%d)", rg, len(f.RowGroups))
	}
	g := &f.RowGroups[rg]
	if col < 0 || col >= len(g.Columns) {
		return nil, errf("bad-argument", "column %d out of range [0,%d)", col, len(g.Columns))
	}
	return g.Columns[col].Meta, nil
}
