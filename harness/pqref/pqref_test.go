package pqref_test

import (
	"bytes"
	"encoding/binary"
	"fmt"
	"math"
	"math/rand"
	"os"
	"path/filepath"
	"sort"
	"strings"
	"testing"

	"github.com/parquet-go/parquet-go"
	"github.com/parquet-go/parquet-go/bloom/xxhash"
	"github.com/parquet-go/parquet-go/compress"
	"github.com/parquet-go/parquet-go/deprecated"
	"github.com/parquet-go/parquet-go/encoding"

	"verif/pqref"
)

// ---------------------------------------------------------------------------
// hashing and block codecs

func TestXXH64(t *testing.T) {
	vectors := []struct {
		in   string
		want uint64
	}{
		{"", 0xEF46DB3751D8E999},
		{"a", 0xD24EC4F1A98C6E5B},
		{"abc", 0x44BC2CF5AD770999},
	}
	for _, v := range vectors {
		if got := pqref.XXH64([]byte(v.in), 0); got != v.want {
			t.Errorf("XXH64(%q) = %#x, want %#x", v.in, got, v.want)
		}
	}
	rng := rand.New(rand.NewSource(1))
	for n := 0; n < 300; n++ {
		b := make([]byte, n)
		rng.Read(b)
		if got, want := pqref.XXH64(b, 0), xxhash.Sum64(b); got != want {
			t.Fatalf("XXH64 of %d bytes = %#x, library says %#x", n, got, want)
		}
	}
}

func blockInputs() [][]byte {
	rng := rand.New(rand.NewSource(2))
	var inputs [][]byte
	inputs = append(inputs, nil, []byte("a"), []byte("aaaaaaaaaaaaaaaaaaaaaaaaaaaaaaaaaaaaaaaaaaaaaaaaaaaaa"),
		bytes.Repeat([]byte("abcdefgh"), 1000), bytes.Repeat([]byte{0}, 100000))
	for _, n := range []int{1, 10, 100, 1000, 70000, 300000} {
		rnd := make([]byte, n)
		rng.Read(rnd)
		inputs = append(inputs, rnd)
		// compressible: small alphabet with repeats
		c := make([]byte, n)
		for i := range c {
			if i > 20 && rng.Intn(3) > 0 {
				c[i] = c[i-1-rng.Intn(20)]
			} else {
				c[i] = byte('a' + rng.Intn(4))
			}
		}
		inputs = append(inputs, c)
	}
	return inputs
}

func TestBlockCodecs(t *testing.T) {
	codecs := []struct {
		id    int32
		codec compress.Codec
	}{
		{pqref.CodecUncompressed, &parquet.Uncompressed},
		{pqref.CodecSnappy, &parquet.Snappy},
		{pqref.CodecGzip, &parquet.Gzip},
		{pqref.CodecBrotli, &parquet.Brotli},
		{pqref.CodecZstd, &parquet.Zstd},
		{pqref.CodecLZ4Raw, &parquet.Lz4Raw},
	}
	for _, c := range codecs {
		for i, in := range blockInputs() {
			enc, err := c.codec.Encode(nil, in)
			if err != nil {
				t.Fatalf("%v encode: %v", c.codec, err)
			}
			out, err := pqref.Decompress(c.id, enc, len(in))
			if err != nil {
				t.Fatalf("%v input %d (%d bytes): %v", c.codec, i, len(in), err)
			}
			if !bytes.Equal(out, in) {
				t.Fatalf("%v input %d (%d bytes): round trip mismatch", c.codec, i, len(in))
			}
			if len(in) > 0 {
				if _, err := pqref.Decompress(c.id, enc, len(in)-1); err == nil {
					t.Fatalf("%v input %d: no error for a wrong (smaller) uncompressed size", c.codec, i)
				}
				if _, err := pqref.Decompress(c.id, enc, len(in)+1); err == nil {
					t.Fatalf("%v input %d: no error for a wrong (larger) uncompressed size", c.codec, i)
				}
			}
			switch c.id {
			case pqref.CodecSnappy:
				out, err = pqref.SnappyDecode(enc)
			case pqref.CodecLZ4Raw:
				out, err = pqref.LZ4BlockDecode(enc, len(in))
			default:
				continue
			}
			if err != nil || !bytes.Equal(out, in) {
				t.Fatalf("%v direct decode of input %d: err=%v", c.codec, i, err)
			}
			// garbage must not panic
			rng := rand.New(rand.NewSource(int64(i)))
			for k := 0; k < 50 && len(enc) > 0; k++ {
				g := append([]byte(nil), enc...)
				g[rng.Intn(len(g))] ^= byte(1 + rng.Intn(255))
				pqref.Decompress(c.id, g[:rng.Intn(len(g)+1)], len(in))
			}
		}
	}
	if _, err := pqref.Decompress(pqref.CodecLZ4, []byte{0, 0, 0, 0}, 0); err == nil {
		t.Error("hadoop LZ4 must be reported unsupported")
	}
}

// ---------------------------------------------------------------------------
// raw encodings against the library's encoders

func le32(v uint32) []byte { b := make([]byte, 4); binary.LittleEndian.PutUint32(b, v); return b }
func le64(v uint64) []byte { b := make([]byte, 8); binary.LittleEndian.PutUint64(b, v); return b }

func checkVals(t *testing.T, what string, got [][]byte, err error, want [][]byte) {
	t.Helper()
	if err != nil {
		t.Fatalf("%s: %v", what, err)
	}
	if len(got) != len(want) {
		t.Fatalf("%s: got %d values, want %d", what, len(got), len(want))
	}
	for i := range got {
		if !bytes.Equal(got[i], want[i]) {
			t.Fatalf("%s: value %d = %x, want %x", what, i, got[i], want[i])
		}
	}
}

func int32Inputs() [][]int32 {
	rng := rand.New(rand.NewSource(3))
	inputs := [][]int32{
		{}, {0}, {42}, {1, 2, 3}, {math.MaxInt32, math.MinInt32, math.MaxInt32, math.MinInt32, 0, -1},
		{math.MinInt32}, {math.MinInt32, math.MaxInt32},
	}
	for _, n := range []int{2, 31, 32, 33, 127, 128, 129, 130, 255, 256, 257, 1000} {
		a, b, c := make([]int32, n), make([]int32, n), make([]int32, n)
		for i := range a {
			a[i] = int32(rng.Uint32())
			b[i] = int32(i * 7)
			c[i] = int32(rng.Intn(100))
		}
		inputs = append(inputs, a, b, c, make([]int32, n))
	}
	return inputs
}

func int64Inputs() [][]int64 {
	rng := rand.New(rand.NewSource(4))
	inputs := [][]int64{
		{}, {0}, {42}, {1, 2, 3}, {math.MaxInt64, math.MinInt64, math.MaxInt64, math.MinInt64, 0, -1},
		{math.MinInt64}, {math.MinInt64, math.MaxInt64},
	}
	for _, n := range []int{2, 31, 32, 33, 127, 128, 129, 130, 255, 256, 257, 1000} {
		a, b, c := make([]int64, n), make([]int64, n), make([]int64, n)
		for i := range a {
			a[i] = int64(rng.Uint64())
			b[i] = int64(i) * 1000000007
			c[i] = int64(rng.Intn(100))
		}
		inputs = append(inputs, a, b, c, make([]int64, n))
	}
	return inputs
}

func byteArrayInputs() [][][]byte {
	rng := rand.New(rand.NewSource(5))
	inputs := [][][]byte{{}, {{}}, {[]byte("a")}, {[]byte("hello"), []byte("help"), []byte("helpful"), {}, []byte("world")}}
	for _, n := range []int{2, 100, 129, 500} {
		var a, b [][]byte
		for i := 0; i < n; i++ {
			v := make([]byte, rng.Intn(20))
			rng.Read(v)
			a = append(a, v)
			b = append(b, []byte(fmt.Sprintf("prefix/%06d/%d", i/3, rng.Intn(10))))
		}
		inputs = append(inputs, a, b)
	}
	return inputs
}

func flatten(vals [][]byte) (data []byte, offsets []uint32) {
	offsets = append(offsets, 0)
	for _, v := range vals {
		data = append(data, v...)
		offsets = append(offsets, uint32(len(data)))
	}
	return
}

func TestRawEncodings(t *testing.T) {
	type enc struct {
		id int32
		e  encoding.Encoding
	}
	for _, in := range int32Inputs() {
		want := make([][]byte, len(in))
		for i, v := range in {
			want[i] = le32(uint32(v))
		}
		for _, e := range []enc{{pqref.EncPlain, &parquet.Plain}, {pqref.EncDeltaBinaryPacked, &parquet.DeltaBinaryPacked}, {pqref.EncByteStreamSplit, &parquet.ByteStreamSplit}} {
			data, err := e.e.EncodeInt32(nil, in)
			if err != nil {
				t.Fatal(err)
			}
			got, err := pqref.DecodeValues(e.id, pqref.TypeInt32, 0, data, len(in))
			checkVals(t, fmt.Sprintf("int32 %v n=%d", e.e, len(in)), got, err, want)
			got, err = pqref.DecodeValues(e.id, pqref.TypeInt32, 0, data, -1)
			checkVals(t, fmt.Sprintf("int32 %v n=%d (unbounded)", e.e, len(in)), got, err, want)
		}
	}
	for _, in := range int64Inputs() {
		want := make([][]byte, len(in))
		for i, v := range in {
			want[i] = le64(uint64(v))
		}
		for _, e := range []enc{{pqref.EncPlain, &parquet.Plain}, {pqref.EncDeltaBinaryPacked, &parquet.DeltaBinaryPacked}, {pqref.EncByteStreamSplit, &parquet.ByteStreamSplit}} {
			data, err := e.e.EncodeInt64(nil, in)
			if err != nil {
				t.Fatal(err)
			}
			got, err := pqref.DecodeValues(e.id, pqref.TypeInt64, 0, data, len(in))
			checkVals(t, fmt.Sprintf("int64 %v n=%d", e.e, len(in)), got, err, want)
			got, err = pqref.DecodeValues(e.id, pqref.TypeInt64, 0, data, -1)
			checkVals(t, fmt.Sprintf("int64 %v n=%d (unbounded)", e.e, len(in)), got, err, want)
		}
	}
	// floats
	rng := rand.New(rand.NewSource(6))
	for _, n := range []int{0, 1, 7, 100} {
		f32, f64 := make([]float32, n), make([]float64, n)
		w32, w64 := make([][]byte, n), make([][]byte, n)
		for i := 0; i < n; i++ {
			f32[i] = math.Float32frombits(rng.Uint32())
			f64[i] = math.Float64frombits(rng.Uint64())
			w32[i] = le32(math.Float32bits(f32[i]))
			w64[i] = le64(math.Float64bits(f64[i]))
		}
		for _, e := range []enc{{pqref.EncPlain, &parquet.Plain}, {pqref.EncByteStreamSplit, &parquet.ByteStreamSplit}} {
			data, err := e.e.EncodeFloat(nil, f32)
			if err != nil {
				t.Fatal(err)
			}
			got, err := pqref.DecodeValues(e.id, pqref.TypeFloat, 0, data, n)
			checkVals(t, fmt.Sprintf("float %v", e.e), got, err, w32)
			data, err = e.e.EncodeDouble(nil, f64)
			if err != nil {
				t.Fatal(err)
			}
			got, err = pqref.DecodeValues(e.id, pqref.TypeDouble, 0, data, -1)
			checkVals(t, fmt.Sprintf("double %v", e.e), got, err, w64)
		}
	}
	// booleans
	wideRLE := 0
	defer func() {
		if wideRLE > 0 {
			t.Logf("library finding: %d RLE boolean blocks carry an RLE run value wider than the bit width (0xFF for true)", wideRLE)
		}
	}()
	for _, n := range []int{0, 1, 7, 8, 9, 63, 64, 65, 1000} {
		for pattern := 0; pattern < 3; pattern++ {
			bits := make([]byte, (n+7)/8)
			want := make([][]byte, n)
			for i := 0; i < n; i++ {
				var b byte
				switch pattern {
				case 0:
					b = byte(rng.Intn(2))
				case 1:
					b = 1
				case 2:
					b = byte((i / 50) & 1)
				}
				bits[i/8] |= b << uint(i%8)
				want[i] = []byte{b}
			}
			data, err := parquet.Plain.EncodeBoolean(nil, bits)
			if err != nil {
				t.Fatal(err)
			}
			got, err := pqref.DecodeValues(pqref.EncPlain, pqref.TypeBoolean, 0, data, n)
			checkVals(t, "boolean PLAIN", got, err, want)
			if n%8 != 0 {
				// The library's RLE boolean encoder takes whole bytes of
				// bit-packed input: it can only express multiples of 8.
				continue
			}
			data, err = parquet.RLE.EncodeBoolean(nil, bits)
			if err != nil {
				t.Fatal(err)
			}
			got, err = pqref.DecodeValues(pqref.EncRLE, pqref.TypeBoolean, 0, data, n)
			if err != nil && strings.Contains(err.Error(), "does not fit in the bit width") {
				// LIBRARY FINDING: rle.Encoding.EncodeBoolean writes RLE runs of
				// true as <count> 0xFF; the repeated value of a width-1 run must be 0x01.
				wideRLE++
				pqref.LenientRLERunValues = true
				got, err = pqref.DecodeValues(pqref.EncRLE, pqref.TypeBoolean, 0, data, n)
				pqref.LenientRLERunValues = false
			}
			checkVals(t, fmt.Sprintf("boolean RLE n=%d pattern=%d", n, pattern), got, err, want)
		}
	}
	// byte arrays
	for _, in := range byteArrayInputs() {
		src, offsets := flatten(in)
		for _, e := range []enc{{pqref.EncPlain, &parquet.Plain}, {pqref.EncDeltaLengthByteArray, &parquet.DeltaLengthByteArray}, {pqref.EncDeltaByteArray, &parquet.DeltaByteArray}} {
			data, err := e.e.EncodeByteArray(nil, src, offsets)
			if err != nil {
				t.Fatal(err)
			}
			got, err := pqref.DecodeValues(e.id, pqref.TypeByteArray, 0, data, len(in))
			checkVals(t, fmt.Sprintf("byte array %v n=%d", e.e, len(in)), got, err, in)
			got, err = pqref.DecodeValues(e.id, pqref.TypeByteArray, 0, data, -1)
			checkVals(t, fmt.Sprintf("byte array %v n=%d (unbounded)", e.e, len(in)), got, err, in)
		}
	}
	// fixed length byte arrays
	for _, size := range []int{1, 2, 5, 16} {
		for _, n := range []int{0, 1, 50, 200} {
			src := make([]byte, n*size)
			rng.Read(src)
			want := make([][]byte, n)
			for i := range want {
				if i%3 == 1 { // shared prefixes for DELTA_BYTE_ARRAY
					copy(src[i*size:(i+1)*size], src[(i-1)*size:i*size-size/2])
				}
				want[i] = src[i*size : (i+1)*size]
			}
			for _, e := range []enc{{pqref.EncPlain, &parquet.Plain}, {pqref.EncDeltaByteArray, &parquet.DeltaByteArray}, {pqref.EncByteStreamSplit, &parquet.ByteStreamSplit}} {
				data, err := e.e.EncodeFixedLenByteArray(nil, src, size)
				if err != nil {
					t.Fatal(err)
				}
				got, err := pqref.DecodeValues(e.id, pqref.TypeFixedLenByteArray, size, data, n)
				checkVals(t, fmt.Sprintf("flba(%d) %v n=%d", size, e.e, n), got, err, want)
			}
		}
	}
	// levels: hybrid without length prefix
	for _, bw := range []int{1, 2, 3, 7, 8} {
		for _, n := range []int{1, 8, 9, 100, 1000} {
			lv := make([]uint8, n)
			for i := range lv {
				if i%97 < 60 {
					lv[i] = uint8((i / 97) % (1 << uint(bw)))
				} else {
					lv[i] = uint8(rng.Intn(1 << uint(bw)))
				}
			}
			e := parquet.RLE
			e.BitWidth = bw
			data, err := e.EncodeLevels(nil, lv)
			if err != nil {
				t.Fatal(err)
			}
			got, err := pqref.DecodeHybrid(data, bw, n)
			if err != nil {
				t.Fatalf("hybrid bw=%d n=%d: %v", bw, n, err)
			}
			for i := range got {
				if got[i] != uint32(lv[i]) {
					t.Fatalf("hybrid bw=%d n=%d: value %d = %d, want %d", bw, n, i, got[i], lv[i])
				}
			}
		}
	}
	// garbage never panics
	for i := 0; i < 3000; i++ {
		g := make([]byte, rng.Intn(64))
		rng.Read(g)
		for _, e := range []int32{0, 3, 5, 6, 7, 9} {
			for typ := int32(0); typ < 8; typ++ {
				pqref.DecodeValues(e, typ, 3, g, rng.Intn(40)-1)
			}
		}
		pqref.DecodeHybrid(g, rng.Intn(34)-1, rng.Intn(100))
	}
}

// Hand-built vectors taken from the text of Encodings.md.
func TestSpecVectors(t *testing.T) {
	// DELTA_BINARY_PACKED example 1: 1,2,3,4,5 -> header 128,4,5,1 ; block: min delta 1, widths 0,0,0,0
	data := []byte{0x80, 0x01, 0x04, 0x05, 0x02, 0x02, 0x00, 0x00, 0x00, 0x00}
	got, err := pqref.DecodeValues(pqref.EncDeltaBinaryPacked, pqref.TypeInt32, 0, data, 5)
	checkVals(t, "delta 1..5", got, err, [][]byte{le32(1), le32(2), le32(3), le32(4), le32(5)})
	// example 2: 7,5,3,1,2,3,4,5: deltas -2,-2,-2,1,1,1,1; min delta -2; relative 0,0,0,3,3,3,3 at width 2
	data = []byte{0x80, 0x01, 0x04, 0x08, 0x0e, 0x03, 0x02, 0x00, 0x00, 0x00}
	mb := make([]byte, 8) // 32 values * 2 bits
	// values 0,0,0,3,3,3,3 packed LSB first: byte0 = 3<<6, byte1 = 3 | 3<<2 | 3<<4
	mb[0] = 0xC0
	mb[1] = 0x3F
	data = append(data, mb...)
	got, err = pqref.DecodeValues(pqref.EncDeltaBinaryPacked, pqref.TypeInt32, 0, data, 8)
	checkVals(t, "delta 7,5,3,1,2,3,4,5", got, err, [][]byte{le32(7), le32(5), le32(3), le32(1), le32(2), le32(3), le32(4), le32(5)})
	// RLE hybrid: bit-packed run of 8 values 0..7 at width 3: header (1<<1)|1 = 3; bytes 0x88 0xC6 0xFA
	lv, err := pqref.DecodeHybrid([]byte{0x03, 0x88, 0xC6, 0xFA}, 3, 8)
	if err != nil {
		t.Fatal(err)
	}
	for i, v := range lv {
		if v != uint32(i) {
			t.Fatalf("bit-packed 0..7: %v", lv)
		}
	}
	// RLE run: 10 times the value 5 at width 3 -> header 20, value 5
	lv, err = pqref.DecodeHybrid([]byte{20, 5}, 3, 10)
	if err != nil || len(lv) != 10 || lv[0] != 5 || lv[9] != 5 {
		t.Fatalf("rle run: %v %v", lv, err)
	}
	// BYTE_STREAM_SPLIT example of the spec: 3 floats
	data = []byte{0xAA, 0x00, 0xA3, 0xBB, 0x11, 0xB4, 0xCC, 0x22, 0xC5, 0xDD, 0x33, 0xD6}
	got, err = pqref.DecodeValues(pqref.EncByteStreamSplit, pqref.TypeFloat, 0, data, 3)
	checkVals(t, "bss", got, err, [][]byte{{0xAA, 0xBB, 0xCC, 0xDD}, {0x00, 0x11, 0x22, 0x33}, {0xA3, 0xB4, 0xC5, 0xD6}})
	// snappy: literal "abcd" + copy(offset 4, len 4)
	out, err := pqref.SnappyDecode([]byte{8, 3 << 2, 'a', 'b', 'c', 'd', 0x01, 4})
	if err != nil || string(out) != "abcdabcd" {
		t.Fatalf("snappy: %q %v", out, err)
	}
	// lz4: token 0x14 (1 literal, match len 4+4), literal 'a', offset 1, then final literals "b"
	out, err = pqref.LZ4BlockDecode([]byte{0x14, 'a', 0x01, 0x00, 0x10, 'b'}, 100)
	if err != nil || string(out) != "aaaaaaaaab" {
		t.Fatalf("lz4: %q %v", out, err)
	}
}

// ---------------------------------------------------------------------------
// files written by the library

type Inner struct {
	A int32   `parquet:"a"`
	B *string `parquet:"b,optional"`
}

type Row struct {
	Bool     bool             `parquet:"bool"`
	I32      int32            `parquet:"i32"`
	I64      int64            `parquet:"i64"`
	U32      uint32           `parquet:"u32"`
	U64      uint64           `parquet:"u64"`
	F32      float32          `parquet:"f32"`
	F64      float64          `parquet:"f64"`
	Str      string           `parquet:"str"`
	Bytes    []byte           `parquet:"bytes"`
	Fixed    [5]byte          `parquet:"fixed"`
	UUID     [16]byte         `parquet:"uuid,uuid"`
	I96      deprecated.Int96 `parquet:"i96"`
	OptBool  *bool            `parquet:"opt_bool,optional"`
	OptI32   *int32           `parquet:"opt_i32,optional"`
	OptF64   *float64         `parquet:"opt_f64,optional"`
	OptStr   *string          `parquet:"opt_str,optional"`
	DictStr  string           `parquet:"dict_str,dict"`
	DictI64  int64            `parquet:"dict_i64,dict"`
	DictF32  float32          `parquet:"dict_f32,dict"`
	OptDict  *string          `parquet:"opt_dict,optional,dict"`
	DeltaI32 int32            `parquet:"delta_i32,delta"`
	DeltaI64 int64            `parquet:"delta_i64,delta"`
	DeltaStr string           `parquet:"delta_str,delta"`
	OptDelta int64            `parquet:"opt_delta,optional,delta"` // zero value = null
	SplitF32 float32          `parquet:"split_f32,split"`
	SplitF64 float64          `parquet:"split_f64,split"`
	SplitI32 int32            `parquet:"split_i32,split"`
	SplitI64 int64            `parquet:"split_i64,split"`
	SplitFix [3]byte          `parquet:"split_fix,split"`
	List     []int64          `parquet:"list,list"`
	Rep      []string         `parquet:"rep"`
	Nested   []Inner          `parquet:"nested,list"`
	DictList []string         `parquet:"dict_list,list,dict"`
	Map      map[string]int32 `parquet:"map"`
	Sub      *Inner           `parquet:"sub,optional"`
}

func makeRows(n int, seed int64) []Row {
	rng := rand.New(rand.NewSource(seed))
	words := []string{"", "alpha", "beta", "gamma", "delta", "epsilon", "zeta", "a much longer string value than the others"}
	rows := make([]Row, n)
	for i := range rows {
		r := &rows[i]
		r.Bool = rng.Intn(3) == 0
		r.I32 = int32(rng.Uint32())
		r.I64 = int64(rng.Uint64())
		r.U32 = rng.Uint32()
		r.U64 = rng.Uint64()
		r.F32 = float32(rng.NormFloat64())
		r.F64 = rng.NormFloat64() * 1e6
		r.Str = words[rng.Intn(len(words))] + fmt.Sprint(rng.Intn(1000))
		r.Bytes = make([]byte, rng.Intn(12))
		rng.Read(r.Bytes)
		rng.Read(r.Fixed[:])
		rng.Read(r.UUID[:])
		r.I96 = deprecated.Int96{rng.Uint32(), rng.Uint32(), rng.Uint32()}
		if rng.Intn(4) != 0 {
			v := rng.Intn(2) == 0
			r.OptBool = &v
		}
		if rng.Intn(3) != 0 {
			v := int32(rng.Intn(2000) - 1000)
			r.OptI32 = &v
		}
		if rng.Intn(2) == 0 {
			v := rng.Float64()
			r.OptF64 = &v
		}
		// long null stretches produce all-null pages
		if (i/40)%3 != 1 && rng.Intn(5) != 0 {
			v := words[rng.Intn(len(words))]
			r.OptStr = &v
		}
		r.DictStr = words[rng.Intn(len(words))]
		r.DictI64 = int64(rng.Intn(10)) * 1e12
		r.DictF32 = float32(rng.Intn(5)) / 2
		if rng.Intn(3) != 0 {
			v := words[rng.Intn(4)]
			r.OptDict = &v
		}
		r.DeltaI32 = int32(i*3 + rng.Intn(3))
		r.DeltaI64 = int64(rng.Uint64())
		r.DeltaStr = fmt.Sprintf("key/%05d/%s", i/4, words[rng.Intn(len(words))])
		if rng.Intn(4) != 0 {
			r.OptDelta = int64(i)*1000 + 1
		}
		r.SplitF32 = rng.Float32()
		r.SplitF64 = rng.Float64()
		r.SplitI32 = int32(rng.Uint32())
		r.SplitI64 = int64(rng.Uint64())
		rng.Read(r.SplitFix[:])
		for k := rng.Intn(4); k > 0; k-- {
			r.List = append(r.List, int64(rng.Intn(100)))
		}
		for k := rng.Intn(3); k > 0; k-- {
			r.Rep = append(r.Rep, words[rng.Intn(len(words))])
		}
		for k := rng.Intn(3); k > 0; k-- {
			in := Inner{A: int32(rng.Intn(50))}
			if rng.Intn(2) == 0 {
				s := words[rng.Intn(len(words))]
				in.B = &s
			}
			r.Nested = append(r.Nested, in)
		}
		for k := rng.Intn(5); k > 0; k-- {
			r.DictList = append(r.DictList, words[rng.Intn(len(words))])
		}
		if k := rng.Intn(3); k > 0 {
			r.Map = map[string]int32{}
			for ; k > 0; k-- {
				r.Map[words[rng.Intn(len(words))]] = int32(rng.Intn(10))
			}
		}
		if rng.Intn(2) == 0 {
			r.Sub = &Inner{A: int32(i)}
			if rng.Intn(2) == 0 {
				s := "sub"
				r.Sub.B = &s
			}
		}
	}
	return rows
}

func writeFile[T any](t testing.TB, rows []T, opts ...parquet.WriterOption) []byte {
	t.Helper()
	var buf bytes.Buffer
	w := parquet.NewGenericWriter[T](&buf, opts...)
	// several Write calls so that page boundaries do not align with batches
	for len(rows) > 0 {
		n := min(len(rows), 37)
		if _, err := w.Write(rows[:n]); err != nil {
			t.Fatal(err)
		}
		rows = rows[n:]
	}
	if err := w.Close(); err != nil {
		t.Fatal(err)
	}
	return buf.Bytes()
}

func plainOf(v parquet.Value) []byte {
	switch v.Kind() {
	case parquet.Boolean:
		if v.Boolean() {
			return []byte{1}
		}
		return []byte{0}
	case parquet.Int32:
		return le32(uint32(v.Int32()))
	case parquet.Float:
		return le32(math.Float32bits(v.Float()))
	case parquet.Int64:
		return le64(uint64(v.Int64()))
	case parquet.Double:
		return le64(math.Float64bits(v.Double()))
	case parquet.Int96:
		x := v.Int96()
		b := make([]byte, 12)
		binary.LittleEndian.PutUint32(b[0:], x[0])
		binary.LittleEndian.PutUint32(b[4:], x[1])
		binary.LittleEndian.PutUint32(b[8:], x[2])
		return b
	}
	return append([]byte{}, v.ByteArray()...)
}

func flattenTriples(pages []pqref.PageData) []pqref.Triple {
	var out []pqref.Triple
	for _, p := range pages {
		out = append(out, p.Triples...)
	}
	return out
}

// compareWithLibrary checks that ReadColumn returns the same triples as the
// library's own reader, for every column chunk.
func compareWithLibrary(t testing.TB, data []byte, f *pqref.File) {
	t.Helper()
	pf, err := parquet.OpenFile(bytes.NewReader(data), int64(len(data)))
	if err != nil {
		t.Fatalf("library cannot open the file: %v", err)
	}
	for gi, rg := range pf.RowGroups() {
		for ci, chunk := range rg.ColumnChunks() {
			got, err := f.ReadColumn(gi, ci)
			if err != nil {
				t.Fatalf("rg%d/col%d %v: ReadColumn: %v", gi, ci, f.Leaves[ci].Path, err)
			}
			triples := flattenTriples(got)
			pages := chunk.Pages()
			pos := 0
			vals := make([]parquet.Value, 100)
			for {
				page, err := pages.ReadPage()
				if err != nil {
					break
				}
				vr := page.Values()
				for {
					n, err := vr.ReadValues(vals)
					for _, v := range vals[:n] {
						if pos >= len(triples) {
							t.Fatalf("rg%d/col%d: library returns more values than the %d of pqref", gi, ci, len(triples))
						}
						tr := triples[pos]
						if int(tr.Rep) != v.RepetitionLevel() || int(tr.Def) != v.DefinitionLevel() || tr.Null != v.IsNull() {
							t.Fatalf("rg%d/col%d value %d: pqref rep=%d def=%d null=%v, library rep=%d def=%d null=%v", gi, ci, pos, tr.Rep, tr.Def, tr.Null, v.RepetitionLevel(), v.DefinitionLevel(), v.IsNull())
						}
						if !tr.Null {
							if want := plainOf(v); !bytes.Equal(tr.Val, want) {
								t.Fatalf("rg%d/col%d %v value %d: pqref %x, library %x", gi, ci, f.Leaves[ci].Path, pos, tr.Val, want)
							}
						}
						pos++
					}
					if err != nil {
						break
					}
				}
				parquet.Release(page)
			}
			pages.Close()
			if pos != len(triples) {
				t.Fatalf("rg%d/col%d: library returned %d values, pqref %d", gi, ci, pos, len(triples))
			}
		}
	}
}

// knownLibraryDeviations are issue codes that the pinned library is known to
// trigger on valid input; they are findings of the oracle, not oracle bugs
// (see the analysis in TestLibraryFindings). They are logged, not failed.
var knownLibraryDeviations = map[string]string{
	// fixed-width column indexers store a zero value (e.g. 00000000) as
	// min/max of an all-null page; parquet.thrift requires byte[0].
	"column-index-null-page-minmax": "null page min/max not empty",
	// rle.Encoding.EncodeBoolean emits RLE runs of true as 0xFF, not 0x01.
	"rle-run-value-width": "RLE run value wider than bit width",
}

func noIssues(t testing.TB, what string, data []byte) *pqref.File {
	t.Helper()
	f, all := pqref.Check(data)
	var issues []pqref.Issue
	known := map[string]int{}
	for _, is := range all {
		if _, ok := knownLibraryDeviations[is.Code]; ok {
			known[is.Code]++
			continue
		}
		issues = append(issues, is)
	}
	for code, n := range known {
		t.Logf("%s: known library deviation %s x%d", what, code, n)
	}
	if len(issues) > 0 {
		for i, is := range issues {
			if i >= 25 {
				t.Errorf("%s: ... %d more issues", what, len(issues)-i)
				break
			}
			t.Errorf("%s: %v", what, is)
		}
	}
	if f == nil {
		t.Fatalf("%s: Check returned no file", what)
	}
	return f
}

// columnValues returns the non-null values of a leaf over the whole file, and
// the full triples.
func columnTriples(t testing.TB, f *pqref.File, path ...string) []pqref.Triple {
	t.Helper()
	ci := f.LeafIndex(path...)
	if ci < 0 {
		t.Fatalf("no leaf %v", path)
	}
	var out []pqref.Triple
	for gi := range f.RowGroups {
		pages, err := f.ReadColumn(gi, ci)
		if err != nil {
			t.Fatal(err)
		}
		out = append(out, flattenTriples(pages)...)
	}
	return out
}

func expectFlat(t testing.TB, f *pqref.File, name string, n int, val func(i int) []byte) {
	t.Helper()
	triples := columnTriples(t, f, name)
	if len(triples) != n {
		t.Fatalf("column %s: %d values, want %d", name, len(triples), n)
	}
	for i, tr := range triples {
		want := val(i)
		if tr.Rep != 0 {
			t.Fatalf("column %s row %d: rep %d", name, i, tr.Rep)
		}
		if (want == nil) != tr.Null {
			t.Fatalf("column %s row %d: null=%v, want null=%v", name, i, tr.Null, want == nil)
		}
		if want != nil && !bytes.Equal(tr.Val, want) {
			t.Fatalf("column %s row %d: %x, want %x", name, i, tr.Val, want)
		}
	}
}

func checkRowValues(t testing.TB, f *pqref.File, rows []Row) {
	t.Helper()
	n := len(rows)
	b2 := func(b bool) []byte {
		if b {
			return []byte{1}
		}
		return []byte{0}
	}
	expectFlat(t, f, "bool", n, func(i int) []byte { return b2(rows[i].Bool) })
	expectFlat(t, f, "i32", n, func(i int) []byte { return le32(uint32(rows[i].I32)) })
	expectFlat(t, f, "i64", n, func(i int) []byte { return le64(uint64(rows[i].I64)) })
	expectFlat(t, f, "u32", n, func(i int) []byte { return le32(rows[i].U32) })
	expectFlat(t, f, "u64", n, func(i int) []byte { return le64(rows[i].U64) })
	expectFlat(t, f, "f32", n, func(i int) []byte { return le32(math.Float32bits(rows[i].F32)) })
	expectFlat(t, f, "f64", n, func(i int) []byte { return le64(math.Float64bits(rows[i].F64)) })
	expectFlat(t, f, "str", n, func(i int) []byte { return append([]byte{}, rows[i].Str...) })
	expectFlat(t, f, "bytes", n, func(i int) []byte { return append([]byte{}, rows[i].Bytes...) })
	expectFlat(t, f, "fixed", n, func(i int) []byte { return rows[i].Fixed[:] })
	expectFlat(t, f, "uuid", n, func(i int) []byte { return rows[i].UUID[:] })
	expectFlat(t, f, "i96", n, func(i int) []byte {
		b := make([]byte, 12)
		for k := 0; k < 3; k++ {
			binary.LittleEndian.PutUint32(b[4*k:], rows[i].I96[k])
		}
		return b
	})
	expectFlat(t, f, "opt_bool", n, func(i int) []byte {
		if rows[i].OptBool == nil {
			return nil
		}
		return b2(*rows[i].OptBool)
	})
	expectFlat(t, f, "opt_i32", n, func(i int) []byte {
		if rows[i].OptI32 == nil {
			return nil
		}
		return le32(uint32(*rows[i].OptI32))
	})
	expectFlat(t, f, "opt_f64", n, func(i int) []byte {
		if rows[i].OptF64 == nil {
			return nil
		}
		return le64(math.Float64bits(*rows[i].OptF64))
	})
	expectFlat(t, f, "opt_str", n, func(i int) []byte {
		if rows[i].OptStr == nil {
			return nil
		}
		return append([]byte{}, *rows[i].OptStr...)
	})
	expectFlat(t, f, "dict_str", n, func(i int) []byte { return append([]byte{}, rows[i].DictStr...) })
	expectFlat(t, f, "dict_i64", n, func(i int) []byte { return le64(uint64(rows[i].DictI64)) })
	expectFlat(t, f, "dict_f32", n, func(i int) []byte { return le32(math.Float32bits(rows[i].DictF32)) })
	expectFlat(t, f, "opt_dict", n, func(i int) []byte {
		if rows[i].OptDict == nil {
			return nil
		}
		return append([]byte{}, *rows[i].OptDict...)
	})
	expectFlat(t, f, "delta_i32", n, func(i int) []byte { return le32(uint32(rows[i].DeltaI32)) })
	expectFlat(t, f, "delta_i64", n, func(i int) []byte { return le64(uint64(rows[i].DeltaI64)) })
	expectFlat(t, f, "delta_str", n, func(i int) []byte { return append([]byte{}, rows[i].DeltaStr...) })
	expectFlat(t, f, "opt_delta", n, func(i int) []byte {
		if rows[i].OptDelta == 0 {
			return nil
		}
		return le64(uint64(rows[i].OptDelta))
	})
	expectFlat(t, f, "split_f32", n, func(i int) []byte { return le32(math.Float32bits(rows[i].SplitF32)) })
	expectFlat(t, f, "split_f64", n, func(i int) []byte { return le64(math.Float64bits(rows[i].SplitF64)) })
	expectFlat(t, f, "split_i32", n, func(i int) []byte { return le32(uint32(rows[i].SplitI32)) })
	expectFlat(t, f, "split_i64", n, func(i int) []byte { return le64(uint64(rows[i].SplitI64)) })
	expectFlat(t, f, "split_fix", n, func(i int) []byte { return rows[i].SplitFix[:] })

	// Dremel levels computed by hand.
	// list: optional group list (LIST) { repeated group list { required int64 element } }
	// (a nil Go slice is written as an empty or null list depending on the
	// schema; accept def 0 or 1 for empties but require the right shape)
	{
		ci := f.LeafIndex("list", "list", "element")
		if ci < 0 {
			t.Fatalf("no list leaf; leaves: %v", leafPaths(f))
		}
		leaf := f.Leaves[ci]
		triples := columnTriples(t, f, leaf.Path...)
		pos := 0
		for i, r := range rows {
			if len(r.List) == 0 {
				tr := triples[pos]
				if tr.Rep != 0 || !tr.Null || int(tr.Def) >= leaf.MaxDef {
					t.Fatalf("list row %d: empty list encoded as %+v", i, tr)
				}
				pos++
				continue
			}
			for k, v := range r.List {
				tr := triples[pos]
				wantRep := int32(1)
				if k == 0 {
					wantRep = 0
				}
				if tr.Rep != wantRep || tr.Null || int(tr.Def) != leaf.MaxDef || !bytes.Equal(tr.Val, le64(uint64(v))) {
					t.Fatalf("list row %d elem %d: %+v", i, k, tr)
				}
				pos++
			}
		}
		if pos != len(triples) {
			t.Fatalf("list: %d triples, consumed %d", len(triples), pos)
		}
	}
	// rep: repeated binary
	{
		triples := columnTriples(t, f, "rep")
		pos := 0
		for i, r := range rows {
			if len(r.Rep) == 0 {
				tr := triples[pos]
				if tr.Rep != 0 || tr.Def != 0 || !tr.Null {
					t.Fatalf("rep row %d: %+v", i, tr)
				}
				pos++
				continue
			}
			for k, v := range r.Rep {
				tr := triples[pos]
				if (k == 0) != (tr.Rep == 0) || tr.Def != 1 || string(tr.Val) != v {
					t.Fatalf("rep row %d elem %d: %+v", i, k, tr)
				}
				pos++
			}
		}
		if pos != len(triples) {
			t.Fatalf("rep: %d triples, consumed %d", len(triples), pos)
		}
	}
	// nested.list.element.b : optional leaf inside a repeated group
	{
		ci := f.LeafIndex("nested", "list", "element", "b")
		if ci < 0 {
			t.Fatalf("no nested b leaf; leaves: %v", leafPaths(f))
		}
		leaf := f.Leaves[ci]
		triples := columnTriples(t, f, leaf.Path...)
		pos := 0
		for i, r := range rows {
			if len(r.Nested) == 0 {
				if tr := triples[pos]; tr.Rep != 0 || !tr.Null || int(tr.Def) > leaf.MaxDef-2 {
					t.Fatalf("nested row %d: %+v", i, tr)
				}
				pos++
				continue
			}
			for k, in := range r.Nested {
				tr := triples[pos]
				if (k == 0) != (tr.Rep == 0) {
					t.Fatalf("nested row %d elem %d: %+v", i, k, tr)
				}
				if in.B == nil {
					if !tr.Null || int(tr.Def) != leaf.MaxDef-1 {
						t.Fatalf("nested row %d elem %d (null b): %+v", i, k, tr)
					}
				} else if tr.Null || int(tr.Def) != leaf.MaxDef || string(tr.Val) != *in.B {
					t.Fatalf("nested row %d elem %d: %+v want %q", i, k, tr, *in.B)
				}
				pos++
			}
		}
		if pos != len(triples) {
			t.Fatalf("nested: %d triples, consumed %d", len(triples), pos)
		}
	}
}

func leafPaths(f *pqref.File) []string {
	var out []string
	for _, l := range f.Leaves {
		out = append(out, strings.Join(l.Path, "."))
	}
	return out
}

// isLZ4 reports whether codec is LZ4_RAW. The pinned library mis-decodes its
// own LZ4_RAW pages once they exceed roughly 1.5 KiB (see
// TestLibraryFindings): reading returns garbage without error, and the writer,
// which reads pages back to fill the bloom filters of non-dictionary columns,
// either fails or writes filters that miss the real values. pqref decodes
// those pages correctly (verified against the rows written), so for LZ4_RAW
// the tests use no bloom filters and do not compare with the library's reader.
func isLZ4(codec compress.Codec) bool {
	return codec != nil && codec.CompressionCodec() == parquet.Lz4Raw.CompressionCodec()
}

func bloomOptions(codec compress.Codec) parquet.WriterOption {
	if isLZ4(codec) {
		return parquet.BloomFilters()
	}
	return parquet.BloomFilters(bloomColumns()...)
}

func bloomColumns() []parquet.BloomFilterColumn {
	return []parquet.BloomFilterColumn{
		parquet.SplitBlockFilter(10, "str"),
		parquet.SplitBlockFilter(10, "bytes"),
		parquet.SplitBlockFilter(10, "i32"),
		parquet.SplitBlockFilter(10, "i64"),
		parquet.SplitBlockFilter(10, "u32"),
		parquet.SplitBlockFilter(10, "f32"),
		parquet.SplitBlockFilter(10, "f64"),
		parquet.SplitBlockFilter(10, "fixed"),
		parquet.SplitBlockFilter(10, "uuid"),
		parquet.SplitBlockFilter(10, "i96"),
		parquet.SplitBlockFilter(10, "opt_str"),
		parquet.SplitBlockFilter(10, "dict_str"),
		parquet.SplitBlockFilter(10, "opt_dict"),
		parquet.SplitBlockFilter(10, "delta_str"),
		parquet.SplitBlockFilter(10, "list", "list", "element"),
		parquet.SplitBlockFilter(10, "rep"),
	}
}

func TestLibraryFiles(t *testing.T) {
	codecs := []compress.Codec{&parquet.Uncompressed, &parquet.Snappy, &parquet.Gzip, &parquet.Zstd, &parquet.Brotli, &parquet.Lz4Raw}
	rows := makeRows(1000, 7)
	for _, version := range []int{1, 2} {
		for _, codec := range codecs {
			for _, pageSize := range []int{200, 4096} {
				name := fmt.Sprintf("v%d/%v/page%d", version, codec, pageSize)
				t.Run(name, func(t *testing.T) {
					data := writeFile(t, rows,
						parquet.DataPageVersion(version),
						parquet.Compression(codec),
						parquet.PageBufferSize(pageSize),
						parquet.MaxRowsPerRowGroup(400),
						parquet.DataPageStatistics(true),
						parquet.KeyValueMetadata("hello", "world"),
						bloomOptions(codec),
					)
					f := noIssues(t, name, data)
					if f.NumRows != int64(len(rows)) || len(f.RowGroups) != 3 {
						t.Fatalf("num_rows %d, %d row groups", f.NumRows, len(f.RowGroups))
					}
					if len(f.KeyValue) == 0 || f.KeyValue[0].Key != "hello" || f.KeyValue[0].Value == nil || *f.KeyValue[0].Value != "world" {
						t.Errorf("key value metadata: %+v", f.KeyValue)
					}
					// the features we meant to exercise are really there
					stats := map[string]int{}
					for gi := range f.RowGroups {
						for ci := range f.Leaves {
							pages, err := f.Pages(gi, ci)
							if err != nil {
								t.Fatal(err)
							}
							m := f.RowGroups[gi].Columns[ci].Meta
							stats[fmt.Sprintf("codec%d", m.Codec)]++
							if m.BloomFilterOffset != nil {
								stats["bloom"]++
							}
							nd := 0
							for _, p := range pages {
								stats[fmt.Sprintf("type%d", p.Type)]++
								if p.Type != pqref.PageTypeDictionary {
									stats[fmt.Sprintf("enc%d", p.Encoding)]++
									nd++
								}
								if p.CRC != nil {
									stats["crc"]++
								}
							}
							if nd > 1 {
								stats["multipage"]++
							}
							if oi, err := f.ReadOffsetIndex(gi, ci); err != nil || oi == nil {
								t.Fatalf("offset index: %v %v", oi, err)
							}
							if x, err := f.ReadColumnIndex(gi, ci); err != nil || x == nil {
								t.Fatalf("column index: %v %v", x, err)
							}
						}
					}
					wantKeys := []string{"multipage", "type2", "enc0", "enc5", "enc7", "enc8", "enc9"}
					if !isLZ4(codec) {
						wantKeys = append(wantKeys, "bloom")
					}
					if version == 1 {
						wantKeys = append(wantKeys, "type0")
					} else {
						wantKeys = append(wantKeys, "type3")
					}
					for _, k := range wantKeys {
						if stats[k] == 0 {
							t.Errorf("feature %q is not exercised: %v", k, stats)
						}
					}
					checkRowValues(t, f, rows)
					if !isLZ4(codec) {
						compareWithLibrary(t, data, f)
					}
				})
			}
		}
	}
}

type AltRow struct {
	B    bool     `parquet:"b"`
	OB   *bool    `parquet:"ob,optional"`
	S    string   `parquet:"s"`
	OS   *string  `parquet:"os,optional"`
	L    []string `parquet:"l,list"`
	I    int32    `parquet:"i"`
	U8   uint8    `parquet:"u8"`
	I16  int16    `parquet:"i16"`
	F    float64  `parquet:"f"`
	Date int32    `parquet:"date,date"`
	Dec  int64    `parquet:"dec,decimal(2:18)"`
}

// Default encodings: DELTA_LENGTH_BYTE_ARRAY for byte arrays, RLE booleans,
// DELTA_BINARY_PACKED ints.
func TestLibraryFilesDefaultEncodings(t *testing.T) {
	rng := rand.New(rand.NewSource(9))
	rows := make([]AltRow, 777)
	for i := range rows {
		r := &rows[i]
		r.B = (i/30)%2 == 0 || rng.Intn(10) == 0
		if rng.Intn(5) != 0 {
			v := rng.Intn(2) == 0
			r.OB = &v
		}
		r.S = fmt.Sprintf("value-%d", rng.Intn(100000))
		if rng.Intn(3) == 0 {
			v := strings.Repeat("x", rng.Intn(30))
			r.OS = &v
		}
		for k := rng.Intn(4); k > 0; k-- {
			r.L = append(r.L, fmt.Sprint(rng.Intn(50)))
		}
		r.I = int32(rng.Uint32())
		r.U8 = uint8(rng.Intn(256))
		r.I16 = int16(rng.Intn(65536) - 32768)
		r.F = rng.NormFloat64()
		if i%50 == 0 {
			r.F = math.NaN()
		}
		if i%51 == 0 {
			r.F = math.Copysign(0, -1)
		}
		r.Date = int32(rng.Intn(20000))
		r.Dec = int64(rng.Intn(2000000) - 1000000)
	}
	for _, version := range []int{1, 2} {
		for _, codec := range []compress.Codec{&parquet.Uncompressed, &parquet.Snappy, &parquet.Zstd} {
			name := fmt.Sprintf("v%d/%v", version, codec)
			t.Run(name, func(t *testing.T) {
				data := writeFile(t, rows,
					parquet.DataPageVersion(version),
					parquet.Compression(codec),
					parquet.PageBufferSize(300),
					parquet.MaxRowsPerRowGroup(500),
					parquet.DefaultEncodingFor(parquet.ByteArray, &parquet.DeltaLengthByteArray),
					parquet.DefaultEncodingFor(parquet.Boolean, &parquet.RLE),
					parquet.DefaultEncodingFor(parquet.Int32, &parquet.DeltaBinaryPacked),
					parquet.DefaultEncodingFor(parquet.Int64, &parquet.DeltaBinaryPacked),
					// no filter on the boolean column: see TestLibraryFindings
					parquet.BloomFilters(parquet.SplitBlockFilter(12, "s"), parquet.SplitBlockFilter(12, "f"), parquet.SplitBlockFilter(12, "dec")),
				)
				f := noIssues(t, name, data)
				encs := map[int32]int{}
				for gi := range f.RowGroups {
					for ci := range f.Leaves {
						pages, err := f.Pages(gi, ci)
						if err != nil {
							t.Fatal(err)
						}
						for _, p := range pages {
							encs[p.Encoding]++
						}
					}
				}
				for _, e := range []int32{pqref.EncRLE, pqref.EncDeltaLengthByteArray, pqref.EncDeltaBinaryPacked} {
					if encs[e] == 0 {
						t.Errorf("encoding %d is not exercised: %v", e, encs)
					}
				}
				n := len(rows)
				expectFlat(t, f, "b", n, func(i int) []byte {
					if rows[i].B {
						return []byte{1}
					}
					return []byte{0}
				})
				expectFlat(t, f, "ob", n, func(i int) []byte {
					if rows[i].OB == nil {
						return nil
					}
					if *rows[i].OB {
						return []byte{1}
					}
					return []byte{0}
				})
				expectFlat(t, f, "s", n, func(i int) []byte { return append([]byte{}, rows[i].S...) })
				expectFlat(t, f, "os", n, func(i int) []byte {
					if rows[i].OS == nil {
						return nil
					}
					return append([]byte{}, *rows[i].OS...)
				})
				expectFlat(t, f, "i", n, func(i int) []byte { return le32(uint32(rows[i].I)) })
				expectFlat(t, f, "u8", n, func(i int) []byte { return le32(uint32(rows[i].U8)) })
				expectFlat(t, f, "i16", n, func(i int) []byte { return le32(uint32(int32(rows[i].I16))) })
				expectFlat(t, f, "f", n, func(i int) []byte { return le64(math.Float64bits(rows[i].F)) })
				expectFlat(t, f, "dec", n, func(i int) []byte { return le64(uint64(rows[i].Dec)) })
				if l := f.Leaves[f.LeafIndex("u8")]; !l.Unsigned {
					t.Errorf("u8 leaf is not unsigned: %+v", l.Element)
				}
				compareWithLibrary(t, data, f)
			})
		}
	}
}

// Sorted data: the writer then declares ASCENDING/DESCENDING boundary orders.
type SortedRow struct {
	Asc    int64    `parquet:"asc"`
	Desc   int64    `parquet:"desc"`
	AscS   string   `parquet:"asc_s"`
	OptAsc *int32   `parquet:"opt_asc,optional"`
	F      float32  `parquet:"f"`
	U      uint64   `parquet:"u"`
	Fix    [4]byte  `parquet:"fix"`
	Same   int32    `parquet:"same"`
	Nulls  *int64   `parquet:"nulls,optional"`
	L      []uint32 `parquet:"l,list"`
}

func TestLibraryFilesSorted(t *testing.T) {
	rows := make([]SortedRow, 600)
	for i := range rows {
		r := &rows[i]
		r.Asc = int64(i/3) - 100
		r.Desc = int64(1000 - i/2)
		r.AscS = fmt.Sprintf("%08d", i)
		if (i/25)%2 == 0 {
			v := int32(i) - 300
			r.OptAsc = &v
		}
		r.F = float32(i) - 300.5
		r.U = uint64(i) << 55 // crosses the sign bit: unsigned order matters
		binary.BigEndian.PutUint32(r.Fix[:], uint32(i)<<24|uint32(i))
		r.Same = 7
		r.L = []uint32{uint32(i), uint32(i) << 24}
	}
	for _, version := range []int{1, 2} {
		data := writeFile(t, rows, parquet.DataPageVersion(version), parquet.PageBufferSize(128), parquet.MaxRowsPerRowGroup(250))
		f := noIssues(t, fmt.Sprintf("sorted v%d", version), data)
		orders := map[int32]int{}
		for gi := range f.RowGroups {
			for ci := range f.Leaves {
				x, err := f.ReadColumnIndex(gi, ci)
				if err != nil || x == nil {
					t.Fatal(x, err)
				}
				orders[x.BoundaryOrder]++
			}
		}
		if orders[1] == 0 || orders[2] == 0 {
			t.Errorf("boundary orders seen: %v", orders)
		}
		compareWithLibrary(t, data, f)
	}
}

func TestEmptyAndTiny(t *testing.T) {
	for _, version := range []int{1, 2} {
		for n := 0; n <= 3; n++ {
			rows := makeRows(n, int64(n))
			data := writeFile(t, rows, parquet.DataPageVersion(version), bloomOptions(nil))
			f := noIssues(t, fmt.Sprintf("v%d n=%d", version, n), data)
			if f.NumRows != int64(n) {
				t.Fatalf("num rows %d", f.NumRows)
			}
			if n > 0 {
				checkRowValues(t, f, rows)
				compareWithLibrary(t, data, f)
			}
		}
	}
}

// ---------------------------------------------------------------------------
// the checker detects what it claims to detect

func codesOf(issues []pqref.Issue) []string {
	set := map[string]bool{}
	for _, i := range issues {
		set[i.Code] = true
	}
	var out []string
	for c := range set {
		out = append(out, c)
	}
	sort.Strings(out)
	return out
}

func hasCode(issues []pqref.Issue, code string) bool {
	for _, i := range issues {
		if i.Code == code {
			return true
		}
	}
	return false
}

func TestCheckDetectsCorruption(t *testing.T) {
	known := map[string]bool{}
	for _, c := range pqref.IssueCodes {
		if known[c] {
			t.Errorf("duplicate issue code %q", c)
		}
		known[c] = true
	}
	rows := makeRows(300, 11)
	for _, version := range []int{1, 2} {
		for _, codec := range []compress.Codec{&parquet.Uncompressed, &parquet.Snappy} {
			data := writeFile(t, rows, parquet.DataPageVersion(version), parquet.Compression(codec), parquet.PageBufferSize(512), parquet.MaxRowsPerRowGroup(200), bloomOptions(codec))
			f := noIssues(t, "base", data)

			// 1. flip one byte in every page body: the CRC (if written) or some other check must fire.
			flips, crcs := 0, 0
			for gi := range f.RowGroups {
				for ci := range f.Leaves {
					pages, _ := f.Pages(gi, ci)
					for pi, p := range pages {
						if p.BodyLen == 0 || (gi+ci+pi)%7 != 0 {
							continue
						}
						bad := append([]byte(nil), data...)
						bad[p.BodyOffset+int64(p.BodyLen)/2] ^= 0x55
						_, issues := pqref.Check(bad)
						flips++
						if p.CRC != nil {
							crcs++
							if !hasCode(issues, "crc-mismatch") {
								t.Fatalf("v%d %v rg%d/col%d/page%d: body corruption not detected by CRC: %v", version, codec, gi, ci, pi, codesOf(issues))
							}
						}
					}
				}
			}
			t.Logf("v%d %v: %d body flips, %d with CRC", version, codec, flips, crcs)

			// 2. random single-byte corruptions anywhere: never panic, and every
			// reported code is a documented one.
			rng := rand.New(rand.NewSource(12))
			detected := 0
			const trials = 1500
			for k := 0; k < trials; k++ {
				bad := append([]byte(nil), data...)
				pos := rng.Intn(len(bad))
				if k%3 == 0 { // concentrate on the footer
					pos = int(f.FooterOffset) + rng.Intn(int(f.FooterLen))
				}
				bad[pos] ^= byte(1 << uint(rng.Intn(8)))
				_, issues := pqref.Check(bad)
				if len(issues) > 0 {
					detected++
				}
				for _, is := range issues {
					if !known[is.Code] {
						t.Errorf("undocumented issue code %q: %v", is.Code, is)
					}
					if is.Code == "internal-panic" {
						t.Fatalf("panic while checking corrupted file (byte %d): %v", pos, is)
					}
				}
			}
			t.Logf("v%d %v: %d/%d single-bit corruptions detected", version, codec, detected, trials)

			// 3. truncations
			for k := 0; k < 200; k++ {
				cut := rng.Intn(len(data))
				_, issues := pqref.Check(data[:cut])
				if len(issues) == 0 {
					t.Fatalf("truncation to %d bytes not detected", cut)
				}
				bad := append(append([]byte(nil), data[:cut]...), data[len(data)-8-int(f.FooterLen):]...)
				pqref.Check(bad)
			}
		}
	}
}

// Targeted metadata corruptions, done by rewriting the footer with the
// library's own thrift structures.
func TestCheckTargetedMetadata(t *testing.T) {
	rows := makeRows(300, 13)
	data := writeFile(t, rows, parquet.PageBufferSize(512), parquet.MaxRowsPerRowGroup(200), bloomOptions(nil), parquet.DataPageStatistics(true))
	f := noIssues(t, "base", data)
	i64 := f.LeafIndex("i64")
	optStr := f.LeafIndex("opt_str")

	// helper: find and patch a little-endian/varint free field is hard in
	// thrift, so instead mutate bytes located through the oracle's own
	// offsets: statistics min_value bytes are stored verbatim in the footer.
	m := f.RowGroups[0].Columns[i64].Meta
	if m.Statistics == nil || !m.Statistics.HasMinValue {
		t.Fatal("no statistics on i64")
	}
	// Make min larger than every value: replace the footer occurrence of min_value by max_value.
	footer := data[f.FooterOffset : f.FooterOffset+f.FooterLen]
	idx := bytes.Index(footer, m.Statistics.MinValue)
	if idx < 0 {
		t.Fatal("min_value bytes not found in footer")
	}
	bad := append([]byte(nil), data...)
	copy(bad[int(f.FooterOffset)+idx:], m.Statistics.MaxValue)
	_, issues := pqref.Check(bad)
	if !hasCode(issues, "stats-min-bound") {
		t.Errorf("min_value corruption not detected: %v", codesOf(issues))
	}

	// Corrupt the column index of opt_str: flip a null_pages boolean.
	cc := f.RowGroups[0].Columns[optStr]
	x, err := f.ReadColumnIndex(0, optStr)
	if err != nil || x == nil {
		t.Fatal(err)
	}
	// the null_pages list is the first field: header byte, list header, then one byte per page
	off := int(*cc.ColumnIndexOffset)
	hdr := 2
	if len(x.NullPages) >= 15 {
		hdr = 3
	}
	bad = append([]byte(nil), data...)
	if bad[off+hdr] == 1 { // element 0: true is 1, false is 2 (or 0)
		bad[off+hdr] = 2
	} else {
		bad[off+hdr] = 1
	}
	_, issues = pqref.Check(bad)
	if !hasCode(issues, "column-index-null-pages") {
		t.Errorf("null_pages corruption not detected: %v", codesOf(issues))
	}

	// Corrupt the bloom filter bitset: zero it.
	strCol := f.LeafIndex("str")
	b, err := f.ReadBloomFilter(0, strCol)
	if err != nil || b == nil {
		t.Fatal(b, err)
	}
	bad = append([]byte(nil), data...)
	start := int(b.Offset) + b.HeaderLen
	for i := 0; i < int(b.NumBytes); i++ {
		bad[start+i] = 0
	}
	_, issues = pqref.Check(bad)
	if !hasCode(issues, "bloom-miss") {
		t.Errorf("bloom corruption not detected: %v", codesOf(issues))
	}
	// and all values do probe true on the intact filter, absent ones mostly false
	pages, _ := f.ReadColumn(0, strCol)
	for _, tr := range flattenTriples(pages) {
		if !b.Check(tr.Val) {
			t.Fatalf("bloom filter misses %q", tr.Val)
		}
	}
	falsePositives := 0
	for i := 0; i < 1000; i++ {
		if b.Check([]byte(fmt.Sprintf("definitely-absent-%d", i))) {
			falsePositives++
		}
	}
	if falsePositives > 100 {
		t.Errorf("%d/1000 false positives", falsePositives)
	}

	// Offset index: shift first_row_index of the second page of i64.
	oi, err := f.ReadOffsetIndex(0, i64)
	if err != nil || oi == nil || len(oi.PageLocations) < 2 {
		t.Fatal(oi, err)
	}
	// swap the whole offset index with the one of another column of different page layout
	other := f.LeafIndex("bool")
	oo := f.RowGroups[0].Columns[other]
	mine := f.RowGroups[0].Columns[i64]
	if *oo.OffsetIndexLength != *mine.OffsetIndexLength {
		bad = append([]byte(nil), data...)
		n := min(int(*oo.OffsetIndexLength), int(*mine.OffsetIndexLength))
		copy(bad[*mine.OffsetIndexOffset:*mine.OffsetIndexOffset+int64(n)], data[*oo.OffsetIndexOffset:*oo.OffsetIndexOffset+int64(n)])
		_, issues = pqref.Check(bad)
		if len(issues) == 0 {
			t.Errorf("offset index corruption not detected")
		}
	}
}

// ---------------------------------------------------------------------------
// files written by other implementations

func TestTestdata(t *testing.T) {
	files, err := filepath.Glob("/repo/testdata/*.parquet")
	if err != nil || len(files) == 0 {
		t.Skip("no testdata")
	}
	for _, path := range files {
		data, err := os.ReadFile(path)
		if err != nil {
			t.Fatal(err)
		}
		name := filepath.Base(path)
		f, err := pqref.Parse(data)
		if err != nil {
			t.Logf("%-45s skipped: %v", name, err)
			continue
		}
		f2, issues := pqref.Check(data)
		if f2 == nil {
			t.Errorf("%s: Parse succeeded but Check returned no file", name)
			continue
		}
		for _, is := range issues {
			if is.Code == "internal-panic" {
				t.Errorf("%s: %v", name, is)
			}
		}
		counts := map[string]int{}
		for _, is := range issues {
			counts[is.Code]++
		}
		var parts []string
		for _, c := range codesOf(issues) {
			parts = append(parts, fmt.Sprintf("%s x%d", c, counts[c]))
		}
		t.Logf("%-45s rows=%-7d rgs=%-3d leaves=%-3d issues: %s", name, f.NumRows, len(f.RowGroups), len(f.Leaves), strings.Join(parts, ", "))
		if testing.Verbose() {
			shown := map[string]bool{}
			for _, is := range issues {
				if !shown[is.Code] {
					shown[is.Code] = true
					t.Logf("    e.g. %v", is)
				}
			}
		}
		// Decoding must agree with the library wherever both succeed.
		if len(issues) == 0 {
			func() {
				defer func() {
					if p := recover(); p != nil {
						t.Logf("    library panicked reading %s: %v", name, p)
					}
				}()
				compareWithLibrary(t, data, f)
			}()
		}
	}
}

// ---------------------------------------------------------------------------
// Reproductions of the library inconsistencies found with the oracle. These
// never fail: they log whether each finding still reproduces.

type findBool struct {
	B bool `parquet:"b"`
}

type findOptInt struct {
	V *int32 `parquet:"v,optional"`
}

type findInt struct {
	V int32 `parquet:"v"`
}

type findStr struct {
	S string `parquet:"s"`
}

func writeQuiet[T any](rows []T, opts ...parquet.WriterOption) ([]byte, error) {
	var buf bytes.Buffer
	w := parquet.NewGenericWriter[T](&buf, opts...)
	if _, err := w.Write(rows); err != nil {
		return nil, err
	}
	if err := w.Close(); err != nil {
		return nil, err
	}
	return buf.Bytes(), nil
}

func logFinding(t *testing.T, name string, reproduced bool, detail string) {
	state := "NOT reproduced (fixed?)"
	if reproduced {
		state = "reproduced"
	}
	t.Logf("FINDING %-28s %s: %s", name, state, detail)
}

func TestLibraryFindings(t *testing.T) {
	// 1. RLE boolean values: runs of true are written as <header> 0xFF.
	{
		rows := make([]findBool, 64)
		for i := range rows {
			rows[i].B = true
		}
		data, err := writeQuiet(rows, parquet.DefaultEncodingFor(parquet.Boolean, &parquet.RLE))
		if err != nil {
			t.Fatal(err)
		}
		_, issues := pqref.Check(data)
		logFinding(t, "rle-run-value-width", hasCode(issues, "rle-run-value-width"), fmt.Sprintf("64 x true, RLE boolean column: %v", issues))
	}
	// 2. column index of an all-null page of a fixed-width column has min/max 00000000 instead of empty.
	{
		rows := make([]findOptInt, 3)
		data, err := writeQuiet(rows)
		if err != nil {
			t.Fatal(err)
		}
		_, issues := pqref.Check(data)
		logFinding(t, "column-index-null-page-minmax", hasCode(issues, "column-index-null-page-minmax"), fmt.Sprintf("3 null rows, optional int32: %v", issues))
	}
	// 3. bloom filter of a BOOLEAN column holds hashes of the bit-packed bytes, not of the values.
	{
		rows := make([]findBool, 16)
		for i := range rows {
			rows[i].B = i%3 == 0
		}
		data, err := writeQuiet(rows, parquet.BloomFilters(parquet.SplitBlockFilter(10, "b")))
		if err != nil {
			t.Fatal(err)
		}
		_, issues := pqref.Check(data)
		logFinding(t, "bloom-miss (boolean)", hasCode(issues, "bloom-miss"), fmt.Sprintf("16 booleans with a bloom filter: %v", issues))
	}
	// 4. LZ4_RAW: the library does not read back what it wrote.
	for _, n := range []int{300, 400, 1000} {
		rng := rand.New(rand.NewSource(1))
		rows := make([]findInt, n)
		for i := range rows {
			rows[i].V = int32(rng.Uint32())
		}
		data, err := writeQuiet(rows, parquet.Compression(&parquet.Lz4Raw))
		if err != nil {
			t.Fatal(err)
		}
		f, issues := pqref.Check(data)
		pages, err := f.ReadColumn(0, 0)
		if err != nil {
			t.Fatal(err)
		}
		oracleBad := 0
		for i, tr := range flattenTriples(pages) {
			if !bytes.Equal(tr.Val, le32(uint32(rows[i].V))) {
				oracleBad++
			}
		}
		got, err := parquet.Read[findInt](bytes.NewReader(data), int64(len(data)))
		libBad := 0
		for i := range got {
			if got[i] != rows[i] {
				libBad++
			}
		}
		logFinding(t, "lz4-read-garbage", libBad > 0 || err != nil, fmt.Sprintf("%d random int32, LZ4_RAW: pqref issues %v, pqref wrong values %d; parquet.Read err=%v, wrong rows %d/%d", n, codesOf(issues), oracleBad, err, libBad, len(got)))
		if oracleBad != 0 {
			t.Errorf("pqref itself decodes the LZ4_RAW file wrongly")
		}
		data, err = writeQuiet(rows, parquet.Compression(&parquet.Lz4Raw), parquet.BloomFilters(parquet.SplitBlockFilter(10, "v")))
		if err != nil {
			logFinding(t, "lz4-bloom-readback", true, fmt.Sprintf("%d random int32, LZ4_RAW + bloom filter: writer error %v", n, err))
		} else {
			_, issues = pqref.Check(data)
			logFinding(t, "lz4-bloom-readback", hasCode(issues, "bloom-miss"), fmt.Sprintf("%d random int32, LZ4_RAW + bloom filter: %v", n, issues))
		}
	}
	{
		rows := make([]findStr, 400)
		for i := range rows {
			rows[i].S = fmt.Sprintf("alpha%d", i)
		}
		_, err := writeQuiet(rows, parquet.Compression(&parquet.Lz4Raw), parquet.BloomFilters(parquet.SplitBlockFilter(10, "s")))
		logFinding(t, "lz4-bloom-readback", err != nil, fmt.Sprintf("400 strings, LZ4_RAW + bloom filter: writer error: %v", err))
	}
}

func TestCompressedBloomFilter(t *testing.T) {
	rows := makeRows(200, 21)
	data := writeFile(t, rows, bloomOptions(nil), parquet.BloomFilterCompression(&parquet.Gzip))
	f := noIssues(t, "compressed bloom", data)
	ci := f.LeafIndex("str")
	b, err := f.ReadBloomFilter(0, ci)
	if err != nil || b == nil {
		t.Fatal(b, err)
	}
	if !b.Compressed || b.Bitset != nil || b.NumBytes <= 0 || b.HeaderLen <= 0 {
		t.Errorf("compressed bloom filter header: %+v", b)
	}
	if b, err := f.ReadBloomFilter(0, f.LeafIndex("bool")); b != nil || err != nil {
		t.Errorf("absent bloom filter: %v %v", b, err)
	}
}
