package pqref

import (
	"fmt"
	"math"
)

// Minimal Thrift compact-protocol reader, written from the protocol
// description (thrift/doc/specs/thrift-compact-protocol.md).
//
// The reader uses a sticky error: after the first failure every read returns a
// zero value, so decoding code can be written without per-call error checks.

const (
	tStop   = 0
	tTrue   = 1
	tFalse  = 2
	tByte   = 3
	tI16    = 4
	tI32    = 5
	tI64    = 6
	tDouble = 7
	tBinary = 8
	tList   = 9
	tSet    = 10
	tMap    = 11
	tStruct = 12
	tUUID   = 13
)

const maxThriftDepth = 48

type tr struct {
	b   []byte
	pos int
	err error
}

func (r *tr) fail(format string, args ...any) {
	if r.err == nil {
		r.err = fmt.Errorf("thrift: %s (at byte %d of %d)", fmt.Sprintf(format, args...), r.pos, len(r.b))
	}
}

func (r *tr) remaining() int { return len(r.b) - r.pos }

func (r *tr) byte() byte {
	if r.err != nil {
		return 0
	}
	if r.pos >= len(r.b) {
		r.fail("unexpected end of data")
		return 0
	}
	c := r.b[r.pos]
	r.pos++
	return c
}

func (r *tr) uvarint() uint64 {
	var v uint64
	var shift uint
	for i := 0; i < 10; i++ {
		c := r.byte()
		if r.err != nil {
			return 0
		}
		v |= uint64(c&0x7f) << shift
		if c&0x80 == 0 {
			if i == 9 && c > 1 {
				r.fail("varint overflows 64 bits")
				return 0
			}
			return v
		}
		shift += 7
	}
	r.fail("varint longer than 10 bytes")
	return 0
}

func (r *tr) varint() int64 {
	u := r.uvarint()
	return int64(u>>1) ^ -int64(u&1)
}

func (r *tr) want(t byte, expect byte, what string) bool {
	if r.err != nil {
		return false
	}
	if t != expect {
		r.fail("%s: wire type %d, expected %d", what, t, expect)
		return false
	}
	return true
}

func (r *tr) boolean(t byte) bool {
	if r.err != nil {
		return false
	}
	switch t {
	case tTrue:
		return true
	case tFalse:
		return false
	}
	r.fail("bool: wire type %d", t)
	return false
}

func (r *tr) i8(t byte) int8 {
	if !r.want(t, tByte, "i8") {
		return 0
	}
	return int8(r.byte())
}

func (r *tr) i16(t byte) int16 {
	if !r.want(t, tI16, "i16") {
		return 0
	}
	v := r.varint()
	if v < math.MinInt16 || v > math.MaxInt16 {
		r.fail("i16 out of range: %d", v)
		return 0
	}
	return int16(v)
}

func (r *tr) i32(t byte) int32 {
	if !r.want(t, tI32, "i32") {
		return 0
	}
	v := r.varint()
	if v < math.MinInt32 || v > math.MaxInt32 {
		r.fail("i32 out of range: %d", v)
		return 0
	}
	return int32(v)
}

func (r *tr) i64(t byte) int64 {
	if !r.want(t, tI64, "i64") {
		return 0
	}
	return r.varint()
}

// bin returns a sub-slice of the input (no copy).
func (r *tr) bin(t byte) []byte {
	if !r.want(t, tBinary, "binary") {
		return nil
	}
	return r.rawBinary()
}

func (r *tr) rawBinary() []byte {
	n := r.uvarint()
	if r.err != nil {
		return nil
	}
	if n > uint64(r.remaining()) {
		r.fail("binary length %d exceeds remaining %d bytes", n, r.remaining())
		return nil
	}
	v := r.b[r.pos : r.pos+int(n) : r.pos+int(n)]
	r.pos += int(n)
	return v
}

func (r *tr) str(t byte) string { return string(r.bin(t)) }

// list reads a list (or set) header and returns the element type and count.
// Every element of every type takes at least one byte so the count is bounded
// by the remaining input.
func (r *tr) list(t byte) (elem byte, n int) {
	if r.err != nil {
		return 0, 0
	}
	if t != tList && t != tSet {
		r.fail("list: wire type %d", t)
		return 0, 0
	}
	h := r.byte()
	if r.err != nil {
		return 0, 0
	}
	elem = h & 0x0f
	size := uint64(h >> 4)
	if size == 15 {
		size = r.uvarint()
		if r.err != nil {
			return 0, 0
		}
	}
	if size > uint64(r.remaining()) {
		r.fail("list of %d elements exceeds remaining %d bytes", size, r.remaining())
		return 0, 0
	}
	return elem, int(size)
}

// listOf reads a list header and checks the element type.
func (r *tr) listOf(t byte, expect byte, what string) int {
	elem, n := r.list(t)
	if r.err != nil {
		return 0
	}
	if expect == tTrue {
		if elem != tTrue && elem != tFalse {
			r.fail("%s: list element type %d, expected bool", what, elem)
			return 0
		}
		return n
	}
	if elem != expect && n > 0 {
		r.fail("%s: list element type %d, expected %d", what, elem, expect)
		return 0
	}
	return n
}

// elemBool reads a boolean stored as a collection element (one byte).
func (r *tr) elemBool() bool {
	c := r.byte()
	return c == 1
}

// fields iterates over the fields of a struct; fn must consume the value
// (possibly via skip).
func (r *tr) fields(depth int, fn func(id int16, t byte)) {
	if depth > maxThriftDepth {
		r.fail("nesting too deep")
		return
	}
	var last int16
	for r.err == nil {
		h := r.byte()
		if r.err != nil {
			return
		}
		if h == tStop {
			return
		}
		t := h & 0x0f
		delta := h >> 4
		var id int16
		if delta == 0 {
			v := r.varint()
			if v < math.MinInt16 || v > math.MaxInt16 {
				r.fail("field id out of range: %d", v)
				return
			}
			id = int16(v)
		} else {
			id = last + int16(delta)
		}
		if t == tStop {
			r.fail("field %d has wire type 0", id)
			return
		}
		last = id
		fn(id, t)
	}
}

// structOf checks the wire type and iterates fields.
func (r *tr) structOf(t byte, depth int, fn func(id int16, t byte)) {
	if !r.want(t, tStruct, "struct") {
		return
	}
	r.fields(depth, fn)
}

// emptyStruct consumes a struct whose content is irrelevant.
func (r *tr) emptyStruct(t byte, depth int) {
	r.structOf(t, depth, func(id int16, ft byte) { r.skip(ft, depth+1) })
}

func (r *tr) skip(t byte, depth int) {
	if r.err != nil {
		return
	}
	if depth > maxThriftDepth {
		r.fail("nesting too deep")
		return
	}
	switch t {
	case tTrue, tFalse:
	case tByte:
		r.byte()
	case tI16, tI32, tI64:
		r.uvarint()
	case tDouble:
		r.skipN(8)
	case tUUID:
		r.skipN(16)
	case tBinary:
		r.rawBinary()
	case tList, tSet:
		elem, n := r.list(t)
		for i := 0; i < n && r.err == nil; i++ {
			r.skipElem(elem, depth+1)
		}
	case tMap:
		n := r.uvarint()
		if r.err != nil || n == 0 {
			return
		}
		if n > uint64(r.remaining()) {
			r.fail("map of %d entries exceeds remaining bytes", n)
			return
		}
		kv := r.byte()
		for i := uint64(0); i < n && r.err == nil; i++ {
			r.skipElem(kv>>4, depth+1)
			r.skipElem(kv&0x0f, depth+1)
		}
	case tStruct:
		r.fields(depth+1, func(id int16, ft byte) { r.skip(ft, depth+1) })
	default:
		r.fail("unknown wire type %d", t)
	}
}

// skipElem skips a collection element: booleans take one byte there.
func (r *tr) skipElem(t byte, depth int) {
	if t == tTrue || t == tFalse {
		r.byte()
		return
	}
	r.skip(t, depth)
}

func (r *tr) skipN(n int) {
	if r.err != nil {
		return
	}
	if n > r.remaining() {
		r.fail("unexpected end of data")
		return
	}
	r.pos += n
}

// required verifies that all field ids in ids were seen (bit i of seen set for
// field id i).
func (r *tr) required(what string, seen uint64, ids ...int) {
	if r.err != nil {
		return
	}
	for _, id := range ids {
		if seen&(1<<uint(id)) == 0 {
			r.fail("%s: required field %d is missing", what, id)
			return
		}
	}
}

func mark(seen *uint64, id int16) {
	if id >= 0 && id < 64 {
		*seen |= 1 << uint(id)
	}
}
