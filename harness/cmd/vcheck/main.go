// vcheck is the single entry point of the verification machinery.
//
//	vcheck --id C06 --tier quick            parent: shard, aggregate, confirm, evidence
//	vcheck --worker --id C06 --shard 3/16   one worker process
//	vcheck --replay replays/C06-….json      re-execute one recorded case
package main

import (
	"encoding/json"
	"flag"
	"fmt"
	"os"
	"runtime/debug"
	"runtime/pprof"
	"syscall"
	"time"

	"verif/engine"
	"verif/props"
)

func main() {
	id := flag.String("id", "", "property id")
	tier := flag.String("tier", "quick", "quick|thorough")
	isWorker := flag.Bool("worker", false, "run as worker")
	shard := flag.String("shard", "0/1", "i/n")
	out := flag.String("out", "", "worker result file")
	variant := flag.String("variant", "asm", "build variant label")
	budget := flag.Int("budget", 240, "worker budget seconds")
	mem := flag.Uint64("mem", 12<<30, "address space cap")
	replay := flag.String("replay", "", "replay file")
	bound := flag.Int("bound", -1, "deviation bound override for this pass")
	list := flag.Bool("list", false, "list property ids")
	rules := flag.Bool("rules", false, "print the enumeration rule of every property as JSON")
	aux := flag.Bool("aux", false, "run the property's auxiliary entry point with the remaining arguments")
	needs := flag.Bool("needs", false, "print the binaries (build variants) the check needs")
	flag.Parse()

	if *rules {
		m := map[string]string{}
		for _, p := range props.All() {
			m[p.ID] = p.Rule
		}
		b, _ := json.MarshalIndent(m, "", " ")
		fmt.Println(string(b))
		return
	}
	if *list {
		for _, p := range props.All() {
			fmt.Println(p.ID)
		}
		return
	}
	if hp := os.Getenv("VERIF_HEAPPROF"); hp != "" {
		// debugging aid: heap profile of a replay / worker after 15 s
		go func() {
			time.Sleep(15 * time.Second)
			f, err := os.Create(hp)
			if err == nil {
				pprof.WriteHeapProfile(f)
				f.Close()
			}
		}()
	}
	if *replay != "" {
		syscall.Setrlimit(syscall.RLIMIT_AS, &syscall.Rlimit{Cur: *mem, Max: *mem})
		// soft limit for the collector: 16 workers whose garbage is collected late
		// would otherwise exhaust the machine (the library allocates what a tampered
		// length prefix asks for, up to 2 GiB at a time, before reading)
		debug.SetMemoryLimit(int64(*mem) / 4)
		b, err := os.ReadFile(*replay)
		if err != nil {
			fmt.Println("HARNESS-ERROR", err)
			os.Exit(2)
		}
		var v engine.Violation
		if err := json.Unmarshal(b, &v); err != nil {
			fmt.Println("HARNESS-ERROR", err)
			os.Exit(2)
		}
		p := props.Get(v.Property)
		if p == nil {
			fmt.Println("HARNESS-ERROR unknown property", v.Property)
			os.Exit(2)
		}
		done := make(chan *engine.Failure, 1)
		go func() { done <- engine.RunReplay(p, &v) }()
		select {
		case f := <-done:
			if f == nil {
				fmt.Println("REPLAY-RESULT PASS")
				return
			}
			fmt.Printf("REPLAY-RESULT FAIL key=%s|%s\n", f.Kind, f.Shape)
			fmt.Println(f.Detail)
			fmt.Printf("VIOLATION property=%s replay=%s\n", v.Property, *replay)
			os.Exit(1)
		case <-time.After(60 * time.Second):
			fmt.Println("REPLAY-HANG")
			os.Exit(3)
		}
	}
	p := props.Get(*id)
	if p == nil {
		fmt.Println("HARNESS-ERROR unknown property", *id)
		os.Exit(2)
	}
	if *needs {
		seen := map[string]bool{}
		vs := []string{"asm"}
		if p.Variants != nil {
			vs = p.Variants(*tier)
		}
		for _, v := range vs {
			b, _ := engine.VariantEnv(v)
			if !seen[b] {
				seen[b] = true
				fmt.Println(b)
			}
		}
		for _, b := range p.Extra {
			if !seen[b] {
				seen[b] = true
				fmt.Println(b)
			}
		}
		return
	}
	if *aux {
		if p.Aux == nil {
			fmt.Println("HARNESS-ERROR no aux entry for", p.ID)
			os.Exit(2)
		}
		os.Exit(p.Aux(*tier, flag.Args()))
	}
	if *isWorker {
		syscall.Setrlimit(syscall.RLIMIT_AS, &syscall.Rlimit{Cur: *mem, Max: *mem})
		// soft limit for the collector: 16 workers whose garbage is collected late
		// would otherwise exhaust the machine (the library allocates what a tampered
		// length prefix asks for, up to 2 GiB at a time, before reading)
		debug.SetMemoryLimit(int64(*mem) / 4)
		var s, n int
		fmt.Sscanf(*shard, "%d/%d", &s, &n)
		engine.RunWorker(p, *tier, *variant, s, n, *out, time.Duration(*budget)*time.Second, *bound)
		return
	}
	os.Exit(engine.RunCheck(p, *tier))
}
