package main

import (
	"go/ast"
	"go/token"
	"reflect"
	"strconv"
	"strings"
)

// usesConcurrencySyntax reports whether the file contains channel types or
// operations, select, close(...) or go statements.
func usesConcurrencySyntax(f *ast.File) bool {
	found := false
	ast.Inspect(f, func(n ast.Node) bool {
		switch x := n.(type) {
		case *ast.ChanType, *ast.SendStmt, *ast.SelectStmt, *ast.GoStmt:
			found = true
		case *ast.UnaryExpr:
			if x.Op == token.ARROW {
				found = true
			}
		case *ast.CallExpr:
			if id, ok := x.Fun.(*ast.Ident); ok && id.Name == "close" && len(x.Args) == 1 {
				found = true
			}
		}
		return !found
	})
	return found
}

// collectNames records the names declared with a channel type (fields,
// parameters, results, variables, `x := make(chan …)`) in chans and the names
// declared with any other explicit type in others. Either map may be nil.
func collectNames(f *ast.File, chans, others map[string]bool) {
	add := func(names []*ast.Ident, typ ast.Expr) {
		if typ == nil {
			return
		}
		_, isChan := unparen(typ).(*ast.ChanType)
		for _, n := range names {
			if n.Name == "_" {
				continue
			}
			if isChan && chans != nil {
				chans[n.Name] = true
			}
			if !isChan && others != nil {
				others[n.Name] = true
			}
		}
	}
	ast.Inspect(f, func(n ast.Node) bool {
		switch x := n.(type) {
		case *ast.Field:
			add(x.Names, x.Type)
		case *ast.ValueSpec:
			add(x.Names, x.Type)
		case *ast.AssignStmt:
			if x.Tok == token.DEFINE && len(x.Lhs) == len(x.Rhs) && chans != nil {
				for i, r := range x.Rhs {
					if c, ok := r.(*ast.CallExpr); ok && len(c.Args) >= 1 {
						if id, ok := c.Fun.(*ast.Ident); ok && id.Name == "make" {
							if _, ok := unparen(c.Args[0]).(*ast.ChanType); ok {
								if l, ok := x.Lhs[i].(*ast.Ident); ok && l.Name != "_" {
									chans[l.Name] = true
								}
							}
						}
					}
				}
			}
		}
		return true
	})
}

func unparen(e ast.Expr) ast.Expr {
	for {
		p, ok := e.(*ast.ParenExpr)
		if !ok {
			return e
		}
		e = p.X
	}
}

// ------------------------------------------------------------ generic apply

type visitor struct {
	pre  func(ast.Node) (ast.Node, bool) // replacement, handled (no descent, no post)
	post func(ast.Node) ast.Node
}

var skipFields = map[string]bool{"Obj": true, "Scope": true, "Unresolved": true, "Comments": true, "Imports": true, "Doc": true, "Comment": true, "FileStart": true, "FileEnd": true}

func (v *visitor) apply(n ast.Node) ast.Node {
	if n == nil {
		return nil
	}
	rv := reflect.ValueOf(n)
	if rv.Kind() == reflect.Ptr && rv.IsNil() {
		return n
	}
	if r, done := v.pre(n); done {
		return r
	}
	if rv.Kind() == reflect.Ptr && rv.Elem().Kind() == reflect.Struct {
		st := rv.Elem()
		for i := 0; i < st.NumField(); i++ {
			if skipFields[st.Type().Field(i).Name] {
				continue
			}
			v.field(st.Field(i))
		}
	}
	return v.post(n)
}

func (v *visitor) field(f reflect.Value) {
	switch f.Kind() {
	case reflect.Interface, reflect.Ptr:
		if f.IsNil() {
			return
		}
		child, ok := f.Interface().(ast.Node)
		if !ok {
			return
		}
		nn := v.apply(child)
		if nn != child {
			nv := reflect.ValueOf(nn)
			if !nv.Type().AssignableTo(f.Type()) {
				fail("internal: cannot place %T where %s is expected", nn, f.Type())
			}
			f.Set(nv)
		}
	case reflect.Slice:
		for i := 0; i < f.Len(); i++ {
			v.field(f.Index(i))
		}
	}
}

// ----------------------------------------------------------- chan rewriter

const (
	chanPkg  = "verifchan"
	schedPkg = "verifsched"
)

type chanRewriter struct {
	g          *gen
	src        *source
	chanNames  map[string]bool // package wide
	otherNames map[string]bool // this file
	v          visitor
	ntmp       int
	usedChan   bool
	usedSched  bool
	chanTypes  map[ast.Expr]ast.Expr // rewritten chan type -> element type
	recvCalls  map[*ast.CallExpr]bool
}

func (rw *chanRewriter) pos(p token.Pos) string { return rw.g.fset.Position(p).String() }

func (rw *chanRewriter) tmp(p token.Pos) *ast.Ident {
	rw.ntmp++
	return &ast.Ident{Name: "verifT" + strconv.Itoa(rw.ntmp), NamePos: p}
}

func ident(name string, p token.Pos) *ast.Ident { return &ast.Ident{Name: name, NamePos: p} }

func (rw *chanRewriter) chanSel(name string, p token.Pos) ast.Expr {
	rw.usedChan = true
	return &ast.SelectorExpr{X: ident(chanPkg, p), Sel: ident(name, p)}
}

func call(fun ast.Expr, p token.Pos, args ...ast.Expr) *ast.CallExpr {
	return &ast.CallExpr{Fun: fun, Lparen: p, Args: args, Rparen: p}
}

func method(x ast.Expr, name string, p token.Pos, args ...ast.Expr) *ast.CallExpr {
	switch x.(type) {
	case *ast.Ident, *ast.SelectorExpr, *ast.CallExpr, *ast.IndexExpr, *ast.ParenExpr:
	default:
		x = &ast.ParenExpr{Lparen: p, X: x, Rparen: p}
	}
	return call(&ast.SelectorExpr{X: x, Sel: ident(name, p)}, p, args...)
}

func define(lhs []ast.Expr, tok token.Token, p token.Pos, rhs ...ast.Expr) *ast.AssignStmt {
	return &ast.AssignStmt{Lhs: lhs, Tok: tok, TokPos: p, Rhs: rhs}
}

func (rw *chanRewriter) run() {
	rw.chanTypes = map[ast.Expr]ast.Expr{}
	rw.recvCalls = map[*ast.CallExpr]bool{}
	rw.v = visitor{pre: rw.pre, post: rw.post}
	ast.Inspect(rw.src.file, func(n ast.Node) bool {
		if id, ok := n.(*ast.Ident); ok && (id.Name == chanPkg || id.Name == schedPkg || strings.HasPrefix(id.Name, "verifT")) {
			fail("%s already uses the identifier %q reserved by the rewriter", rw.pos(id.Pos()), id.Name)
		}
		return true
	})
	rw.v.apply(rw.src.file)

	// Nothing of the original syntax may survive.
	ast.Inspect(rw.src.file, func(n ast.Node) bool {
		switch x := n.(type) {
		case *ast.ChanType, *ast.SendStmt, *ast.SelectStmt, *ast.GoStmt, *ast.CommClause:
			fail("%s: %T survived the channel rewrite", rw.pos(n.Pos()), n)
		case *ast.UnaryExpr:
			if x.Op == token.ARROW {
				fail("%s: receive expression survived the channel rewrite", rw.pos(n.Pos()))
			}
		}
		return true
	})
	if rw.usedChan {
		addImport(rw.src.file, chanPkg, rw.g.module+"/verifsched/vchan")
	}
	if rw.usedSched {
		addImport(rw.src.file, schedPkg, rw.g.module+"/verifsched")
	}
	if rw.usedChan || rw.usedSched {
		rw.src.stripCom = true
	}
}

func addImport(f *ast.File, name, path string) {
	for _, imp := range f.Imports {
		if imp.Path.Value == strconv.Quote(path) && imp.Name != nil && imp.Name.Name == name {
			return
		}
	}
	spec := &ast.ImportSpec{Name: ast.NewIdent(name), Path: &ast.BasicLit{Kind: token.STRING, Value: strconv.Quote(path)}}
	f.Imports = append(f.Imports, spec)
	for _, d := range f.Decls {
		if gd, ok := d.(*ast.GenDecl); ok && gd.Tok == token.IMPORT {
			if !gd.Lparen.IsValid() {
				gd.Lparen = gd.TokPos
				gd.Rparen = gd.End()
			}
			gd.Specs = append(gd.Specs, spec)
			return
		}
	}
	gd := &ast.GenDecl{Tok: token.IMPORT, TokPos: f.Name.End(), Lparen: f.Name.End(), Rparen: f.Name.End(), Specs: []ast.Spec{spec}}
	f.Decls = append([]ast.Decl{gd}, f.Decls...)
}

// pre handles the statements that need their context rewritten as a whole.
func (rw *chanRewriter) pre(n ast.Node) (ast.Node, bool) {
	var label *ast.LabeledStmt
	stmt, _ := n.(ast.Stmt)
	if l, ok := n.(*ast.LabeledStmt); ok {
		label, stmt = l, l.Stmt
	}
	var pre []ast.Stmt
	var main ast.Stmt
	switch s := stmt.(type) {
	case *ast.SelectStmt:
		pre, main = rw.selectStmt(s)
		rw.src.ops = append(rw.src.ops, "select")
	case *ast.GoStmt:
		pre, main = rw.goStmt(s)
		rw.src.ops = append(rw.src.ops, "go")
	case *ast.RangeStmt:
		if !rw.isChanRange(s) {
			return nil, false
		}
		pre, main = rw.rangeStmt(s)
		rw.src.ops = append(rw.src.ops, "range chan")
	default:
		return nil, false
	}
	if label != nil {
		label.Stmt = main
		main = label
	}
	if len(pre) == 0 && label == nil {
		return main, true
	}
	return &ast.BlockStmt{Lbrace: n.Pos(), List: append(pre, main), Rbrace: n.End()}, true
}

func lastName(e ast.Expr) string {
	switch x := unparen(e).(type) {
	case *ast.Ident:
		return x.Name
	case *ast.SelectorExpr:
		return x.Sel.Name
	}
	return ""
}

func (rw *chanRewriter) looksLikeChan(e ast.Expr, what string) bool {
	if c, ok := unparen(e).(*ast.CallExpr); ok {
		if id, ok := c.Fun.(*ast.Ident); ok && id.Name == "make" && len(c.Args) > 0 {
			if _, ok := unparen(c.Args[0]).(*ast.ChanType); ok {
				return true
			}
		}
	}
	name := lastName(e)
	if name == "" || !rw.chanNames[name] {
		return false
	}
	if rw.otherNames[name] {
		fail("%s: cannot decide without type information whether %s operand %q is a channel (the name is declared both with channel and non-channel types)", rw.pos(e.Pos()), what, name)
	}
	return true
}

func (rw *chanRewriter) isChanRange(s *ast.RangeStmt) bool {
	if s.Value != nil {
		return false // two iteration variables: never a channel
	}
	return rw.looksLikeChan(s.X, "range")
}

func (rw *chanRewriter) expr(e ast.Expr) ast.Expr {
	if e == nil {
		return nil
	}
	return rw.v.apply(e).(ast.Expr)
}

func (rw *chanRewriter) stmts(list []ast.Stmt) []ast.Stmt {
	out := make([]ast.Stmt, len(list))
	for i, s := range list {
		out[i] = rw.v.apply(s).(ast.Stmt)
	}
	return out
}

func (rw *chanRewriter) rangeStmt(s *ast.RangeStmt) ([]ast.Stmt, ast.Stmt) {
	p := s.Pos()
	ch := rw.tmp(p)
	ok := rw.tmp(p)
	pre := []ast.Stmt{define([]ast.Expr{ch}, token.DEFINE, p, rw.expr(s.X))}
	var key ast.Expr = ident("_", p)
	if s.Key != nil {
		key = rw.expr(s.Key)
	}
	tok := token.DEFINE
	if s.Key != nil && s.Tok == token.ASSIGN {
		tok = token.ASSIGN
		pre = append(pre, &ast.DeclStmt{Decl: &ast.GenDecl{Tok: token.VAR, TokPos: p, Specs: []ast.Spec{
			&ast.ValueSpec{Names: []*ast.Ident{ok}, Type: ident("bool", p)}}}})
	}
	recv := func() ast.Expr { return method(ident(ch.Name, p), "Recv2", p) }
	body := rw.v.apply(s.Body).(*ast.BlockStmt)
	loop := &ast.ForStmt{
		For:  p,
		Init: define([]ast.Expr{key, ident(ok.Name, p)}, tok, p, recv()),
		Cond: ident(ok.Name, p),
		Post: define([]ast.Expr{copyExpr(key), ident(ok.Name, p)}, token.ASSIGN, p, recv()),
		Body: body,
	}
	rw.usedChan = true // the loop only compiles against *vchan.Chan
	return pre, loop
}

// copyExpr duplicates the simple expressions that may appear as a range key.
func copyExpr(e ast.Expr) ast.Expr {
	switch x := e.(type) {
	case *ast.Ident:
		c := *x
		return &c
	case *ast.SelectorExpr:
		return &ast.SelectorExpr{X: copyExpr(x.X), Sel: copyExpr(x.Sel).(*ast.Ident)}
	case *ast.StarExpr:
		return &ast.StarExpr{Star: x.Star, X: copyExpr(x.X)}
	case *ast.ParenExpr:
		return &ast.ParenExpr{Lparen: x.Lparen, X: copyExpr(x.X), Rparen: x.Rparen}
	case *ast.IndexExpr:
		return &ast.IndexExpr{X: copyExpr(x.X), Lbrack: x.Lbrack, Index: copyExpr(x.Index), Rbrack: x.Rbrack}
	case *ast.BasicLit:
		c := *x
		return &c
	}
	fail("range key expression %T is not supported by the rewriter", e)
	return nil
}

func (rw *chanRewriter) goStmt(s *ast.GoStmt) ([]ast.Stmt, ast.Stmt) {
	p := s.Pos()
	rw.usedSched = true
	goFn := &ast.SelectorExpr{X: ident(schedPkg, p), Sel: ident("Go", p)}
	c := s.Call
	fun := rw.expr(c.Fun)
	if lit, ok := fun.(*ast.FuncLit); ok && len(c.Args) == 0 {
		return nil, &ast.ExprStmt{X: call(goFn, p, lit)}
	}
	var lhs, rhs, args []ast.Expr
	switch fun.(type) {
	case *ast.Ident:
	default:
		t := rw.tmp(p)
		lhs, rhs = append(lhs, t), append(rhs, fun)
		fun = ident(t.Name, p)
	}
	for _, a := range c.Args {
		a = rw.expr(a)
		if isConstLike(a) {
			args = append(args, a)
			continue
		}
		t := rw.tmp(p)
		lhs, rhs = append(lhs, t), append(rhs, a)
		args = append(args, ident(t.Name, p))
	}
	inner := &ast.CallExpr{Fun: fun, Lparen: p, Args: args, Ellipsis: c.Ellipsis, Rparen: p}
	lit := &ast.FuncLit{
		Type: &ast.FuncType{Func: p, Params: &ast.FieldList{Opening: p, Closing: p}},
		Body: &ast.BlockStmt{Lbrace: p, List: []ast.Stmt{&ast.ExprStmt{X: inner}}, Rbrace: p},
	}
	var pre []ast.Stmt
	if len(lhs) > 0 {
		pre = append(pre, define(lhs, token.DEFINE, p, rhs...))
	}
	return pre, &ast.ExprStmt{X: call(goFn, p, lit)}
}

func isConstLike(e ast.Expr) bool {
	switch x := e.(type) {
	case *ast.BasicLit:
		return true
	case *ast.Ident:
		return x.Name == "nil" || x.Name == "true" || x.Name == "false"
	}
	return false
}

func recvOperand(e ast.Expr) (ast.Expr, bool) {
	u, ok := unparen(e).(*ast.UnaryExpr)
	if !ok || u.Op != token.ARROW {
		return nil, false
	}
	return u.X, true
}

func (rw *chanRewriter) selectStmt(s *ast.SelectStmt) ([]ast.Stmt, ast.Stmt) {
	p := s.Pos()
	var pre, clauses []ast.Stmt
	var caseArgs []ast.Expr
	hasDefault := false
	idx := 0
	for _, st := range s.Body.List {
		cc, ok := st.(*ast.CommClause)
		if !ok {
			fail("%s: unexpected %T in select body", rw.pos(st.Pos()), st)
		}
		cp := cc.Pos()
		if cc.Comm == nil {
			hasDefault = true
			clauses = append(clauses, &ast.CaseClause{Case: cp, Colon: cc.Colon,
				List: []ast.Expr{&ast.UnaryExpr{OpPos: cp, Op: token.SUB, X: &ast.BasicLit{ValuePos: cp, Kind: token.INT, Value: "1"}}},
				Body: rw.stmts(cc.Body)})
			continue
		}
		t := rw.tmp(cp)
		var prefix []ast.Stmt
		switch comm := cc.Comm.(type) {
		case *ast.SendStmt:
			pre = append(pre, define([]ast.Expr{t}, token.DEFINE, cp,
				call(rw.chanSel("SendCase", cp), cp, rw.expr(comm.Chan), rw.expr(comm.Value))))
		case *ast.ExprStmt:
			x, ok := recvOperand(comm.X)
			if !ok {
				fail("%s: select case is not a receive expression", rw.pos(comm.Pos()))
			}
			pre = append(pre, define([]ast.Expr{t}, token.DEFINE, cp, call(rw.chanSel("RecvCase", cp), cp, rw.expr(x))))
		case *ast.AssignStmt:
			if len(comm.Rhs) != 1 || len(comm.Lhs) < 1 || len(comm.Lhs) > 2 || (comm.Tok != token.ASSIGN && comm.Tok != token.DEFINE) {
				fail("%s: unsupported select receive form", rw.pos(comm.Pos()))
			}
			x, ok := recvOperand(comm.Rhs[0])
			if !ok {
				fail("%s: select case is not a receive expression", rw.pos(comm.Pos()))
			}
			pre = append(pre, define([]ast.Expr{t}, token.DEFINE, cp, call(rw.chanSel("RecvCase", cp), cp, rw.expr(x))))
			tok := comm.Tok
			allBlank := true
			var lhs []ast.Expr
			for _, l := range comm.Lhs {
				if id, ok := l.(*ast.Ident); !ok || id.Name != "_" {
					allBlank = false
				}
				lhs = append(lhs, rw.expr(l))
			}
			if allBlank {
				tok = token.ASSIGN
			}
			rhs := []ast.Expr{&ast.SelectorExpr{X: ident(t.Name, cp), Sel: ident("Val", cp)}}
			if len(lhs) == 2 {
				rhs = append(rhs, &ast.SelectorExpr{X: ident(t.Name, cp), Sel: ident("Ok", cp)})
			}
			prefix = append(prefix, define(lhs, tok, cp, rhs...))
		default:
			fail("%s: unsupported select communication %T", rw.pos(cc.Comm.Pos()), cc.Comm)
		}
		caseArgs = append(caseArgs, ident(t.Name, cp))
		clauses = append(clauses, &ast.CaseClause{Case: cp, Colon: cc.Colon,
			List: []ast.Expr{&ast.BasicLit{ValuePos: cp, Kind: token.INT, Value: strconv.Itoa(idx)}},
			Body: append(prefix, rw.stmts(cc.Body)...)})
		idx++
	}
	def := "false"
	if hasDefault {
		def = "true"
	}
	args := append([]ast.Expr{ident(def, p)}, caseArgs...)
	sw := &ast.SwitchStmt{
		Switch: p,
		Tag:    call(rw.chanSel("Select", p), p, args...),
		Body:   &ast.BlockStmt{Lbrace: s.Body.Lbrace, List: clauses, Rbrace: s.Body.Rbrace},
	}
	return pre, sw
}

// post rewrites the context free constructs bottom-up.
func (rw *chanRewriter) post(n ast.Node) ast.Node {
	switch x := n.(type) {
	case *ast.ChanType:
		p := x.Pos()
		t := &ast.StarExpr{Star: p, X: &ast.IndexExpr{X: rw.chanSel("Chan", p), Lbrack: p, Index: x.Value, Rbrack: p}}
		rw.chanTypes[t] = x.Value
		rw.src.ops = append(rw.src.ops, "chan type")
		return t

	case *ast.UnaryExpr:
		if x.Op == token.ARROW {
			c := method(x.X, "Recv", x.Pos())
			rw.recvCalls[c] = true
			rw.usedChan = true
			rw.src.ops = append(rw.src.ops, "recv")
			return c
		}

	case *ast.SendStmt:
		rw.usedChan = true
		rw.src.ops = append(rw.src.ops, "send")
		return &ast.ExprStmt{X: method(x.Chan, "Send", x.Pos(), x.Value)}

	case *ast.AssignStmt:
		if len(x.Lhs) == 2 && len(x.Rhs) == 1 {
			rw.recv2(x.Rhs[0])
		}

	case *ast.ValueSpec:
		if len(x.Names) == 2 && len(x.Values) == 1 {
			rw.recv2(x.Values[0])
		}

	case *ast.CallExpr:
		id, ok := x.Fun.(*ast.Ident)
		if !ok {
			break
		}
		switch {
		case id.Name == "make" && len(x.Args) >= 1:
			elem, ok := rw.chanTypes[unparen(x.Args[0])]
			if !ok {
				break
			}
			p := x.Pos()
			var size ast.Expr = &ast.BasicLit{ValuePos: p, Kind: token.INT, Value: "0"}
			if len(x.Args) >= 2 {
				size = x.Args[1]
			}
			rw.src.ops = append(rw.src.ops, "make(chan)")
			return call(&ast.IndexExpr{X: rw.chanSel("Make", p), Lbrack: p, Index: elem, Rbrack: p}, p, size)
		case id.Name == "close" && len(x.Args) == 1:
			rw.usedChan = true
			rw.src.ops = append(rw.src.ops, "close")
			return method(x.Args[0], "Close", x.Pos())
		case (id.Name == "len" || id.Name == "cap") && len(x.Args) == 1:
			if rw.looksLikeChan(x.Args[0], id.Name) {
				m := "Len"
				if id.Name == "cap" {
					m = "Cap"
				}
				rw.src.ops = append(rw.src.ops, id.Name+"(chan)")
				return method(x.Args[0], m, x.Pos())
			}
		}
	case *ast.SelectStmt, *ast.GoStmt:
		fail("%s: internal: %T reached post", rw.pos(n.Pos()), n)
	}
	return n
}

func (rw *chanRewriter) recv2(e ast.Expr) {
	if c, ok := unparen(e).(*ast.CallExpr); ok && rw.recvCalls[c] {
		c.Fun.(*ast.SelectorExpr).Sel.Name = "Recv2"
	}
}
