// Command mkoverlay generates a `go build -overlay` description that injects
// the verification hooks into the library WITHOUT touching the repository.
//
//	mkoverlay -repo /repo -out <dir> -variant asm|purego|sched [-hooks /verif/harness/hooks]
//
// Everything is derived from the current contents of -repo on every
// invocation; stale outputs in <dir> are removed. Exit status 2 with a line
// starting HARNESS-ERROR means an expected injection site is missing or the
// rewriter met syntax it does not handle.
package main

import (
	"bytes"
	"encoding/json"
	"flag"
	"fmt"
	"go/ast"
	"go/format"
	"go/parser"
	"go/printer"
	"go/token"
	"io/fs"
	"os"
	"path/filepath"
	"sort"
	"strconv"
	"strings"
)

type harnessError struct{ msg string }

func fail(format string, args ...any) { panic(harnessError{fmt.Sprintf(format, args...)}) }

type source struct {
	rel      string // slash separated path relative to repo
	abs      string
	file     *ast.File
	ops      []string // what was done to it
	stripCom bool     // drop ordinary comments when printing (structural rewrite)
}

type gen struct {
	repo, out, hooks, variant string
	module                    string
	fset                      *token.FileSet
	srcs                      map[string]*source // by rel
	replace                   map[string]string
	manifest                  []string
}

func main() {
	repo := flag.String("repo", "/repo", "library source tree (read only)")
	out := flag.String("out", "", "output directory")
	variant := flag.String("variant", "asm", "asm | purego | sched")
	hooks := flag.String("hooks", "/verif/harness/hooks", "directory holding the hook sources")
	flag.Parse()

	defer func() {
		if r := recover(); r != nil {
			if he, ok := r.(harnessError); ok {
				fmt.Fprintf(os.Stderr, "HARNESS-ERROR mkoverlay: %s\n", he.msg)
				os.Exit(2)
			}
			panic(r)
		}
	}()

	if *out == "" {
		fail("missing -out")
	}
	switch *variant {
	case "asm", "purego", "sched":
	default:
		fail("unknown -variant %q", *variant)
	}
	g := &gen{variant: *variant, fset: token.NewFileSet(), srcs: map[string]*source{}, replace: map[string]string{}}
	g.repo = mustAbs(*repo)
	g.out = mustAbs(*out)
	g.hooks = mustAbs(*hooks)
	g.module = readModulePath(filepath.Join(g.repo, "go.mod"))

	// regenerate from scratch
	for _, stale := range []string{"src", "overlay.json", "MANIFEST.txt"} {
		if err := os.RemoveAll(filepath.Join(g.out, stale)); err != nil {
			fail("cannot remove stale %s: %v", stale, err)
		}
	}
	if err := os.MkdirAll(filepath.Join(g.out, "src"), 0o755); err != nil {
		fail("%v", err)
	}

	g.addHooks()
	g.swapImports("internal/memory/pool.go", true, false, true)
	g.swapImports("variant/encoding.go", true, false, true)
	g.insertPoison()
	if g.variant == "sched" {
		g.schedRewrite()
	}
	g.emit()
}

func mustAbs(p string) string {
	a, err := filepath.Abs(p)
	if err != nil {
		fail("%v", err)
	}
	return a
}

func readModulePath(gomod string) string {
	b, err := os.ReadFile(gomod)
	if err != nil {
		fail("cannot read %s: %v", gomod, err)
	}
	for _, l := range strings.Split(string(b), "\n") {
		f := strings.Fields(l)
		if len(f) >= 2 && f[0] == "module" {
			return strings.Trim(f[1], `"`)
		}
	}
	fail("no module line in %s", gomod)
	return ""
}

// ---------------------------------------------------------------- step 1

func (g *gen) addHooks() {
	if st, err := os.Stat(g.hooks); err != nil || !st.IsDir() {
		fail("hooks directory %s not found", g.hooks)
	}
	n := 0
	err := filepath.WalkDir(g.hooks, func(p string, d fs.DirEntry, err error) error {
		if err != nil {
			return err
		}
		if d.IsDir() {
			return nil
		}
		rel, _ := filepath.Rel(g.hooks, p)
		rel = filepath.ToSlash(rel)
		parts := strings.Split(rel, "/")
		if len(parts) < 2 {
			return nil // files directly in hooks/ (README.md) are not mapped
		}
		if strings.HasPrefix(parts[len(parts)-1], ".") {
			return nil
		}
		if parts[0] == "root" {
			if !strings.HasSuffix(rel, ".go") {
				return nil
			}
			parts = parts[1:]
		}
		target := filepath.Join(g.repo, filepath.Join(parts...))
		if _, err := os.Lstat(target); err == nil {
			fail("hook file %s would shadow existing repository file %s", p, target)
		}
		if strings.HasSuffix(target, ".s") {
			// the assembler chdirs into the package directory: it must really exist
			if st, err := os.Stat(filepath.Dir(target)); err != nil || !st.IsDir() {
				fail("assembly hook %s needs the directory %s to exist in the repository", p, filepath.Dir(target))
			}
		}
		g.replace[target] = p
		g.manifest = append(g.manifest, fmt.Sprintf("added     %s <- %s", target, p))
		n++
		return nil
	})
	if err != nil {
		fail("walking hooks: %v", err)
	}
	if n == 0 {
		fail("no hook files found under %s", g.hooks)
	}
	if _, ok := g.replace[filepath.Join(g.repo, "verifsched", "sched.go")]; !ok {
		fail("hooks/verifsched/sched.go missing")
	}
}

// ------------------------------------------------------------ file cache

func (g *gen) load(rel string) *source {
	if s, ok := g.srcs[rel]; ok {
		return s
	}
	abs := filepath.Join(g.repo, filepath.FromSlash(rel))
	f, err := parser.ParseFile(g.fset, abs, nil, parser.ParseComments|parser.SkipObjectResolution)
	if err != nil {
		fail("cannot parse %s: %v", abs, err)
	}
	s := &source{rel: rel, abs: abs, file: f}
	g.srcs[rel] = s
	return s
}

// ---------------------------------------------------------------- step 2

func (g *gen) shimPath(pkg string) string {
	switch pkg {
	case "sync":
		return g.module + "/verifsched/vsync"
	case "sync/atomic":
		return g.module + "/verifsched/vatomic"
	}
	return ""
}

// swapImports replaces the sync (and optionally sync/atomic) import paths of
// rel by the shims, keeping the local names. It reports whether anything was
// swapped; with must=true a file that does not import sync is an error.
func (g *gen) swapImports(rel string, doSync, doAtomic, must bool) bool {
	if _, err := os.Stat(filepath.Join(g.repo, filepath.FromSlash(rel))); err != nil {
		if must {
			fail("expected file %s not found in repository", rel)
		}
		return false
	}
	s := g.load(rel)
	swapped := false
	for _, imp := range s.file.Imports {
		p, _ := strconv.Unquote(imp.Path.Value)
		if (p == "sync" && !doSync) || (p == "sync/atomic" && !doAtomic) {
			continue
		}
		shim := g.shimPath(p)
		if shim == "" {
			continue
		}
		if imp.Name == nil {
			name := "sync"
			if p == "sync/atomic" {
				name = "atomic"
			}
			imp.Name = &ast.Ident{Name: name, NamePos: imp.Path.ValuePos}
		}
		imp.Path.Value = strconv.Quote(shim)
		s.ops = append(s.ops, "import "+p+"->"+shim[len(g.module)+1:])
		swapped = true
	}
	if must && !swapped {
		fail("%s no longer imports sync: pool injection site missing", rel)
	}
	return swapped
}

// ---------------------------------------------------------------- step 3

func (g *gen) insertPoison() {
	const rel = "internal/memory/slice_buffer.go"
	if _, err := os.Stat(filepath.Join(g.repo, rel)); err != nil {
		fail("expected file %s not found in repository", rel)
	}
	s := g.load(rel)
	for _, d := range s.file.Decls {
		fd, ok := d.(*ast.FuncDecl)
		if !ok || fd.Recv != nil || fd.Name.Name != "putSliceToPool" {
			continue
		}
		if fd.Body == nil || fd.Type.Params == nil || len(fd.Type.Params.List) == 0 || len(fd.Type.Params.List[0].Names) == 0 {
			fail("putSliceToPool in %s has an unexpected signature", rel)
		}
		p0 := fd.Type.Params.List[0]
		if got := nodeString(g.fset, p0.Type); got != "*slice[T]" {
			fail("putSliceToPool first parameter has type %s, the poison hook expects *slice[T]", got)
		}
		pos := fd.Body.Lbrace
		call := &ast.ExprStmt{X: &ast.CallExpr{
			Fun:    &ast.Ident{Name: "verifPoison", NamePos: pos},
			Lparen: pos,
			Args:   []ast.Expr{&ast.Ident{Name: p0.Names[0].Name, NamePos: pos}},
			Rparen: pos,
		}}
		fd.Body.List = append([]ast.Stmt{call}, fd.Body.List...)
		s.ops = append(s.ops, "verifPoison("+p0.Names[0].Name+") inserted in putSliceToPool")
		return
	}
	fail("function putSliceToPool not found in %s", rel)
}

func nodeString(fset *token.FileSet, n ast.Node) string {
	var b bytes.Buffer
	printer.Fprint(&b, fset, n)
	return b.String()
}

// ---------------------------------------------------------------- step 4

func (g *gen) schedRewrite() {
	var rels []string
	err := filepath.WalkDir(g.repo, func(p string, d fs.DirEntry, err error) error {
		if err != nil {
			return err
		}
		name := d.Name()
		if d.IsDir() {
			if p == g.repo {
				return nil
			}
			if strings.HasPrefix(name, ".") || strings.HasPrefix(name, "_") || name == "testdata" || name == "vendor" {
				return filepath.SkipDir
			}
			if p == filepath.Join(g.repo, "verifsched") {
				return filepath.SkipDir
			}
			if _, err := os.Stat(filepath.Join(p, "go.mod")); err == nil {
				return filepath.SkipDir // nested module
			}
			return nil
		}
		if !strings.HasSuffix(name, ".go") || strings.HasSuffix(name, "_test.go") {
			return nil
		}
		rel, _ := filepath.Rel(g.repo, p)
		rels = append(rels, filepath.ToSlash(rel))
		return nil
	})
	if err != nil {
		fail("walking repository: %v", err)
	}
	sort.Strings(rels)

	// Cheap textual pre-filter, then parse.
	type cand struct {
		s     *source
		chans bool
	}
	var cands []cand
	byDir := map[string][]*source{}
	for _, rel := range rels {
		b, err := os.ReadFile(filepath.Join(g.repo, filepath.FromSlash(rel)))
		if err != nil {
			fail("%v", err)
		}
		txt := string(b)
		interesting := strings.Contains(txt, `"sync"`) || strings.Contains(txt, `"sync/atomic"`) ||
			strings.Contains(txt, "chan") || strings.Contains(txt, "<-") || strings.Contains(txt, "select") ||
			strings.Contains(txt, "go ") || strings.Contains(txt, "close(")
		if !interesting {
			continue
		}
		s := g.load(rel)
		if hasIgnoreTag(s.file) {
			delete(g.srcs, rel)
			continue
		}
		usesChans := usesConcurrencySyntax(s.file)
		cands = append(cands, cand{s, usesChans})
		if usesChans {
			dir := filepath.ToSlash(filepath.Dir(rel))
			byDir[dir] = append(byDir[dir], s)
		}
	}
	for _, c := range cands {
		g.swapImports(c.s.rel, true, true, false)
	}
	for dir, list := range byDir {
		chanNames := map[string]bool{}
		for _, s := range list {
			collectNames(s.file, chanNames, nil)
		}
		for _, s := range list {
			rw := &chanRewriter{g: g, src: s, chanNames: chanNames, otherNames: map[string]bool{}}
			collectNames(s.file, nil, rw.otherNames)
			rw.run()
		}
		_ = dir
	}
	// Files that were parsed but not modified are dropped again.
	for rel, s := range g.srcs {
		if len(s.ops) == 0 {
			delete(g.srcs, rel)
		}
	}
	if _, ok := g.srcs["page.go"]; !ok {
		fail("page.go was not rewritten: AsyncPages no longer uses channels/goroutines?")
	}
}

func hasIgnoreTag(f *ast.File) bool {
	for _, cg := range f.Comments {
		if cg.Pos() > f.Package {
			break
		}
		for _, c := range cg.List {
			t := strings.TrimSpace(c.Text)
			if strings.HasPrefix(t, "//go:build") && strings.Contains(" "+strings.TrimPrefix(t, "//go:build")+" ", " ignore ") {
				return true
			}
			if strings.HasPrefix(t, "// +build") && strings.Contains(t+" ", " ignore ") {
				return true
			}
		}
	}
	return false
}

// ------------------------------------------------------------------ emit

func (g *gen) emit() {
	var rels []string
	for rel := range g.srcs {
		rels = append(rels, rel)
	}
	sort.Strings(rels)
	for _, rel := range rels {
		s := g.srcs[rel]
		if len(s.ops) == 0 {
			continue
		}
		if s.stripCom {
			s.file.Comments = keepDirectives(s.file)
		}
		var buf bytes.Buffer
		cfg := printer.Config{Mode: printer.UseSpaces | printer.TabIndent | printer.SourcePos, Tabwidth: 8}
		if err := cfg.Fprint(&buf, g.fset, s.file); err != nil {
			fail("printing %s: %v", rel, err)
		}
		src, err := format.Source(buf.Bytes())
		if err != nil {
			fail("rewritten %s is not valid Go: %v", rel, err)
		}
		if _, err := parser.ParseFile(token.NewFileSet(), s.abs, src, parser.SkipObjectResolution); err != nil {
			fail("rewritten %s does not parse: %v", rel, err)
		}
		dst := filepath.Join(g.out, "src", filepath.FromSlash(rel))
		if err := os.MkdirAll(filepath.Dir(dst), 0o755); err != nil {
			fail("%v", err)
		}
		if err := os.WriteFile(dst, src, 0o644); err != nil {
			fail("%v", err)
		}
		g.replace[s.abs] = dst
		g.manifest = append(g.manifest, fmt.Sprintf("rewritten %s <- %s [%s]", s.abs, dst, strings.Join(dedup(s.ops), "; ")))
	}
	ov := struct{ Replace map[string]string }{g.replace}
	b, err := json.MarshalIndent(ov, "", "  ")
	if err != nil {
		fail("%v", err)
	}
	if err := os.WriteFile(filepath.Join(g.out, "overlay.json"), append(b, '\n'), 0o644); err != nil {
		fail("%v", err)
	}
	sort.Strings(g.manifest)
	hdr := fmt.Sprintf("# mkoverlay variant=%s repo=%s module=%s\n", g.variant, g.repo, g.module)
	if err := os.WriteFile(filepath.Join(g.out, "MANIFEST.txt"), []byte(hdr+strings.Join(g.manifest, "\n")+"\n"), 0o644); err != nil {
		fail("%v", err)
	}
	fmt.Printf("mkoverlay: variant=%s %d overlay entries -> %s\n", g.variant, len(g.replace), filepath.Join(g.out, "overlay.json"))
}

func dedup(in []string) []string {
	seen := map[string]int{}
	var out []string
	for _, s := range in {
		if seen[s] == 0 {
			out = append(out, s)
		}
		seen[s]++
	}
	for i, s := range out {
		if seen[s] > 1 {
			out[i] = fmt.Sprintf("%s x%d", s, seen[s])
		}
	}
	return out
}

// keepDirectives filters every comment group in place down to compiler
// directives (//go:..., // +build, //line, //export) and returns the groups
// that are still non-empty; references to emptied groups are cleared.
func keepDirectives(f *ast.File) []*ast.CommentGroup {
	var out []*ast.CommentGroup
	for _, cg := range f.Comments {
		var keep []*ast.Comment
		for _, c := range cg.List {
			if strings.HasPrefix(c.Text, "//go:") || strings.HasPrefix(c.Text, "// +build") ||
				strings.HasPrefix(c.Text, "//line ") || strings.HasPrefix(c.Text, "//export ") {
				keep = append(keep, c)
			}
		}
		cg.List = keep
		if len(keep) > 0 {
			out = append(out, cg)
		}
	}
	fix := func(p **ast.CommentGroup) {
		if *p != nil && len((*p).List) == 0 {
			*p = nil
		}
	}
	ast.Inspect(f, func(n ast.Node) bool {
		switch x := n.(type) {
		case *ast.File:
			fix(&x.Doc)
		case *ast.GenDecl:
			fix(&x.Doc)
		case *ast.FuncDecl:
			fix(&x.Doc)
		case *ast.TypeSpec:
			fix(&x.Doc)
			fix(&x.Comment)
		case *ast.ValueSpec:
			fix(&x.Doc)
			fix(&x.Comment)
		case *ast.ImportSpec:
			fix(&x.Doc)
			fix(&x.Comment)
		case *ast.Field:
			fix(&x.Doc)
			fix(&x.Comment)
		}
		return true
	})
	return out
}
