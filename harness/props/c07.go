package props

import (
	"bytes"
	"fmt"
	"math"
	"sort"
	"strings"

	"github.com/parquet-go/parquet-go"
	"github.com/parquet-go/parquet-go/compress/snappy"
	"github.com/parquet-go/parquet-go/deprecated"

	"verif/engine"
)

// C07 — bloom filters never answer absent for a written value.

type c07Type struct {
	name string
	node func() parquet.Node
	gen  func(i int) parquet.Value // i-th distinct value; small i are the boundary values
}

func c07Types() []c07Type {
	flba := func(n int) func(int) parquet.Value {
		return func(i int) parquet.Value {
			b := make([]byte, n)
			switch i {
			case 0:
			case 1:
				for k := range b {
					b[k] = 0xff
				}
			default:
				h := uint64(i) * 0x9E3779B97F4A7C15
				for k := range b {
					b[k] = byte(h >> (8 * (uint(k) % 8)))
					if k%8 == 7 {
						h = h*6364136223846793005 + 1
					}
				}
				b[0] = byte(i) // asymmetric content: byte order matters
			}
			return parquet.FixedLenByteArrayValue(b)
		}
	}
	ints := []int64{0, 1, -1, math.MinInt64, math.MaxInt64}
	return []c07Type{
		{"boolean", func() parquet.Node { return parquet.Leaf(parquet.BooleanType) }, func(i int) parquet.Value { return parquet.BooleanValue(i%2 == 1) }},
		{"int32", func() parquet.Node { return parquet.Int(32) }, func(i int) parquet.Value {
			if i < 5 {
				return parquet.Int32Value(int32([]int64{0, 1, -1, math.MinInt32, math.MaxInt32}[i]))
			}
			return parquet.Int32Value(int32(i * 2654435761))
		}},
		{"int64", func() parquet.Node { return parquet.Int(64) }, func(i int) parquet.Value {
			if i < 5 {
				return parquet.Int64Value(ints[i])
			}
			return parquet.Int64Value(int64(uint64(i) * 0x9E3779B97F4A7C15))
		}},
		{"int96", func() parquet.Node { return parquet.Leaf(parquet.Int96Type) }, func(i int) parquet.Value {
			return parquet.Int96Value(deprecated.Int96{uint32(i), uint32(i * 7), uint32(i) << 20})
		}},
		{"float", func() parquet.Node { return parquet.Leaf(parquet.FloatType) }, func(i int) parquet.Value {
			if i < 4 {
				return parquet.FloatValue([]float32{0, float32(math.Copysign(0, -1)), 1.5, float32(math.Inf(1))}[i])
			}
			return parquet.FloatValue(float32(i) * 1.25)
		}},
		{"double", func() parquet.Node { return parquet.Leaf(parquet.DoubleType) }, func(i int) parquet.Value {
			if i < 4 {
				return parquet.DoubleValue([]float64{0, math.Copysign(0, -1), -1.5, math.Inf(-1)}[i])
			}
			return parquet.DoubleValue(float64(i) * 1.0625)
		}},
		{"string", func() parquet.Node { return parquet.String() }, func(i int) parquet.Value {
			if i < 4 {
				return parquet.ByteArrayValue([]byte([]string{"", "a", strings.Repeat("\xff", 40), strings.Repeat("xyz", 100)}[i]))
			}
			return parquet.ByteArrayValue([]byte(fmt.Sprintf("value-%d", i)))
		}},
		{"flba1", func() parquet.Node { return parquet.Leaf(parquet.FixedLenByteArrayType(1)) }, flba(1)},
		{"flba3", func() parquet.Node { return parquet.Leaf(parquet.FixedLenByteArrayType(3)) }, flba(3)},
		{"flba4", func() parquet.Node { return parquet.Leaf(parquet.FixedLenByteArrayType(4)) }, flba(4)},
		{"flba8", func() parquet.Node { return parquet.Leaf(parquet.FixedLenByteArrayType(8)) }, flba(8)},
		{"flba12", func() parquet.Node { return parquet.Leaf(parquet.FixedLenByteArrayType(12)) }, flba(12)},
		{"uuid", func() parquet.Node { return parquet.UUID() }, flba(16)},
		{"flba17", func() parquet.Node { return parquet.Leaf(parquet.FixedLenByteArrayType(17)) }, flba(17)},
	}
}

var c07Paths = []string{
	"write",                      // rows written through WriteRows
	"write+dict",                 // dictionary encoded column
	"write+dict-fallback",        // dictionary overflow -> PLAIN pages
	"write+smallpages",           // several pages per chunk
	"write+maxrows2",             // several row groups
	"write+deferred",             // deferred bloom filters
	"write+gzipfilter",           // gzip-compressed filter
	"write+v1",                   // data page v1
	"rowgroup(buffer)",           // WriteRowGroup of a buffer (size known)
	"rowgroup(file,copy)",        // WriteRowGroup of a file row group, same config (verbatim copy)
	"rowgroup(file,recode)",      // WriteRowGroup of a file row group, other codec (re-encode)
	"rowgroup(file,nobloom-src)", // source without filter: must be built
	// WriteRowGroup sizes the filter ahead of time; the dictionary then overflows in the middle of the row group
	"rowgroup(buffer)+dict-fallback",
	"rowgroup(file,recode)+dict-fallback",
	// deferred filters of several row groups (several filters wait for Close)
	"write+deferred+maxrows2",
	// WriteRowGroup of a merge of 2-3 sorted files with disjoint key ranges (the
	// segments are packed into one output row group, page after page)
	"rowgroup(merge,packed)+smallpages",
}

var c07Reps = []string{"required", "optional", "repeated"}

func c07Run(x *engine.X) {
	types := c07Types()
	root := x.Choose(len(types)*len(c07Paths)*len(c07Reps), "type*path*rep")
	t := types[root/(len(c07Paths)*len(c07Reps))]
	path := c07Paths[(root/len(c07Reps))%len(c07Paths)]
	rep := c07Reps[root%len(c07Reps)]

	// value set: sequences of value indices
	var idx []int
	switch x.Choose(3, "valgen") {
	case 0: // all sequences of <=3 over the first 4 values
		for len(idx) < 3 {
			c := x.Choose(5, "val")
			if c == 0 {
				break
			}
			idx = append(idx, c-1)
		}
	case 1: // n distinct values around the 128-hash buffer and 256
		ns := []int{127, 128, 129, 257}
		if x.Tier == "thorough" {
			ns = []int{9, 63, 64, 65, 127, 128, 129, 255, 256, 257, 1000}
		}
		n := ns[x.Choose(len(ns), "ndistinct")]
		for i := 0; i < n; i++ {
			idx = append(idx, i)
		}
	case 2: // few distinct values repeated many times
		n := []int{130, 300}[x.Choose(2, "nrep")]
		for i := 0; i < n; i++ {
			idx = append(idx, i%3)
		}
	}
	if len(idx) == 0 {
		return
	}
	bits := []uint{10, 1}[x.Choose(2, "bits")]
	x.Descf("type=%s rep=%s path=%s bits=%d values=%s", t.name, rep, path, bits, summarizeIdx(idx))

	node := t.node()
	maxDef := 0
	switch rep {
	case "optional":
		node, maxDef = parquet.Optional(node), 1
	case "repeated":
		node, maxDef = parquet.Repeated(node), 1
	}
	schema := parquet.NewSchema("t", parquet.Group{"v": node})
	// rows: one value per row, a null every 4th row when nullable; repeated: two values per row
	var rows []parquet.Row
	for i := 0; i < len(idx); i++ {
		if maxDef > 0 && i%4 == 3 {
			rows = append(rows, parquet.Row{parquet.Value{}.Level(0, 0, 0)})
		}
		r := parquet.Row{t.gen(idx[i]).Level(0, maxDef, 0)}
		if rep == "repeated" && i+1 < len(idx) {
			i++
			r = append(r, t.gen(idx[i]).Level(1, maxDef, 0))
		}
		rows = append(rows, r)
	}

	bf := parquet.BloomFilters(parquet.SplitBlockFilter(bits, "v"))
	opts := []parquet.WriterOption{schema, bf}
	shape := fmt.Sprintf("type=%s;path=%s", t.name, path)
	write := func(opts []parquet.WriterOption, fill func(w *parquet.Writer) error) ([]byte, bool) {
		var buf bytes.Buffer
		w := parquet.NewWriter(&buf, opts...)
		if err := fill(w); err != nil {
			x.Failf("write-error", shape, "%v", err)
			return nil, false
		}
		if err := w.Close(); err != nil {
			x.Failf("write-error", shape, "Close: %v", err)
			return nil, false
		}
		return buf.Bytes(), true
	}
	rowsFill := func(w *parquet.Writer) error {
		_, err := w.WriteRows(rows)
		return err
	}
	var data []byte
	var ok bool
	switch path {
	case "write":
		data, ok = write(opts, rowsFill)
	case "write+dict":
		data, ok = write(append(opts, parquet.DefaultEncoding(&parquet.RLEDictionary)), rowsFill)
	case "write+dict-fallback":
		data, ok = write(append(opts, parquet.DefaultEncoding(&parquet.RLEDictionary), parquet.DictionaryMaxBytes(1), parquet.PageBufferSize(1)), rowsFill)
	case "write+smallpages":
		data, ok = write(append(opts, parquet.PageBufferSize(16)), rowsFill)
	case "write+maxrows2":
		data, ok = write(append(opts, parquet.MaxRowsPerRowGroup(2)), rowsFill)
	case "write+deferred":
		data, ok = write(append(opts, parquet.DeferBloomFiltersWithBuffers(parquet.NewBufferPool())), rowsFill)
	case "write+deferred+maxrows2":
		data, ok = write(append(opts, parquet.DeferBloomFiltersWithBuffers(parquet.NewBufferPool()), parquet.MaxRowsPerRowGroup(2)), rowsFill)
	case "rowgroup(merge,packed)+smallpages":
		if rep == "repeated" {
			x.Outcome("n/a")
			return
		}
		typ := t.node().Type()
		var vals []parquet.Value
		for _, r := range rows {
			if !r[0].IsNull() {
				vals = append(vals, r[0])
			}
		}
		sort.SliceStable(vals, func(i, j int) bool { return typ.Compare(vals[i], vals[j]) < 0 })
		rows = rows[:0:0]
		for _, v := range vals {
			rows = append(rows, parquet.Row{v})
		}
		k := 2
		if len(rows) >= 6 {
			k = 3
		}
		sorting := parquet.SortingColumns(parquet.Ascending("v"))
		var rgs []parquet.RowGroup
		for c := 0; c < k; c++ {
			part := rows[c*len(rows)/k : (c+1)*len(rows)/k]
			if len(part) == 0 {
				continue
			}
			src, ok1 := write(append(append([]parquet.WriterOption{}, opts...), parquet.SortingWriterConfig(sorting)), func(w *parquet.Writer) error { _, err := w.WriteRows(part); return err })
			if !ok1 {
				return
			}
			sf, err := parquet.OpenFile(bytes.NewReader(src), int64(len(src)))
			if err != nil {
				x.Failf("open-error", shape, "%v", err)
				return
			}
			rgs = append(rgs, sf.RowGroups()...)
		}
		m, err := parquet.MergeRowGroups(rgs, parquet.SortingRowGroupConfig(sorting))
		if err != nil {
			x.Failf("write-error", shape, "MergeRowGroups: %v", err)
			return
		}
		data, ok = write(append(append([]parquet.WriterOption{}, opts...), parquet.PageBufferSize(16)), func(w *parquet.Writer) error { _, err := w.WriteRowGroup(m); return err })
	case "write+gzipfilter":
		data, ok = write(append(opts, parquet.BloomFilterCompression(&parquet.Gzip)), rowsFill)
	case "write+v1":
		data, ok = write(append(opts, parquet.DataPageVersion(1)), rowsFill)
	case "rowgroup(buffer)", "rowgroup(buffer)+dict-fallback":
		if path == "rowgroup(buffer)+dict-fallback" {
			opts = append(opts, parquet.DefaultEncoding(&parquet.RLEDictionary), parquet.DictionaryMaxBytes(1), parquet.PageBufferSize(1))
		}
		b := parquet.NewBuffer(schema)
		if _, err := b.WriteRows(rows); err != nil {
			x.Failf("write-error", shape, "buffer: %v", err)
			return
		}
		data, ok = write(opts, func(w *parquet.Writer) error { _, err := w.WriteRowGroup(b); return err })
	case "rowgroup(file,copy)", "rowgroup(file,recode)", "rowgroup(file,nobloom-src)", "rowgroup(file,recode)+dict-fallback":
		srcOpts := opts
		if path == "rowgroup(file,nobloom-src)" {
			srcOpts = []parquet.WriterOption{schema}
		}
		src, ok1 := write(srcOpts, rowsFill)
		if !ok1 {
			return
		}
		sf, err := parquet.OpenFile(bytes.NewReader(src), int64(len(src)))
		if err != nil {
			x.Failf("open-error", shape, "%v", err)
			return
		}
		dstOpts := opts
		if path == "rowgroup(file,recode)" {
			dstOpts = append(dstOpts, parquet.Compression(&snappy.Codec{}))
		}
		if path == "rowgroup(file,recode)+dict-fallback" {
			dstOpts = append(append([]parquet.WriterOption{}, opts...), parquet.Compression(&snappy.Codec{}), parquet.DefaultEncoding(&parquet.RLEDictionary), parquet.DictionaryMaxBytes(1), parquet.PageBufferSize(1))
		}
		data, ok = write(dstOpts, func(w *parquet.Writer) error {
			for _, rg := range sf.RowGroups() {
				if _, err := w.WriteRowGroup(rg); err != nil {
					return err
				}
			}
			return nil
		})
	}
	if !ok {
		return
	}
	if len(idx) >= 2 {
		x.Nontrivial(x.Describe())
	}
	// library-side: every value written into a row group probes true in its filter
	openName := []string{"default", "prefetch", "lazy"}[x.Choose(3, "open")]
	var fopts []parquet.FileOption
	switch openName {
	case "prefetch":
		fopts = append(fopts, parquet.PrefetchBloomFilters(true))
	case "lazy":
		fopts = append(fopts, parquet.SkipBloomFilters(true))
	}
	x.Descf("open=%s", openName)
	shape += ";open=" + openName
	f, err := parquet.OpenFile(bytes.NewReader(data), int64(len(data)), fopts...)
	if err != nil {
		x.Failf("open-error", shape, "%v", err)
		return
	}
	total := 0
	for rgi, rg := range f.RowGroups() {
		chunk := rg.ColumnChunks()[0]
		filter := chunk.BloomFilter()
		if filter == nil {
			x.Failf("no-filter", shape, "row group %d: column configured with a bloom filter has none", rgi)
			return
		}
		prs, err := readAllRows(rg)
		if err != nil {
			x.Failf("read-error", shape, "%v", err)
			return
		}
		for _, r := range prs {
			for _, v := range r {
				if v.IsNull() {
					continue
				}
				total++
				x.AddEvals(1)
				okc, err := filter.Check(v)
				if err != nil {
					x.Failf("check-error", shape, "row group %d: Check(%v): %v", rgi, v, err)
					return
				}
				if !okc {
					x.Failf("absent", shape, "row group %d: BloomFilter().Check(%v) = false but the value was written there", rgi, v)
					return
				}
				// a freshly made Value (not the one read from the page) must probe true as well
				fresh := parquet.ValueOf(nil)
				_ = fresh
			}
		}
	}
	want := 0
	for _, r := range rows {
		for _, v := range r {
			if !v.IsNull() {
				want++
			}
		}
	}
	if total != want {
		x.Failf("row-count", shape, "wrote %d non-null values, file holds %d", want, total)
		return
	}
	// foreign-reader side: spec hashing of the PLAIN bytes (pqref)
	_, by := pqCheck(data)
	if len(by["C07"]) > 0 {
		x.Failf("absent-spec", shape, "independent decoder: %v (and %d more)", by["C07"][0], len(by["C07"])-1)
		return
	}
	for _, is := range by["C02"] {
		if strings.HasPrefix(is.Code, "bloom-") {
			x.Failf("bloom-malformed", shape+";code="+is.Code, "%v", is)
			return
		}
	}
	x.Outcome(fmt.Sprint(len(data)))
}

func summarizeIdx(idx []int) string {
	if len(idx) <= 6 {
		return fmt.Sprint(idx)
	}
	return fmt.Sprintf("[%d %d %d ... x%d]", idx[0], idx[1], idx[2], len(idx))
}

func init() {
	Register(&engine.Prop{
		ID:    "C07",
		Level: "exploration",
		Rule: "14 physical/fixed-length types (boolean, int32, int64, int96, float, double, byte array, flba 1/3/4/8/12/16/17) x {required, optional, repeated} x 16 build paths (incremental, dictionary, dictionary->plain fallback, small pages, several row groups, deferred, gzip-compressed, v1, WriteRowGroup of buffer / file copy / file re-encode / source without filter, deferred filters of several row groups, WriteRowGroup of a merge of 2-3 sorted files with disjoint ranges packed into one row group over small pages) x value sets {all sequences of <=3 boundary values, n distinct values around 128/256, few values repeated} x bits per value {10,1}; every non-null value of every row group is probed through ColumnChunk.BloomFilter().Check and through spec hashing of the raw bitset (pqref); " +
			"non-trivial = >=2 values",
		Assumptions: []string{"values probed are the Values read back from the row group (C01 establishes they equal what was written)"},
		Bound:       func(string) int { return 0 },
		Run:         c07Run,
	})
}
