package props

import (
	"bytes"
	"fmt"
	"strings"
	"time"

	"github.com/parquet-go/parquet-go"
	"github.com/parquet-go/parquet-go/compress"
	"github.com/parquet-go/parquet-go/compress/brotli"
	"github.com/parquet-go/parquet-go/compress/gzip"
	"github.com/parquet-go/parquet-go/compress/lz4"
	"github.com/parquet-go/parquet-go/compress/snappy"
	"github.com/parquet-go/parquet-go/compress/uncompressed"
	"github.com/parquet-go/parquet-go/compress/zstd"

	"verif/engine"
)

// C20 — compression codecs are lossless whatever was compressed before.
//
// Space: codec x ALL histories of <=H operations from {Encode(x), Decode(Encode(x)),
// Decode(y) for invalid y} on ONE shared codec value, with the pool of
// compressor/decompressor instances forced to always reuse (or never reuse),
// followed by the probe Decode(Encode(x)) for every x and every destination
// buffer kind.

type c20Codec struct {
	name string
	mk   func() compress.Codec
}

var c20Codecs = []c20Codec{
	{"snappy", func() compress.Codec { return &snappy.Codec{} }},
	{"gzip", func() compress.Codec { return &gzip.Codec{} }},
	{"gzip-default", func() compress.Codec { return &gzip.Codec{Level: gzip.DefaultCompression} }},
	{"brotli-default", func() compress.Codec {
		return &brotli.Codec{Quality: brotli.DefaultQuality, LGWin: brotli.DefaultLGWin}
	}},
	{"brotli", func() compress.Codec { return &brotli.Codec{} }},
	{"zstd", func() compress.Codec { return &zstd.Codec{} }},
	{"lz4-fastest", func() compress.Codec { return &lz4.Codec{Level: lz4.Fastest} }},
	{"lz4-hc", func() compress.Codec { return &lz4.Codec{Level: lz4.Level5} }},
	{"uncompressed", func() compress.Codec { return &uncompressed.Codec{} }},
}

func xorshiftBytes(n int) []byte {
	b := make([]byte, n)
	s := uint64(88172645463325252)
	for i := range b {
		s ^= s << 13
		s ^= s >> 7
		s ^= s << 17
		b[i] = byte(s)
	}
	return b
}

var c20Inputs = func() [][]byte {
	text := []byte(strings.Repeat("the quick brown fox jumps over the lazy dog. ", 7))[:300]
	return [][]byte{
		{},
		{0x42},
		[]byte("hello"),
		bytes.Repeat([]byte{0}, 64<<10),
		xorshiftBytes(64<<10 + 1),
		text,
		bytes.Repeat([]byte{1, 2, 3, 4}, 2000),
	}
}()

var c20InputNames = []string{"empty", "1byte", "5bytes", "64KiB-zeros", "64KiB+1-random", "text300", "period4x2000"}

// invalid inputs for a codec, derived from a valid frame
func c20Invalid(c compress.Codec) [][]byte {
	valid, _ := c.Encode(nil, c20Inputs[5])
	valid = append([]byte(nil), valid...)
	out := [][]byte{{}, {0x01}, {0xff, 0xff, 0xff, 0xff}, {0x01, 0x02, 0x03, 0x04}}
	for _, cut := range []int{1, len(valid) / 2, len(valid) - 1} {
		if cut > 0 && cut < len(valid) {
			out = append(out, append([]byte(nil), valid[:cut]...))
		}
	}
	// a complete valid frame followed by garbage
	out = append(out, append(append([]byte(nil), valid...), 0xde, 0xad, 0xbe, 0xef, 0x00, 0x01, 0x02, 0x03))
	for _, pos := range []int{0, len(valid) / 2, len(valid) - 1} {
		if pos >= 0 && pos < len(valid) {
			f := append([]byte(nil), valid...)
			f[pos] ^= 0x55
			out = append(out, f)
		}
	}
	return out
}

// dst kinds for the probe
func c20Dst(kind int, n int, prev []byte) []byte {
	switch kind {
	case 0:
		return nil
	case 1:
		return make([]byte, 0)
	case 2:
		return make([]byte, 0, 1)
	case 3:
		return make([]byte, 0, n)
	case 4:
		return make([]byte, 0, 4*n+16)
	default:
		return prev // alias of a previous result
	}
}

type c20Result struct {
	out      []byte
	err      error
	panicked any
	timedOut bool
}

// call runs f with panic recovery and a deadline (a Decode that never comes
// back makes every later call impossible).
func c20Call(f func() ([]byte, error)) c20Result {
	done := make(chan c20Result, 1)
	go func() {
		var r c20Result
		defer func() {
			if p := recover(); p != nil {
				r.panicked = p
			}
			done <- r
		}()
		r.out, r.err = f()
	}()
	select {
	case r := <-done:
		return r
	case <-time.After(20 * time.Second):
		return c20Result{timedOut: true}
	}
}

func c20Run(x *engine.X) {
	ci := x.Choose(len(c20Codecs), "codec")
	cc := c20Codecs[ci]
	policy := []string{"always-reuse", "never-reuse"}[x.Choose(2, "pool")]
	if policy == "always-reuse" {
		parquet.VerifSetPoolPolicy(parquet.VerifPoolAlwaysReuse)
	} else {
		parquet.VerifSetPoolPolicy(parquet.VerifPoolNeverReuse)
	}
	parquet.VerifResetPools()
	defer parquet.VerifSetPoolPolicy(parquet.VerifPoolReal)
	codec := cc.mk()
	invalid := c20Invalid(codec)
	parquet.VerifResetPools()

	H := 2
	if x.Tier == "thorough" {
		H = 3
	}
	nops := 2*len(c20Inputs) + len(invalid)
	var hist []string
	var prev []byte
	shape := "codec=" + cc.name
	for d := 0; d < H; d++ {
		c := x.Choose(nops+1, "op")
		if c == 0 {
			break
		}
		c--
		switch {
		case c < len(c20Inputs):
			hist = append(hist, "Encode("+c20InputNames[c]+")")
			r := c20Call(func() ([]byte, error) { return codec.Encode(nil, c20Inputs[c]) })
			if r.timedOut || r.panicked != nil || r.err != nil {
				x.Failf("encode-failed", shape, "after %v: Encode of a valid input failed: err=%v panic=%v timeout=%v", hist, r.err, r.panicked, r.timedOut)
				return
			}
			prev = r.out
		case c < 2*len(c20Inputs):
			i := c - len(c20Inputs)
			hist = append(hist, "RoundTrip("+c20InputNames[i]+")")
			enc, err := codec.Encode(nil, c20Inputs[i])
			if err != nil {
				x.Failf("encode-failed", shape, "Encode: %v", err)
				return
			}
			enc = append([]byte(nil), enc...)
			r := c20Call(func() ([]byte, error) { return codec.Decode(prev, enc) })
			if r.timedOut || r.panicked != nil || r.err != nil || !bytes.Equal(r.out, c20Inputs[i]) {
				x.Failf("roundtrip", shape+";input="+c20InputNames[i], "after %v: Decode(Encode(x)) wrong: err=%v panic=%v timeout=%v len=%d want %d", hist, r.err, r.panicked, r.timedOut, len(r.out), len(c20Inputs[i]))
				return
			}
			prev = r.out
		default:
			i := c - 2*len(c20Inputs)
			hist = append(hist, fmt.Sprintf("Decode(invalid#%d %dB)", i, len(invalid[i])))
			r := c20Call(func() ([]byte, error) { return codec.Decode(nil, invalid[i]) })
			if r.timedOut {
				x.Failf("no-return", shape+";op=decode-invalid", "after %v: Decode of invalid input #%d (%x...) did not return within 20s", hist, i, head(invalid[i], 8))
				return
			}
			// an error, some bytes, or a recovered panic are all acceptable outcomes of decoding garbage
			if r.panicked != nil {
				x.Count("decode-invalid-panicked")
			}
		}
	}
	x.Descf("codec=%s pool=%s history=%v", cc.name, policy, hist)
	if len(hist) > 0 {
		x.Nontrivial(x.Describe())
	}
	// model-checking evidence: a state is (codec, pool policy, history prefix), a transition is one codec call
	for i := 0; i <= len(hist); i++ {
		x.State(fmt.Sprintf("%s|%s|%v", cc.name, policy, hist[:i]))
	}
	x.CountN("transitions", int64(len(hist)))
	// probes
	for i, in := range c20Inputs {
		enc, err := codec.Encode(nil, in)
		if err != nil {
			x.Failf("encode-failed", shape, "after %v: Encode(%s): %v", hist, c20InputNames[i], err)
			return
		}
		enc = append([]byte(nil), enc...)
		for dk := 0; dk <= 5; dk++ {
			x.AddEvals(1)
			x.CountN("transitions", 1)
			dst := c20Dst(dk, len(in), prev)
			r := c20Call(func() ([]byte, error) { return codec.Decode(dst, enc) })
			if r.timedOut || r.panicked != nil || r.err != nil || !bytes.Equal(r.out, in) {
				x.Failf("probe", fmt.Sprintf("%s;input=%s;dst=%d", shape, c20InputNames[i], dk),
					"after %v: Decode(Encode(%s)) with dst kind %d: err=%v panic=%v timeout=%v got %d bytes want %d (first diff at %d)",
					hist, c20InputNames[i], dk, r.err, r.panicked, r.timedOut, len(r.out), len(in), firstDiff(r.out, in))
				return
			}
			prev = r.out
		}
		// every destination capacity around the boundaries for the small inputs
		if len(in) <= 300 {
			for c := 0; c <= len(in)+2; c++ {
				x.AddEvals(1)
				r := c20Call(func() ([]byte, error) { return codec.Decode(make([]byte, 0, c), enc) })
				if r.err != nil || r.panicked != nil || !bytes.Equal(r.out, in) {
					x.Failf("probe", fmt.Sprintf("%s;input=%s;dst=cap", shape, c20InputNames[i]),
						"after %v: Decode(Encode(%s)) into cap(dst)=%d: err=%v panic=%v got %d bytes want %d", hist, c20InputNames[i], c, r.err, r.panicked, len(r.out), len(in))
					return
				}
			}
		}
	}
	// an Encode result stays decodable while other calls are made on the codec:
	// a := Encode(x); Encode(y); Decode(a) == x, for every pair, with the
	// zero-capacity destinations that make the codec allocate the output itself
	for i, in := range c20Inputs {
		for _, j := range []int{3, 5} { // second input: 64 KiB of zeros, 300 bytes of text
			for dk := 0; dk <= 1; dk++ {
				x.AddEvals(1)
				a, err := codec.Encode(c20Dst(dk, 0, nil), in)
				if err != nil {
					x.Failf("encode-failed", shape, "Encode(%s): %v", c20InputNames[i], err)
					return
				}
				if _, err := codec.Encode(c20Dst(dk, 0, nil), c20Inputs[j]); err != nil {
					x.Failf("encode-failed", shape, "Encode(%s): %v", c20InputNames[j], err)
					return
				}
				r := c20Call(func() ([]byte, error) { return codec.Decode(nil, a) })
				if r.timedOut || r.panicked != nil || r.err != nil || !bytes.Equal(r.out, in) {
					x.Failf("probe", fmt.Sprintf("%s;input=%s;delayed", shape, c20InputNames[i]),
						"after %v: a := Encode(%s); Encode(%s); Decode(a): err=%v panic=%v got %d bytes want %d (first diff at %d)",
						hist, c20InputNames[i], c20InputNames[j], r.err, r.panicked, len(r.out), len(in), firstDiff(r.out, in))
					return
				}
			}
		}
	}
	x.Outcome("ok")
}

func head(b []byte, n int) []byte {
	if len(b) > n {
		return b[:n]
	}
	return b
}

func firstDiff(a, b []byte) int {
	for i := 0; i < len(a) && i < len(b); i++ {
		if a[i] != b[i] {
			return i
		}
	}
	if len(a) != len(b) {
		if len(a) < len(b) {
			return len(a)
		}
		return len(b)
	}
	return -1
}

func init() {
	Register(&engine.Prop{
		ID:    "C20",
		Level: "model_checking",
		MC:    true,
		Rule: "7 codecs (snappy, gzip, brotli, zstd, lz4 fastest, lz4 HC, uncompressed) x {always-reuse, never-reuse} instance pools x ALL histories of <=2 (3 thorough) operations from {Encode(x), Decode(Encode(x)) for 7 inputs incl. empty / 64 KiB of zeros / 64 KiB+1 incompressible; Decode(y) for 11 invalid inputs: empty, garbage, truncated and bit-flipped frames, a valid frame followed by garbage} on one shared codec value, then the probe Decode(Encode(x)) for every x x 6 destination-buffer kinds (nil, empty, cap 1, exact, 4x, alias of the previous result) and every destination capacity 0..len+2 for small inputs, and a := Encode(x); Encode(y); Decode(a) for every x and two y; " +
			"non-trivial = non-empty history",
		Assumptions: []string{
			"decoding garbage may return an error, bytes, or panic (recovered by the harness): only a Decode that does not return (20 s) or an effect on later calls is a violation",
			"the schedule clause (several goroutines on one codec value) is explored under C15's scheduler scenario S8",
		},
		Bound:    func(string) int { return 0 },
		Run:      c20Run,
		Risky:    true,
		Shards:   8,
		MemLimit: 4 << 30,
	})
}
