package props

import (
	"bytes"
	"fmt"
	"io"
	"sort"
	"strings"

	"github.com/parquet-go/parquet-go"
	"github.com/parquet-go/parquet-go/compress/snappy"

	"verif/engine"
	"verif/pqref"
)

// C11 — row-group copy and re-encode fast paths are indistinguishable from
// the row path.

type xNest struct {
	K    int32
	Vals []int64
}

// (fields in the order of their names: the schema of a merge, which orders
// columns by name, is then the schema of its inputs and the chunk-level paths
// of WriteRowGroup apply to merged sources too)
type XRow struct {
	F  float64
	ID int64
	L  []int32
	N  []xNest // leaf N.Vals has two repeated ancestors
	O  *string
	S  string `parquet:",dict"`
}

// c11EvenID: rows whose ID (column 1: F comes first) is even.
func c11EvenID(r parquet.Row) bool {
	for _, v := range r {
		if v.Column() == 1 {
			return v.Int64()%2 == 0
		}
	}
	return false
}

func xrowString(r XRow) string {
	o := "nil"
	if r.O != nil {
		o = *r.O
	}
	return fmt.Sprintf("%d|%s|%s|%v|%v|%v", r.ID, r.S, o, r.L, r.F, r.N)
}

func c11Rows(lo, hi int, longList bool) []XRow {
	var rows []XRow
	for i := lo; i < hi; i++ {
		r := XRow{ID: int64(i), S: fmt.Sprintf("s%d", i%4), F: float64(i) * 0.5}
		if i%3 != 0 {
			r.O = ptrTo(fmt.Sprintf("o%d", i))
		}
		for j := 0; j < i%4; j++ {
			r.L = append(r.L, int32(i*10+j))
		}
		for j := 0; j < i%3; j++ {
			n := xNest{K: int32(i + j)}
			for k := 0; k < (i+j)%3; k++ {
				n.Vals = append(n.Vals, int64(i*100+j*10+k))
			}
			r.N = append(r.N, n)
		}
		if longList && i == lo+2 {
			// nested lists whose values straddle the 1024-value batches at every repetition level
			r.N = nil
			for j := 0; j < 3; j++ {
				n := xNest{K: int32(j)}
				for k := 0; k < 700; k++ {
					n.Vals = append(n.Vals, int64(j*1000+k))
				}
				r.N = append(r.N, n)
			}
		}
		if longList && i == lo+1 {
			// a repeated row that straddles the 1024-value batches of the column re-encode path
			r.L = nil
			for j := 0; j < 1500; j++ {
				r.L = append(r.L, int32(j))
			}
		}
		rows = append(rows, r)
	}
	return rows
}

// c11Config is a writer configuration from the reduced lattice.
type c11Config struct {
	sorting bool
	desc    []string
	opts    []parquet.WriterOption
	maxRows int64
	stats   bool
	bloom   bool
}

func chooseC11Config(x *engine.X, label string) *c11Config {
	c := &c11Config{}
	add := func(d string, o ...parquet.WriterOption) {
		c.desc = append(c.desc, d)
		c.opts = append(c.opts, o...)
	}
	if x.Deviate(2, label+".codec") == 1 {
		add("snappy", parquet.Compression(&snappy.Codec{}))
	}
	switch x.Deviate(4, label+".enc") {
	case 1:
		add("plain", encOption("plain")...)
	case 2:
		add("dict", encOption("dict")...)
	case 3:
		add("delta", encOption("delta")...)
	}
	if x.Deviate(2, label+".pagev") == 1 {
		add("v1", parquet.DataPageVersion(1))
	}
	if x.Deviate(2, label+".stats") == 1 {
		c.stats = true
		add("stats", parquet.DataPageStatistics(true))
	}
	switch x.Deviate(4, label+".bloom") {
	case 3: // the filters wait in buffers for Close
		c.bloom = true
		add("bloom10+deferred", parquet.BloomFilters(parquet.SplitBlockFilter(10, "ID"), parquet.SplitBlockFilter(10, "S")), parquet.DeferBloomFiltersWithBuffers(parquet.NewBufferPool()))
	case 1:
		c.bloom = true
		add("bloom10", parquet.BloomFilters(parquet.SplitBlockFilter(10, "ID"), parquet.SplitBlockFilter(10, "S")))
	case 2:
		c.bloom = true
		add("bloom5", parquet.BloomFilters(parquet.SplitBlockFilter(5, "ID"), parquet.SplitBlockFilter(5, "S")))
	}
	switch x.Deviate(3, label+".maxrows") {
	case 1:
		c.maxRows = 5
		add("maxrows5", parquet.MaxRowsPerRowGroup(5))
	case 2: // larger than any source row group, smaller than source + buffered rows
		c.maxRows = 14
		add("maxrows14", parquet.MaxRowsPerRowGroup(14))
	}
	if label == "dst" && x.Deviate(2, label+".sorting") == 1 {
		// the destination declares the order the sources are in (ascending ID)
		c.sorting = true
		add("sorted", parquet.SortingWriterConfig(parquet.SortingColumns(parquet.Ascending("ID"))))
	}
	switch x.Deviate(3, label+".dictmax") {
	case 1:
		add("dictmax1+pagebuf1", parquet.DictionaryMaxBytes(1), parquet.PageBufferSize(1))
	case 2:
		add("pagebuf64", parquet.PageBufferSize(64))
	}
	return c
}

var c11Sources = []string{"file", "file(2rg)->multi", "buffer", "merge(disjoint)", "merge(overlap)", "merge(dedupe)", "convert(identity)", "convert(drop+add)", "foreign(filter)", "file(longlist)",
	// a wrapper that EMBEDS the concrete *parquet.FileRowGroup (and so inherits every method of it, exported or not) and overrides Rows()
	"foreign(embeds *FileRowGroup)",
	// a deduplicating merge of inputs with disjoint key ranges (each is a segment
	// of its own) that hold duplicate keys inside
	"merge(dedupe,disjoint)"}

// filteredRowGroup is a foreign RowGroup implementation: it exposes the file's
// column chunks but its Rows() only yields rows with even ID.
type filteredRowGroup struct {
	parquet.RowGroup
	keep func(parquet.Row) bool
}

type filteredRows struct {
	parquet.Rows
	keep func(parquet.Row) bool
}

// embeddingRowGroup embeds the concrete file row group type.
type embeddingRowGroup struct {
	*parquet.FileRowGroup
	keep func(parquet.Row) bool
}

func (g *embeddingRowGroup) Rows() parquet.Rows {
	return &filteredRows{Rows: g.FileRowGroup.Rows(), keep: g.keep}
}

func (g *embeddingRowGroup) NumRows() int64 {
	return (&filteredRowGroup{RowGroup: g.FileRowGroup, keep: g.keep}).NumRows()
}

func (g *filteredRowGroup) Rows() parquet.Rows {
	return &filteredRows{Rows: g.RowGroup.Rows(), keep: g.keep}
}

func (g *filteredRowGroup) NumRows() int64 {
	n := int64(0)
	rows := g.RowGroup.Rows()
	defer rows.Close()
	buf := make([]parquet.Row, 8)
	for {
		m, err := rows.ReadRows(buf)
		for i := 0; i < m; i++ {
			if g.keep(buf[i]) {
				n++
			}
		}
		if err != nil {
			return n
		}
	}
}

func (r *filteredRows) ReadRows(buf []parquet.Row) (int, error) {
	tmp := make([]parquet.Row, len(buf))
	for {
		n, err := r.Rows.ReadRows(tmp)
		k := 0
		for i := 0; i < n; i++ {
			if r.keep(tmp[i]) {
				buf[k] = append(buf[k][:0], tmp[i]...)
				k++
			}
		}
		if k > 0 || err != nil {
			return k, err
		}
	}
}

func c11WriteFile(rows []XRow, opts []parquet.WriterOption) (*parquet.File, error) {
	var buf bytes.Buffer
	w := parquet.NewGenericWriter[XRow](&buf, opts...)
	// one Write call per row: page cuts are only considered between calls
	for i := range rows {
		if _, err := w.Write(rows[i : i+1]); err != nil {
			return nil, err
		}
	}
	if err := w.Close(); err != nil {
		return nil, err
	}
	return parquet.OpenFile(bytes.NewReader(buf.Bytes()), int64(buf.Len()))
}

func c11Run(x *engine.X) {
	si := x.Choose(len(c11Sources), "source")
	source := c11Sources[si]
	srcCfg := chooseC11Config(x, "src")
	dstCfg := chooseC11Config(x, "dst")
	buffered := x.Deviate(2, "dst.buffered") == 1 // rows already written (not flushed) to the destination
	x.Descf("source=%s src={%s} dst={%s} buffered=%v", source, strings.Join(srcCfg.desc, ","), strings.Join(dstCfg.desc, ","), buffered)
	x.Nontrivial(x.Describe())
	shape := fmt.Sprintf("source=%s;src=%s;dst=%s", source, strings.Join(srcCfg.desc, ","), strings.Join(dstCfg.desc, ","))
	if buffered {
		shape += ";buffered"
	}
	sortOpt := parquet.SortingWriterConfig(parquet.SortingColumns(parquet.Ascending("ID")))

	// build the source row group and the rows its semantics yield
	var rg parquet.RowGroup
	var expect []XRow
	fail := func(err error) { x.Failf("harness", "source", "building source %s: %v", source, err) }
	srcOpts := append([]parquet.WriterOption{}, srcCfg.opts...)
	limit := func(rows []XRow) []XRow {
		// only the first row group of the source file is used
		if srcCfg.maxRows > 0 && int64(len(rows)) > srcCfg.maxRows {
			return rows[:srcCfg.maxRows]
		}
		return rows
	}
	switch source {
	case "file", "file(longlist)":
		rows := limit(c11Rows(0, 12, source == "file(longlist)"))
		f, err := c11WriteFile(rows, srcOpts)
		if err != nil {
			fail(err)
			return
		}
		rg, expect = f.RowGroups()[0], rows
	case "file(2rg)->multi":
		rows := c11Rows(0, 12, false)
		f, err := c11WriteFile(rows, append(srcOpts, parquet.MaxRowsPerRowGroup(7)))
		if err != nil {
			fail(err)
			return
		}
		rg, expect = parquet.MultiRowGroup(f.RowGroups()...), rows
	case "buffer":
		rows := c11Rows(0, 12, false)
		b := parquet.NewGenericBuffer[XRow]()
		b.Write(rows)
		rg, expect = b, rows
	case "merge(disjoint)", "merge(overlap)", "merge(dedupe)", "merge(dedupe,disjoint)":
		a, b := c11Rows(0, 6, false), c11Rows(6, 12, false)
		if source == "merge(dedupe,disjoint)" {
			a = append(a[:2:2], append([]XRow{a[1], a[1]}, a[2:]...)...)
			b = append(b[:4:4], append([]XRow{b[3]}, b[4:]...)...)
		} else if source != "merge(disjoint)" {
			a, b = nil, nil
			for _, r := range c11Rows(0, 12, false) {
				if r.ID%2 == 0 {
					a = append(a, r)
				} else {
					b = append(b, r)
				}
			}
		}
		if source == "merge(dedupe)" {
			// duplicate keys inside one input and across inputs
			a = append(a[:2:2], append([]XRow{a[1]}, a[2:]...)...)
			b = append(b, XRow{ID: a[0].ID, S: "dup", F: 1})
			sort.SliceStable(b, func(i, j int) bool { return b[i].ID < b[j].ID })
		}
		fa, err := c11WriteFile(a, append(append([]parquet.WriterOption{}, srcOpts...), sortOpt))
		if err != nil {
			fail(err)
			return
		}
		fb, err := c11WriteFile(b, append(append([]parquet.WriterOption{}, srcOpts...), sortOpt))
		if err != nil {
			fail(err)
			return
		}
		var ins []parquet.RowGroup
		ins = append(ins, fa.RowGroups()...)
		ins = append(ins, fb.RowGroups()...)
		m, err := parquet.MergeRowGroups(ins, parquet.SortingRowGroupConfig(parquet.SortingColumns(parquet.Ascending("ID")), parquet.DropDuplicatedRows(strings.HasPrefix(source, "merge(dedupe"))))
		if err != nil {
			fail(err)
			return
		}
		rg = m
		all := append(append([]XRow{}, a...), b...)
		sort.SliceStable(all, func(i, j int) bool { return all[i].ID < all[j].ID })
		if strings.HasPrefix(source, "merge(dedupe") {
			expect = nil // checked by key set below
			_ = all
		} else {
			expect = all
		}
	case "convert(identity)", "convert(drop+add)":
		rows := limit(c11Rows(0, 12, false))
		f, err := c11WriteFile(rows, srcOpts)
		if err != nil {
			fail(err)
			return
		}
		schema := parquet.SchemaOf(XRow{})
		if source == "convert(identity)" {
			conv, err := parquet.Convert(schema, f.Schema())
			if err != nil {
				fail(err)
				return
			}
			rg, expect = parquet.ConvertRowGroup(f.RowGroups()[0], conv), rows
		} else {
			// source file lacks column F and has an extra column: the conversion zero-fills F
			type YRow struct {
				ID    int64
				S     string `parquet:",dict"`
				O     *string
				L     []int32
				Extra int32
				N     []xNest
			}
			var ys []YRow
			for _, r := range rows {
				ys = append(ys, YRow{ID: r.ID, S: r.S, O: r.O, L: r.L, Extra: 7, N: r.N})
			}
			var buf bytes.Buffer
			w := parquet.NewGenericWriter[YRow](&buf, srcOpts...)
			w.Write(ys)
			if err := w.Close(); err != nil {
				fail(err)
				return
			}
			yf, err := parquet.OpenFile(bytes.NewReader(buf.Bytes()), int64(buf.Len()))
			if err != nil {
				fail(err)
				return
			}
			conv, err := parquet.Convert(schema, yf.Schema())
			if err != nil {
				fail(err)
				return
			}
			rg = parquet.ConvertRowGroup(yf.RowGroups()[0], conv)
			for _, r := range rows {
				r.F = 0
				expect = append(expect, r)
			}
		}
	case "foreign(embeds *FileRowGroup)":
		rows := limit(c11Rows(0, 12, false))
		f, err := c11WriteFile(rows, srcOpts)
		if err != nil {
			fail(err)
			return
		}
		frg, ok := f.RowGroups()[0].(*parquet.FileRowGroup)
		if !ok {
			fail(fmt.Errorf("row group of a file is a %T", f.RowGroups()[0]))
			return
		}
		rg = &embeddingRowGroup{FileRowGroup: frg, keep: c11EvenID}
		for _, r := range rows {
			if r.ID%2 == 0 {
				expect = append(expect, r)
			}
		}
	case "foreign(filter)":
		rows := limit(c11Rows(0, 12, false))
		f, err := c11WriteFile(rows, srcOpts)
		if err != nil {
			fail(err)
			return
		}
		rg = &filteredRowGroup{RowGroup: f.RowGroups()[0], keep: c11EvenID}
		for _, r := range rows {
			if r.ID%2 == 0 {
				expect = append(expect, r)
			}
		}
	}

	pre := c11Rows(100, 108, false)
	preRows := func() []parquet.Row {
		// the buffered rows, laid out in the row group's column order
		xs := parquet.SchemaOf(XRow{})
		var out []parquet.Row
		for i := range pre {
			out = append(out, xs.Deconstruct(nil, &pre[i]))
		}
		if conv, err := parquet.Convert(rg.Schema(), xs); err == nil {
			conv.Convert(out)
		}
		return out
	}
	var srcSorting []parquet.SortingColumn
	writeA := func() ([]byte, int64, error) {
		var buf bytes.Buffer
		w := parquet.NewWriter(&buf, append([]parquet.WriterOption{rg.Schema()}, dstCfg.opts...)...)
		if buffered {
			for _, r := range preRows() { // one call per row so that pages get cut
				if _, err := w.WriteRows([]parquet.Row{r}); err != nil {
					return nil, 0, err
				}
			}
		}
		srcSorting = rg.SortingColumns()
		n, err := w.WriteRowGroup(rg)
		if err != nil {
			return nil, n, fmt.Errorf("WriteRowGroup: %w", err)
		}
		if err := w.Close(); err != nil {
			return nil, n, fmt.Errorf("Close: %w", err)
		}
		return buf.Bytes(), n, nil
	}
	writeB := func() ([]byte, error) {
		var buf bytes.Buffer
		w := parquet.NewWriter(&buf, append([]parquet.WriterOption{rg.Schema()}, dstCfg.opts...)...)
		if buffered {
			for _, r := range preRows() {
				if _, err := w.WriteRows([]parquet.Row{r}); err != nil {
					return nil, err
				}
			}
			if err := w.Flush(); err != nil {
				return nil, err
			}
		}
		rows := rg.Rows()
		defer rows.Close()
		rb := make([]parquet.Row, 4)
		for {
			n, err := rows.ReadRows(rb)
			if n > 0 {
				if _, werr := w.WriteRows(rb[:n]); werr != nil {
					return nil, werr
				}
			}
			if err == io.EOF {
				break
			}
			if err != nil {
				return nil, err
			}
		}
		if err := w.Close(); err != nil {
			return nil, err
		}
		return buf.Bytes(), nil
	}
	c0, r0 := parquet.VerifCopyPathCount(), parquet.VerifReencodePathCount()
	dataA, nA, err := writeA()
	if err != nil {
		x.Failf("write-error", shape, "%v", err)
		return
	}
	if parquet.VerifCopyPathCount() > c0 {
		x.Count("copy-path-taken")
	}
	if parquet.VerifReencodePathCount() > r0 {
		x.Count("reencode-path-taken")
	}
	if parquet.VerifCopyPathCount() == c0 && parquet.VerifReencodePathCount() == r0 {
		x.Count("row-path-taken")
	}
	dataB, err := writeB()
	if err != nil {
		x.Failf("harness", "rowpath", "row-by-row reference write failed: %v", err)
		return
	}
	readXR := func(data []byte) ([]string, error) {
		rows, err := parquet.Read[XRow](bytes.NewReader(data), int64(len(data)))
		var out []string
		for _, r := range rows {
			out = append(out, xrowString(r))
		}
		return out, err
	}
	gotA, err := readXR(dataA)
	if err != nil {
		x.Failf("read-error", shape, "reading the WriteRowGroup output: %v", err)
		return
	}
	gotB, err := readXR(dataB)
	if err != nil {
		x.Failf("harness", "rowpath", "reading the row-path output: %v", err)
		return
	}
	if !equalStrings(gotA, gotB) {
		x.Failf("rows-differ", shape, "WriteRowGroup output differs from writing the same rows one by one:\n  fast: %v\n  rows: %v", gotA, gotB)
		return
	}
	if expect != nil {
		var exp []string
		if buffered {
			for _, r := range pre {
				exp = append(exp, xrowString(r))
			}
		}
		for _, r := range expect {
			exp = append(exp, xrowString(r))
		}
		if !equalStrings(gotA, exp) {
			x.Failf("wrapper-bypassed", shape, "output rows are not the rows the source's semantics yield:\n  got:  %v\n  want: %v", gotA, exp)
			return
		}
	} else {
		// dedupe: one row per ID
		seen := map[string]bool{}
		for _, r := range gotA {
			id := strings.SplitN(r, "|", 2)[0]
			if seen[id] {
				x.Failf("wrapper-bypassed", shape, "duplicate key %s in the output of a deduplicating merge: %v", id, gotA)
				return
			}
			seen[id] = true
		}
	}
	_ = nA
	// well-formedness + destination configuration honoured (compared with the row-path file)
	var wantSorting []parquet.SortingColumn
	if dstCfg.sorting {
		wantSorting = []parquet.SortingColumn{parquet.Ascending("ID")}
	}
	checkFileAgainstSpec(x, shape, dataA, wantSorting, dstCfg.maxRows, srcSorting...)
	if x.Failed() {
		return
	}
	fa, _ := pqref.Parse(dataA)
	fb, _ := pqref.Parse(dataB)
	if fa == nil || fb == nil {
		return
	}
	pa, pb := c11Profile(fa), c11Profile(fb)
	for col := range pa {
		for k := range pa[col] {
			if !pb[col][k] {
				x.Failf("config-not-honoured", shape+";what="+strings.SplitN(k, "=", 2)[0], "column %d: WriteRowGroup output has %q which the row path under the same destination configuration never produces (row path: %v)", col, k, keysOf(pb[col]))
				return
			}
		}
		for _, must := range []string{"bloom=true", "pagestats=true"} {
			if pb[col][must] && !pa[col][must] {
				x.Failf("config-not-honoured", shape+";what="+strings.SplitN(must, "=", 2)[0], "column %d: row path output has %q, WriteRowGroup output does not", col, must)
				return
			}
		}
	}
	x.Outcome(fmt.Sprint(len(dataA)))
}

// c11Profile: per column, the set of observable configuration facts.
func c11Profile(f *pqref.File) []map[string]bool {
	out := make([]map[string]bool, len(f.Leaves))
	for col := range out {
		out[col] = map[string]bool{}
	}
	for rg := range f.RowGroups {
		for col := range f.Leaves {
			m := f.RowGroups[rg].Columns[col].Meta
			if m == nil {
				continue
			}
			out[col][fmt.Sprintf("codec=%d", m.Codec)] = true
			out[col][fmt.Sprintf("bloom=%v", m.BloomFilterOffset != nil)] = true
			if b, err := f.ReadBloomFilter(rg, col); err == nil && b != nil {
				// size class only (the filter size depends on the row group's value count)
				out[col]["bloomhdr=ok"] = true
			}
			pages, _ := f.Pages(rg, col)
			for _, p := range pages {
				if p.IsDataPage() {
					out[col][fmt.Sprintf("page=%d/enc=%d", p.Type, p.Encoding)] = true
					out[col][fmt.Sprintf("pagestats=%v", p.Stats != nil)] = true
				}
			}
		}
	}
	return out
}

func keysOf(m map[string]bool) []string {
	var k []string
	for s := range m {
		k = append(k, s)
	}
	sort.Strings(k)
	return k
}

func init() {
	Register(&engine.Prop{
		ID:    "C11",
		Level: "exploration",
		Rule: "10 source kinds (file row group, multi row group, buffer, merge of disjoint / overlapping / deduplicated inputs, identity and column-changing conversions, a foreign RowGroup whose Rows() filters, a file with a 1500-element list row) x source writer configuration x destination writer configuration (codec, encoding, page version, statistics, bloom filter size, MaxRowsPerRowGroup, dictionary limit/page size) within the deviation bound (3 quick, 4 thorough: includes all pairs of one source and one destination deviation) x destination with or without rows already buffered; " +
			"oracle: rows == row-by-row path == the wrapper's semantics, return value, pqref well-formedness, row-group size limit, and every (codec, page type, encoding, statistics, bloom) fact of the output also produced by the row path",
		Assumptions: []string{"page boundaries and row-group partitioning below the maximum may differ (not compared)"},
		Bound: func(tier string) int {
			if tier == "thorough" {
				return 4
			}
			return 3
		},
		Run: c11Run,
	})
}
