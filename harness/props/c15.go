package props

import (
	"bytes"
	"fmt"
	"io"
	"reflect"
	"strings"
	"sync/atomic"

	"github.com/parquet-go/parquet-go"
	"github.com/parquet-go/parquet-go/compress/gzip"
	"github.com/parquet-go/parquet-go/compress/snappy"
	"github.com/parquet-go/parquet-go/compress/zstd"
	"github.com/parquet-go/parquet-go/verifsched"
	"github.com/parquet-go/parquet-go/verifsched/vsync"

	"verif/engine"
	"verif/pqref"
)

// C15 — documented concurrent use behaves like some serial execution.
//
// The library is built with its sync, sync/atomic, channel and go-statement
// operations rewritten onto the cooperative verifsched scheduler (overlay,
// tags verif,debug,vsched). Each scenario runs 2-3 controlled goroutines; the
// explorer enumerates EVERY schedule within the deviation bound (delay
// bounding: a switch away from a goroutine that could continue, the choice of
// a goroutine other than the lowest-id enabled one at a blocking point, and a
// pool miss each cost one deviation; select choices are free). Oracle per schedule: no deadlock, goroutine leak or
// panic, and the observable result equals the serial run's.

type KRow struct {
	ID int64
	S  string `parquet:",dict"`
	O  *string
	L  []int32
}

func c15Rows(base, n int) []KRow {
	rows := make([]KRow, n)
	for i := range rows {
		k := base + i
		rows[i] = KRow{ID: int64(k), S: fmt.Sprintf("s%d", k%3)}
		if k%2 == 0 {
			rows[i].O = ptrTo(fmt.Sprintf("o-%d", k))
		}
		for j := 0; j < k%3; j++ {
			rows[i].L = append(rows[i].L, int32(k*10+j))
		}
	}
	return rows
}

func krowString(r KRow) string {
	o := "nil"
	if r.O != nil {
		o = *r.O
	}
	return fmt.Sprintf("%d|%s|%s|%v", r.ID, r.S, o, r.L)
}

func c15File(rows []KRow, opts ...parquet.WriterOption) []byte {
	var buf bytes.Buffer
	w := parquet.NewGenericWriter[KRow](&buf, opts...)
	for i := range rows {
		w.Write(rows[i : i+1])
	}
	if err := w.Close(); err != nil {
		panic(err)
	}
	return buf.Bytes()
}

// a scenario returns the body to run under the scheduler; the body fills obs.
type c15Scenario struct {
	name string
	// sub-cases enumerated by the scenario itself (consumer sequences etc.)
	cases func(tier string) int
	// run builds the controlled body for sub-case i and returns the observation it produces
	body func(i int, tier string) (desc string, body func() string)
	// accept, if set, says whether an observation that differs from the serial
	// one is still within what the statements allow
	accept func(got, ref string) bool
}

// c15SameAs: got equals ref, or the scenario accepts the difference.
func c15SameAs(s *c15Scenario, got, ref string) bool {
	return got == ref || (s.accept != nil && s.accept(got, ref))
}

// c15EarlierError: both observations end in an error, and got is ref up to an
// error that came earlier (a prefetching reader may find the damaged page
// before the consumer gets there, and its error is then final; what is never
// acceptable is a page the serial run does not return, or a clean end).
func c15EarlierError(got, ref string) bool {
	cut := func(o string) ([]string, bool) {
		var out []string
		for _, t := range strings.Fields(o) {
			out = append(out, t)
			if strings.Contains(t, "err=error") || t == "end:error" {
				return out, true
			}
		}
		return out, false
	}
	g, gerr := cut(got)
	r, rerr := cut(ref)
	if !gerr || !rerr || len(g) > len(r) {
		return false
	}
	for i := 0; i < len(g)-1; i++ {
		if g[i] != r[i] {
			return false
		}
	}
	return true
}

func c15Spawn(wg *vsync.WaitGroup, f func()) {
	wg.Add(1)
	verifsched.Go(func() {
		defer wg.Done()
		f()
	})
}

// ---- S1: asyncPages protocol -------------------------------------------

var c15S1File = func() []byte {
	return c15File(c15Rows(0, 12), parquet.PageBufferSize(48))
}

var c15S1Ops = []string{"ReadPage", "Seek(0)", "Seek(5)", "Seek(11)", "Close"}

func c15S1Seqs(tier string) [][]int {
	max := 3
	if tier == "thorough" {
		max = 4
	}
	var out [][]int
	var rec func(cur []int)
	rec = func(cur []int) {
		if len(cur) > 0 {
			out = append(out, append([]int(nil), cur...))
		}
		if len(cur) == max {
			return
		}
		for o := range c15S1Ops {
			if len(cur) > 0 && c15S1Ops[cur[len(cur)-1]] == "Close" {
				continue // nothing after Close except in the dedicated sequences below
			}
			rec(append(cur, o))
		}
	}
	rec(nil)
	// use after Close
	out = append(out, []int{4, 0}, []int{4, 1}, []int{0, 4, 4})
	return out
}

func c15PagesOps(pages parquet.Pages, seq []int) string {
	var obs []string
	closed := false
	for _, o := range seq {
		switch c15S1Ops[o] {
		case "ReadPage":
			p, err := pages.ReadPage()
			if p != nil {
				vals := make([]parquet.Value, p.NumValues())
				n, _ := p.Values().ReadValues(vals)
				first := "-"
				if n > 0 {
					first = vals[0].String()
				}
				obs = append(obs, fmt.Sprintf("page(rows=%d,first=%s,err=%v)", p.NumRows(), first, err))
				parquet.Release(p)
			} else {
				obs = append(obs, fmt.Sprintf("nopage(err=%v)", errClass(err)))
			}
		case "Close":
			obs = append(obs, fmt.Sprintf("close(err=%v)", errClass(pages.Close())))
			closed = true
		default:
			var k int64
			fmt.Sscanf(c15S1Ops[o], "Seek(%d)", &k)
			obs = append(obs, fmt.Sprintf("seek(err=%v)", errClass(pages.SeekToRow(k))))
		}
	}
	if !closed {
		// drain to the end, then close
		for guard := 0; guard < 20; guard++ {
			p, err := pages.ReadPage()
			if p != nil {
				obs = append(obs, fmt.Sprintf("drain(rows=%d)", p.NumRows()))
				parquet.Release(p)
			}
			if err != nil {
				obs = append(obs, "end:"+errClass(err))
				break
			}
		}
		obs = append(obs, fmt.Sprintf("close(err=%v)", errClass(pages.Close())))
	}
	return strings.Join(obs, " ")
}

func errClass(err error) string {
	switch {
	case err == nil:
		return "nil"
	case err == io.EOF:
		return "EOF"
	default:
		return "error"
	}
}

// ---- scenarios -----------------------------------------------------------

var c15Scenarios = []c15Scenario{
	{
		name:  "S1-asyncPages",
		cases: func(tier string) int { return len(c15S1Seqs(tier)) },
		body: func(i int, tier string) (string, func() string) {
			seq := c15S1Seqs(tier)[i]
			var names []string
			for _, o := range seq {
				names = append(names, c15S1Ops[o])
			}
			data := c15S1File()
			return strings.Join(names, ","), func() string {
				f, err := parquet.OpenFile(bytes.NewReader(data), int64(len(data)))
				if err != nil {
					return "open:" + err.Error()
				}
				base := f.RowGroups()[0].ColumnChunks()[0].Pages()
				var pages parquet.Pages = base
				if verifsched.Active() || asyncOutsideSched {
					pages = parquet.AsyncPages(base)
				}
				return c15PagesOps(pages, seq)
			}
		},
	},
	{
		name: "S2-asyncRows",
		cases: func(tier string) int {
			if tier == "thorough" {
				return 3
			}
			return 1
		},
		body: func(i int, tier string) (string, func() string) {
			if tier != "thorough" {
				i = 1 // the variant with a seek
			}
			type K2Row struct {
				ID int64
				S  string
			}
			var buf bytes.Buffer
			w := parquet.NewGenericWriter[K2Row](&buf, parquet.PageBufferSize(24))
			for k := 0; k < 6; k++ {
				w.Write([]K2Row{{int64(k), fmt.Sprintf("s%d", k)}})
			}
			w.Close()
			data := buf.Bytes()
			return fmt.Sprintf("seek-variant-%d", i), func() string {
				f, err := parquet.OpenFile(bytes.NewReader(data), int64(len(data)), parquet.FileReadMode(parquet.ReadModeAsync))
				if err != nil {
					return "open:" + err.Error()
				}
				r := parquet.NewGenericReader[K2Row](f)
				var obs []string
				rb := make([]K2Row, 2)
				n, _ := r.Read(rb)
				for _, x := range rb[:n] {
					obs = append(obs, fmt.Sprint(x))
				}
				if i > 0 {
					obs = append(obs, fmt.Sprintf("seek:%v", errClass(r.SeekToRow(int64(2*i-1)))))
				}
				for guard := 0; guard < 10; guard++ {
					n, err := r.Read(rb)
					for _, x := range rb[:n] {
						obs = append(obs, fmt.Sprint(x))
					}
					if err != nil {
						obs = append(obs, errClass(err))
						break
					}
				}
				obs = append(obs, "close:"+errClass(r.Close()))
				return strings.Join(obs, ";")
			}
		},
	},
	{
		name:  "S3-sharedFileLazyIndex",
		cases: func(string) int { return 2 },
		body: func(i int, _ string) (string, func() string) {
			data := c15File(c15Rows(0, 12), parquet.PageBufferSize(48), parquet.BloomFilters(parquet.SplitBlockFilter(10, "ID")))
			return fmt.Sprintf("order-%d", i), func() string {
				f, err := parquet.OpenFile(bytes.NewReader(data), int64(len(data)), parquet.SkipPageIndex(true), parquet.SkipBloomFilters(true))
				if err != nil {
					return "open:" + err.Error()
				}
				chunk := f.RowGroups()[0].ColumnChunks()[0]
				res := make([]string, 2)
				work := func(g int) {
					var obs []string
					steps := []string{"offset", "column", "bloom", "seekread"}
					if (g+i)%2 == 1 {
						steps = []string{"column", "seekread", "offset", "bloom"}
					}
					for _, s := range steps {
						switch s {
						case "offset":
							oi, err := chunk.OffsetIndex()
							if err != nil || oi == nil {
								obs = append(obs, "offset:err")
							} else {
								obs = append(obs, fmt.Sprintf("offset:%d pages, first row of last=%d", oi.NumPages(), oi.FirstRowIndex(oi.NumPages()-1)))
							}
						case "column":
							ci, err := chunk.ColumnIndex()
							if err != nil || ci == nil {
								obs = append(obs, "column:err")
							} else {
								obs = append(obs, fmt.Sprintf("column:%d pages, max of last=%v", ci.NumPages(), ci.MaxValue(ci.NumPages()-1)))
							}
						case "bloom":
							bf := chunk.BloomFilter()
							if bf == nil {
								obs = append(obs, "bloom:nil")
							} else {
								a, _ := bf.Check(parquet.ValueOf(int64(5)))
								obs = append(obs, fmt.Sprintf("bloom:%v", a))
							}
						case "seekread":
							pages := chunk.Pages()
							err := pages.SeekToRow(7)
							p, rerr := pages.ReadPage()
							if p != nil {
								vals := make([]parquet.Value, p.NumValues())
								n, _ := p.Values().ReadValues(vals)
								obs = append(obs, fmt.Sprintf("seekread:%v/%v first=%v", errClass(err), errClass(rerr), vals[:n][0]))
								parquet.Release(p)
							} else {
								obs = append(obs, fmt.Sprintf("seekread:%v/%v nopage", errClass(err), errClass(rerr)))
							}
							pages.Close()
						}
					}
					res[g] = strings.Join(obs, ",")
				}
				var wg vsync.WaitGroup
				c15Spawn(&wg, func() { work(0) })
				c15Spawn(&wg, func() { work(1) })
				wg.Wait()
				// both goroutines observe the same, complete metadata whatever the order
				return sortedJoin(res)
			}
		},
	},
	{
		name:  "S4-concurrentRowGroups",
		cases: func(string) int { return 1 },
		body: func(int, string) (string, func() string) {
			return "2 row groups", func() string {
				var buf bytes.Buffer
				w := parquet.NewGenericWriter[KRow](&buf, parquet.PageBufferSize(48))
				schema := parquet.SchemaOf(KRow{})
				rgs := []*parquet.ConcurrentRowGroupWriter{w.BeginRowGroup(), w.BeginRowGroup()}
				var wg vsync.WaitGroup
				for g, rg := range rgs {
					g, rg := g, rg
					c15Spawn(&wg, func() {
						rows := c15Rows(100*g, 5)
						for i := range rows {
							rg.WriteRows([]parquet.Row{schema.Deconstruct(nil, &rows[i])})
						}
					})
				}
				wg.Wait()
				for _, rg := range rgs {
					if _, err := rg.Commit(); err != nil {
						return "commit:" + err.Error()
					}
				}
				if err := w.Close(); err != nil {
					return "close:" + err.Error()
				}
				return fmt.Sprintf("%x", buf.Bytes())
			}
		},
	},
	{
		name:  "S5-independentWriterAndReader",
		cases: func(string) int { return 2 },
		body: func(i int, _ string) (string, func() string) {
			data := c15File(c15Rows(0, 9), parquet.PageBufferSize(48), parquet.Compression(&snappy.Codec{}))
			return fmt.Sprintf("variant-%d", i), func() string {
				res := make([]string, 2)
				var wg vsync.WaitGroup
				c15Spawn(&wg, func() {
					var buf bytes.Buffer
					w := parquet.NewGenericWriter[KRow](&buf, parquet.PageBufferSize(48), parquet.Compression(&snappy.Codec{}))
					rows := c15Rows(50, 6)
					for k := range rows {
						w.Write(rows[k : k+1])
					}
					err := w.Close()
					res[0] = fmt.Sprintf("w:%v:%x", errClass(err), buf.Bytes())
				})
				c15Spawn(&wg, func() {
					if i == 0 {
						rows, err := parquet.Read[KRow](bytes.NewReader(data), int64(len(data)))
						var s []string
						for _, r := range rows {
							s = append(s, krowString(r))
						}
						res[1] = fmt.Sprintf("r:%v:%v", errClass(err), s)
					} else {
						var buf bytes.Buffer
						w := parquet.NewGenericWriter[KRow](&buf, parquet.PageBufferSize(48), parquet.Compression(&snappy.Codec{}))
						rows := c15Rows(70, 6)
						for k := range rows {
							w.Write(rows[k : k+1])
						}
						err := w.Close()
						res[1] = fmt.Sprintf("w2:%v:%x", errClass(err), buf.Bytes())
					}
				})
				wg.Wait()
				return strings.Join(res, " || ")
			}
		},
	},
	{
		name:  "S6-oneGoroutinePerColumnWriter",
		cases: func(string) int { return 1 },
		body: func(int, string) (string, func() string) {
			return "4 columns, 2 goroutines", func() string {
				var buf bytes.Buffer
				schema := parquet.SchemaOf(KRow{})
				w := parquet.NewWriter(&buf, schema, parquet.PageBufferSize(48))
				rows := c15Rows(0, 6)
				cols := make([][]parquet.Value, len(w.ColumnWriters()))
				for i := range rows {
					for _, v := range schema.Deconstruct(nil, &rows[i]) {
						cols[v.Column()] = append(cols[v.Column()], v)
					}
				}
				cws := w.ColumnWriters()
				var wg vsync.WaitGroup
				for g := 0; g < 2; g++ {
					g := g
					c15Spawn(&wg, func() {
						for ci := g; ci < len(cws); ci += 2 {
							cws[ci].WriteRowValues(cols[ci])
						}
					})
				}
				wg.Wait()
				if err := w.Close(); err != nil {
					return "close:" + err.Error()
				}
				return fmt.Sprintf("%x", buf.Bytes())
			}
		},
	},
	{
		// two independent writers of a struct type that no writer has seen
		// before, through the reflection path: the process-wide struct field
		// cache is filled and published by one of them while the other looks
		// the type up
		name:  "S7-freshStructTypeReflection",
		cases: func(string) int { return 1 },
		body: func(int, string) (string, func() string) {
			return "2 writers, 1 new type", func() string {
				n := c15TypeCounter.Add(1)
				var fields []reflect.StructField
				for i := 0; i < 24; i++ {
					fields = append(fields, reflect.StructField{Name: fmt.Sprintf("F%d_%d", n, i), Type: reflect.TypeOf(int64(0)), Tag: reflect.StructTag(fmt.Sprintf(`parquet:"f%d"`, i))})
				}
				typ := reflect.StructOf(fields)
				schema := parquet.SchemaOf(reflect.New(typ).Interface())
				val := reflect.New(typ).Elem()
				for i := 0; i < typ.NumField(); i++ {
					val.Field(i).SetInt(int64(37 + i))
				}
				res := make([]string, 2)
				var wg vsync.WaitGroup
				for g := 0; g < 2; g++ {
					g := g
					c15Spawn(&wg, func() {
						var buf bytes.Buffer
						w := parquet.NewGenericWriter[any](&buf, schema)
						_, err := w.Write([]any{val.Interface()})
						cerr := w.Close()
						res[g] = fmt.Sprintf("%v/%v/%x", errClass(err), errClass(cerr), buf.Bytes())
					})
				}
				wg.Wait()
				return strings.Join(res, " || ")
			}
		},
	},
	{
		// two zstd codec values configured with different levels, one per goroutine:
		// each must compress at its own level whoever ran before
		name:  "S9-twoZstdLevels",
		cases: func(string) int { return 1 },
		body: func(int, string) (string, func() string) {
			return "fastest + best", func() string {
				codecs := []*zstd.Codec{{Level: zstd.SpeedFastest}, {Level: zstd.SpeedBestCompression}}
				input := []byte(strings.Repeat("the quick brown fox jumps over the lazy dog, ", 40) + strings.Repeat("abcabd", 50))
				res := make([]string, 2)
				var wg vsync.WaitGroup
				for g := 0; g < 2; g++ {
					g := g
					c15Spawn(&wg, func() {
						var outs []string
						for k := 0; k < 2; k++ {
							e, err := codecs[g].Encode(nil, input)
							d, derr := codecs[g].Decode(nil, append([]byte(nil), e...))
							outs = append(outs, fmt.Sprintf("%v/%v/%v/%x", errClass(err), errClass(derr), bytes.Equal(d, input), e))
						}
						res[g] = strings.Join(outs, ";")
					})
				}
				wg.Wait()
				return strings.Join(res, " || ")
			}
		},
	},
	{
		name:  "S8-sharedCodec",
		cases: func(string) int { return 2 },
		body: func(i int, _ string) (string, func() string) {
			return []string{"gzip", "snappy"}[i], func() string {
				var enc func(dst, src []byte) ([]byte, error)
				var dec func(dst, src []byte) ([]byte, error)
				if i == 0 {
					c := &gzip.Codec{}
					enc, dec = c.Encode, c.Decode
				} else {
					c := &snappy.Codec{}
					enc, dec = c.Encode, c.Decode
				}
				inputs := [][]byte{[]byte(strings.Repeat("abc", 40)), bytes.Repeat([]byte{7}, 200)}
				res := make([]string, 2)
				var wg vsync.WaitGroup
				for g := 0; g < 2; g++ {
					g := g
					c15Spawn(&wg, func() {
						ok := true
						for k := 0; k < 2; k++ {
							e, err := enc(nil, inputs[g])
							if err != nil {
								ok = false
								break
							}
							d, err := dec(nil, append([]byte(nil), e...))
							if err != nil || !bytes.Equal(d, inputs[g]) {
								ok = false
							}
						}
						res[g] = fmt.Sprint(ok)
					})
				}
				wg.Wait()
				return strings.Join(res, ",")
			}
		},
	},
	{
		// one goroutine copies the row groups of an open File into a new file
		// (the copy path that moves column chunks without decoding them) while
		// another goroutine seeks and reads in the same File; afterwards the
		// File is read again: it must still hold what was written.
		name:  "S10-sharedFileCopyAndSeek",
		cases: func(string) int { return 2 },
		body: func(i int, _ string) (string, func() string) {
			// (two rows in a page of the column read below: seeks use the offset index)
			opts := []parquet.WriterOption{parquet.PageBufferSize(16), parquet.MaxRowsPerRowGroup(6)}
			src := c15Rows(0, 12)
			data := c15File(src, opts...)
			seekRead := func(f *parquet.File, g int, row int64) string {
				pages := f.RowGroups()[g].ColumnChunks()[0].Pages()
				defer pages.Close()
				if err := pages.SeekToRow(row); err != nil {
					return fmt.Sprintf("rg%d@%d:seek:%v MISMATCH", g, row, err)
				}
				p, err := pages.ReadPage()
				if err != nil || p == nil {
					return fmt.Sprintf("rg%d@%d:read:%v MISMATCH", g, row, err)
				}
				defer parquet.Release(p)
				vals := make([]parquet.Value, p.NumValues())
				n, _ := p.Values().ReadValues(vals)
				want := src[g*6+int(row)].ID
				if n == 0 || vals[0].Int64() != want {
					return fmt.Sprintf("rg%d@%d:first=%v want %d MISMATCH", g, row, vals[:n], want)
				}
				return fmt.Sprintf("rg%d@%d:%d", g, row, want)
			}
			return fmt.Sprintf("reader-on-rg%d", i), func() string {
				f, err := parquet.OpenFile(bytes.NewReader(data), int64(len(data)))
				if err != nil {
					return "open:" + err.Error()
				}
				res := make([]string, 2)
				var wg vsync.WaitGroup
				c15Spawn(&wg, func() {
					var out bytes.Buffer
					w := parquet.NewGenericWriter[KRow](&out, opts...)
					// (second row group first: the copy is laid out differently from the source)
					for _, g := range []int{1, 0} {
						if _, err := w.WriteRowGroup(f.RowGroups()[g]); err != nil {
							res[0] = "copy:" + err.Error() + " MISMATCH"
							return
						}
					}
					if err := w.Close(); err != nil {
						res[0] = "close:" + err.Error() + " MISMATCH"
						return
					}
					back, err := parquet.Read[KRow](bytes.NewReader(out.Bytes()), int64(out.Len()))
					if err != nil || len(back) != len(src) {
						res[0] = fmt.Sprintf("copy reads back %d rows, err=%v MISMATCH", len(back), err)
						return
					}
					for k := range back {
						if krowString(back[k]) != krowString(src[(k+6)%12]) {
							res[0] = fmt.Sprintf("copy row %d = %s MISMATCH", k, krowString(back[k]))
							return
						}
					}
					res[0] = fmt.Sprintf("copy:%d bytes", out.Len())
				})
				c15Spawn(&wg, func() {
					res[1] = seekRead(f, i, 4) + "," + seekRead(f, 1-i, 2) + "," + seekRead(f, i, 1)
				})
				wg.Wait()
				after := seekRead(f, 0, 3) + "," + seekRead(f, 1, 5)
				return strings.Join(res, " || ") + " || after:" + after
			}
		},
	},
	{
		// the asyncPages protocol over a chunk whose second data page is damaged:
		// the error the synchronous reader reports must reach the consumer whatever
		// the prefetching goroutine was doing when the consumer sought or read
		name:   "S11-asyncPagesCorruptedPage",
		accept: c15EarlierError,
		cases:  func(string) int { return len(c15S11Seqs()) },
		body: func(i int, _ string) (string, func() string) {
			seq := c15S11Seqs()[i]
			var names []string
			for _, o := range seq {
				names = append(names, c15S1Ops[o])
			}
			data := append([]byte(nil), c15S1File()...)
			pf, err := pqref.Parse(data)
			if err != nil {
				panic(err)
			}
			infos, err := pf.Pages(0, 0)
			if err != nil || len(infos) < 2 {
				panic(fmt.Sprint("S11: pages of column 0: ", err, len(infos)))
			}
			last := infos[len(infos)-1]
			data[last.BodyOffset+int64(last.BodyLen)/2] ^= 0x10
			return strings.Join(names, ","), func() string {
				f, err := parquet.OpenFile(bytes.NewReader(data), int64(len(data)))
				if err != nil {
					return "open:" + err.Error()
				}
				base := f.RowGroups()[0].ColumnChunks()[0].Pages()
				var pages parquet.Pages = base
				if verifsched.Active() || asyncOutsideSched {
					pages = parquet.AsyncPages(base)
				}
				return c15PagesOps(pages, seq)
			}
		},
	},
	{
		// one goroutine reads a file whose rows cannot be re-assembled into the Go
		// type it asks for (a JSON document inside a list element does not fit:
		// the read fails half way through a row), another reads a nested file; the
		// scratch objects of row re-assembly come from process-wide pools. Then
		// the same two reads once more, one after the other.
		name:  "S12-failingReaderNextToReader",
		cases: func(string) int { return 1 },
		body: func(int, string) (string, func() string) {
			type docW struct {
				Doc string `parquet:"doc,json"`
			}
			type rowW struct {
				ID    int64  `parquet:"id"`
				Items []docW `parquet:"items"`
			}
			type payload struct {
				A int `json:"a"`
			}
			type docR struct {
				Doc payload `parquet:"doc,json"`
			}
			type rowR struct {
				ID    int64  `parquet:"id"`
				Items []docR `parquet:"items"`
			}
			type grp struct {
				Name string  `parquet:"name"`
				Vals []int64 `parquet:"vals"`
			}
			type good struct {
				ID     int64 `parquet:"id"`
				Groups []grp `parquet:"groups"`
			}
			var bad bytes.Buffer
			bw := parquet.NewGenericWriter[rowW](&bad)
			bw.Write([]rowW{{ID: 1, Items: []docW{{`{"a":1}`}, {`{"a":2}`}}}, {ID: 2, Items: []docW{{`{"a":3}`}, {`{"a":"not a number"}`}, {`{"a":5}`}}}, {ID: 3, Items: []docW{{`{"a":6}`}}}})
			if err := bw.Close(); err != nil {
				panic(err)
			}
			var goodRows []good
			for i := 0; i < 6; i++ {
				r := good{ID: int64(i)}
				for j := 0; j <= i%3; j++ {
					g := grp{Name: fmt.Sprintf("g%d.%d", i, j)}
					for k := 0; k < (i+j)%3; k++ {
						g.Vals = append(g.Vals, int64(100*i+10*j+k))
					}
					r.Groups = append(r.Groups, g)
				}
				goodRows = append(goodRows, r)
			}
			var gd bytes.Buffer
			gw := parquet.NewGenericWriter[good](&gd)
			gw.Write(goodRows)
			if err := gw.Close(); err != nil {
				panic(err)
			}
			want := fmt.Sprintf("%v", goodRows)
			readBad := func() string {
				_, err := parquet.Read[rowR](bytes.NewReader(bad.Bytes()), int64(bad.Len()))
				if err == nil {
					return "bad:no-error MISMATCH"
				}
				return "bad:error"
			}
			readGood := func() string {
				rows, err := parquet.Read[good](bytes.NewReader(gd.Bytes()), int64(gd.Len()))
				if err != nil {
					return "good:" + err.Error() + " MISMATCH"
				}
				if got := fmt.Sprintf("%v", rows); got != want {
					return "good:rows differ MISMATCH " + got
				}
				return "good:ok"
			}
			return "bad+good", func() string {
				res := make([]string, 2)
				var wg vsync.WaitGroup
				c15Spawn(&wg, func() { res[0] = readBad() + "," + readBad() })
				c15Spawn(&wg, func() { res[1] = readGood() + "," + readGood() })
				wg.Wait()
				return strings.Join(res, " || ") + " || after:" + readBad() + "," + readGood() + "," + readGood()
			}
		},
	},
}

// c15S11Seqs: every sequence of <=3 operations over ReadPage and the three seeks.
func c15S11Seqs() [][]int {
	var out [][]int
	var rec func(cur []int)
	rec = func(cur []int) {
		if len(cur) > 0 {
			out = append(out, append([]int(nil), cur...))
		}
		if len(cur) == 3 {
			return
		}
		for o := 0; o < 4; o++ {
			rec(append(cur, o))
		}
	}
	rec(nil)
	return out
}

// asyncOutsideSched: the serial reference of S1 uses the synchronous pages
// (that is the sequential model the async wrapper must be equivalent to).
var asyncOutsideSched = false

var c15TypeCounter atomic.Int64

func sortedJoin(s []string) string {
	if len(s) == 2 && s[0] > s[1] {
		s[0], s[1] = s[1], s[0]
	}
	return strings.Join(s, " || ")
}

func c15Run(x *engine.X) {
	// shard axis: scenario x sub-case
	type sc struct{ s, i int }
	var all []sc
	for si, s := range c15Scenarios {
		for i := 0; i < s.cases(x.Tier); i++ {
			all = append(all, sc{si, i})
		}
	}
	c := all[x.Choose(len(all), "scenario*case")]
	s := c15Scenarios[c.s]
	desc, body := s.body(c.i, x.Tier)
	shape := "scenario=" + s.name

	// serial reference (pass-through mode: plain goroutines, real sync)
	parquet.VerifSetPoolPolicy(parquet.VerifPoolReal)
	refKey := fmt.Sprintf("c15ref|%s|%d|%s", s.name, c.i, x.Tier)
	ref := engine.Memo(x, refKey, func() string {
		_, b := s.body(c.i, x.Tier)
		return b()
	})

	parquet.VerifSetPoolPolicy(parquet.VerifPoolChoose)
	parquet.VerifResetPools()
	if s.name == "S5-independentWriterAndReader" {
		parquet.VerifSetPoison(true)
		defer parquet.VerifSetPoison(false)
	}
	defer parquet.VerifSetPoolPolicy(parquet.VerifPoolReal)
	var got string
	res := verifsched.Run(func(n int, label string, dev bool) int {
		// delay bounding: the default scheduler keeps running the current
		// goroutine and, when it blocks, resumes the enabled goroutine with
		// the lowest id; a preemption AND the choice of another goroutine at
		// a blocking point each cost one deviation (with 3+ goroutines free
		// choices at every blocking point would make the space exponential).
		// select and pool choices keep their own cost.
		if dev || label == "sched" {
			return x.Deviate(n, label)
		}
		return x.Choose(n, label)
	}, 200000, func() { got = body() })

	x.Descf("%s[%s] steps=%d", s.name, desc, res.Steps)
	x.Nontrivial(fmt.Sprintf("%s|%d|%v", s.name, c.i, x.ChoicesHash()))
	x.CountN("transitions", int64(res.Steps))
	x.Count("schedules:" + s.name)
	x.CountN("steps:"+s.name, int64(res.Steps))
	for _, st := range res.States {
		x.StateHash(st)
	}
	switch {
	case res.Panic != nil:
		x.Failf("panic", shape, "%s[%s]: panic under schedule: %v\n%s\ntrace tail: %v", s.name, desc, res.Panic, firstLines(res.PanicStack, 14), tailStrings(res.Trace, 12))
	case res.Deadlock:
		x.Failf("deadlock", shape, "%s[%s]: deadlock: blocked %v\ntrace tail: %v", s.name, desc, res.Blocked, tailStrings(res.Trace, 12))
	case res.Livelock:
		x.Failf("livelock", shape, "%s[%s]: horizon exceeded after %d steps", s.name, desc, res.Steps)
	case res.Leaked > 0:
		x.Failf("goroutine-leak", shape, "%s[%s]: %d controlled goroutine(s) still blocked after the scenario finished: %v", s.name, desc, res.Leaked, res.Blocked)
	case strings.Contains(got, "MISMATCH"):
		x.Failf("wrong-result", shape, "%s[%s]: a goroutine observed a result that is wrong whatever the order: %s\ntrace tail: %v", s.name, desc, trunc2(got), tailStrings(res.Trace, 16))
	case !c15SameAs(&s, got, ref):
		x.Failf("not-serializable", shape, "%s[%s]: result differs from the serial execution\n  schedule result: %s\n  serial result:   %s\ntrace tail: %v", s.name, desc, trunc2(got), trunc2(ref), tailStrings(res.Trace, 16))
	}
	x.Outcome(fmt.Sprint(hash64str(got)))
}

func firstLines(s string, n int) string {
	l := strings.Split(s, "\n")
	if len(l) > n {
		l = l[:n]
	}
	return strings.Join(l, "\n")
}

func tailStrings(s []string, n int) []string {
	if len(s) > n {
		return s[len(s)-n:]
	}
	return s
}

func init() {
	Register(&engine.Prop{
		ID:    "C15",
		Level: "model_checking",
		MC:    true,
		Rule: "12 scenarios on the real library under the cooperative scheduler - S1 asyncPages consumer sequences (all sequences of <=3 (4 thorough) of ReadPage / SeekToRow(0|5|11) / Close, plus use after Close) against the readPages goroutine; S2 async GenericReader with seeks; S3 two goroutines sharing one File opened with SkipPageIndex+SkipBloomFilters (lazy CAS-published offset index, column index, bloom filter, seek+read); S4 two ConcurrentRowGroupWriters filled concurrently, committed in order; S5 an independent writer next to a reader / another writer sharing the process-wide pools (pool hit/miss chosen by the explorer, poison on release); S6 one goroutine per ColumnWriter; S7 two independent writers of a struct type no writer has seen before, through the reflection path (process-wide struct field cache); S9 two zstd codec values with different levels, one per goroutine; S8 two goroutines on one codec value; S10 one goroutine copying the row groups of an open File verbatim into a new file while another seeks and reads in the same File, which is then read again; S11 the asyncPages protocol (all sequences of <=3 of ReadPage / SeekToRow(0|5|11)) over a chunk whose second data page is damaged: the error must reach the consumer (at the serial position or earlier, never a clean end or another page); S12 a reader whose rows fail to re-assemble half way through a row next to a reader of a nested file, then both again one after the other - x EVERY schedule within the deviation bound (1 quick, 2 thorough): a deviation is a preemption, the choice of a goroutine other than the lowest-id enabled one at a blocking point, or a pool miss; select choices are enumerated freely; " +
			"states = distinct scheduler state hashes, transitions = scheduling steps; non-trivial = every distinct schedule",
		Assumptions: []string{
			"scheduling points are the library's sync / sync.atomic / channel / go operations (sequential consistency at that granularity); plain-memory data races are outside the cooperative scheduler's view and are looked for by the free-running race-detector pass of the same scenario bodies (sampling; coverage.supplement)",
			"goroutines inside third-party codecs are not controlled",
		},
		Bound: func(tier string) int {
			if tier == "thorough" {
				return 2
			}
			return 1
		},
		Run:        c15Run,
		Variants:   func(string) []string { return []string{"sched"} },
		Extra:      []string{"race"},
		Aux:        c15RaceAux,
		Supplement: c15Supplement,
	})
}
