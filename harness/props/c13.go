package props

import (
	"bytes"
	"errors"
	"fmt"
	"io"
	"strings"

	"github.com/parquet-go/parquet-go"

	"verif/engine"
	"verif/pqref"
)

// C13 — corruption inside a checksummed page is reported, never returned.
//
// Space: file family x every page (data and dictionary) x every fault in
// that page's stored body {every single bit; 2/3/4/8-byte bursts overwritten
// with 0x00, 0xFF or inverted, at every offset} x access path. One execution
// = (file, page, access path, fault class) and loops over all fault
// positions of the class.

type CRow struct {
	ID int64
	S  string  `parquet:",dict"`
	O  *string `parquet:",optional"`
	L  []int32
	// N: values in the first rows, then nulls only (a page holding no value at
	// all follows a page of values); Z: never a value (every page is all null)
	N *int64
	Z *int32
}

type c13File struct {
	desc   string
	data   []byte
	rows   []CRow
	exp    []string // canonical rows
	pages  []c13Page
	nrg    int
	groups []int64 // rows per row group
	// pages the writer emitted with a body but without a checksum
	unprotected []string
}

type c13Page struct {
	rg, col  int
	ordinal  int // index within the chunk's pages (dictionary included)
	isDict   bool
	bodyOff  int64
	bodyLen  int
	firstRow int64 // file-wide index of the first row held by the page (data pages)
	numRows  int64
	colName  string
}

var c13Axes = []int{2, 2, 4, 2} // encoding(plain|dict), pagev, codec, rowgroups

func c13Rows() []CRow {
	rows := make([]CRow, 8)
	for i := range rows {
		rows[i] = CRow{ID: int64(1000 + i), S: []string{"alpha", "beta", "gamma"}[i%3]}
		if i%3 != 2 {
			rows[i].O = ptrTo(fmt.Sprintf("opt-%d-%s", i, strings.Repeat("x", i)))
		}
		for j := 0; j < i%3; j++ {
			rows[i].L = append(rows[i].L, int32(i*100+j))
		}
		if i < 6 {
			rows[i].N = ptrTo(int64(i) << 33)
		}
	}
	return rows
}

func crowString(r CRow) string {
	o := "nil"
	if r.O != nil {
		o = *r.O
	}
	n, z := "nil", "nil"
	if r.N != nil {
		n = fmt.Sprint(*r.N)
	}
	if r.Z != nil {
		z = fmt.Sprint(*r.Z)
	}
	return fmt.Sprintf("%d|%s|%s|%v|%s|%s", r.ID, r.S, o, r.L, n, z)
}

func c13BuildFile(idx int) *c13File {
	ax := make([]int, len(c13Axes))
	for i, n := range c13Axes {
		ax[i] = idx % n
		idx /= n
	}
	f := &c13File{rows: c13Rows()}
	opts := []parquet.WriterOption{parquet.PageBufferSize(48)}
	var d []string
	if ax[0] == 0 {
		opts = append(opts, encOption("plain")...)
		d = append(d, "plain")
	} else {
		opts = append(opts, encOption("dict")...)
		d = append(d, "dict")
	}
	if ax[1] == 1 {
		opts = append(opts, parquet.DataPageVersion(1))
		d = append(d, "v1")
	} else {
		d = append(d, "v2")
	}
	if ax[2] > 0 {
		opts = append(opts, parquet.Compression(codecs[ax[2]]))
	}
	d = append(d, codecNames[ax[2]])
	if ax[3] == 1 {
		opts = append(opts, parquet.MaxRowsPerRowGroup(5))
		d = append(d, "2rg")
	}
	var buf bytes.Buffer
	w := parquet.NewGenericWriter[CRow](&buf, opts...)
	for i := range f.rows {
		if _, err := w.Write(f.rows[i : i+1]); err != nil {
			panic(err)
		}
	}
	if err := w.Close(); err != nil {
		panic(err)
	}
	f.data = buf.Bytes()
	f.desc = strings.Join(d, ",")
	for _, r := range f.rows {
		f.exp = append(f.exp, crowString(r))
	}
	pf, err := pqref.Parse(f.data)
	if err != nil {
		panic(err)
	}
	f.nrg = len(pf.RowGroups)
	base := int64(0)
	for rg := range pf.RowGroups {
		f.groups = append(f.groups, pf.RowGroups[rg].NumRows)
		for col := range pf.Leaves {
			infos, err := pf.Pages(rg, col)
			if err != nil {
				panic(err)
			}
			cols, err := pf.ReadColumn(rg, col)
			if err != nil {
				panic(err)
			}
			rowsBefore := int64(0)
			di := 0
			for i, in := range infos {
				p := c13Page{rg: rg, col: col, ordinal: i, bodyOff: in.BodyOffset, bodyLen: in.BodyLen,
					colName: strings.Join(pf.Leaves[col].Path, ".")}
				if in.Type == pqref.PageTypeDictionary {
					p.isDict = true
				} else if in.IsDataPage() {
					p.firstRow = base + rowsBefore
					p.numRows = int64(cols[di].NumRows)
					rowsBefore += p.numRows
					di++
				}
				if in.CRC == nil {
					if in.BodyLen == 0 {
						continue // the dictionary page of a column without values: no body to damage (the CRC-32 of nothing is 0)
					}
					// a page with a body and no checksum: nothing can detect a change of its bytes
					f.unprotected = append(f.unprotected, fmt.Sprintf("row group %d column %s page #%d (%d bytes)", rg, p.colName, i, in.BodyLen))
					continue
				}
				f.pages = append(f.pages, p)
			}
		}
		base += pf.RowGroups[rg].NumRows
	}
	return f
}

var c13Paths = []string{"Read[T]", "GenericReader(1)", "Rows", "Pages", "Seek+Rows", "Seek+Pages", "Seek+Reader", "ValueReader", "Rows(async)",
	// after the first error the same seek and read are issued again on the same reader: what counts is the second answer
	"Seek+Pages(retry)", "Seek+Rows(retry)",
	// after the error on page k: seek back into page k-1 (just returned, cached by the reader) and read two pages
	"Seek+Pages(back)"}

// c13BackServed is set by the Seek+Pages(back) access when the read following
// the re-read of page k-1 returned a page instead of the error of page k.
var c13BackServed bool

var c13Faults = []string{"bit", "burst2", "burst3", "burst4", "burst8"}

// c13Access runs one access path over the (corrupted) bytes and returns the
// rows it produced (canonical, file order, possibly partial), whether a
// corruption error surfaced, and any other error.
// seek is the row to seek to first (for the Seek+ paths).
func c13Access(f *c13File, data []byte, path string, pg c13Page, seek int64) (got []string, from int64, corrupted bool, err error) {
	noteErr := func(e error) {
		if e == nil || e == io.EOF {
			return
		}
		if errors.Is(e, parquet.ErrCorrupted) {
			corrupted = true
		}
		if err == nil {
			err = e
		}
	}
	var fopts []parquet.FileOption
	if path == "Rows(async)" {
		fopts = append(fopts, parquet.FileReadMode(parquet.ReadModeAsync))
	}
	switch path {
	case "Read[T]":
		rows, e := parquet.Read[CRow](bytes.NewReader(data), int64(len(data)))
		noteErr(e)
		for _, r := range rows {
			got = append(got, crowString(r))
		}
		return
	}
	pf, e := parquet.OpenFile(bytes.NewReader(data), int64(len(data)), fopts...)
	if e != nil {
		noteErr(e)
		return
	}
	switch path {
	case "GenericReader(1)", "Seek+Reader":
		r := parquet.NewGenericReader[CRow](pf)
		defer r.Close()
		if path == "Seek+Reader" {
			from = seek
			if e := r.SeekToRow(seek); e != nil {
				noteErr(e)
				return
			}
		}
		for guard := 0; guard < 100; guard++ {
			buf := make([]CRow, 1)
			n, e := r.Read(buf)
			for i := 0; i < n; i++ {
				got = append(got, crowString(buf[i]))
			}
			if e != nil {
				noteErr(e)
				return
			}
		}
	case "Rows", "Rows(async)", "Seek+Rows", "Seek+Rows(retry)":
		schema := parquet.SchemaOf(CRow{})
		base := int64(0)
		retried := false
		for rgi, rg := range pf.RowGroups() {
			rows := rg.Rows()
			start := int64(0)
			if path == "Seek+Rows" || path == "Seek+Rows(retry)" {
				// seek inside the row group that holds the target row
				if seek >= base+rg.NumRows() || rgi < pg.rg {
					base += rg.NumRows()
					rows.Close()
					continue
				}
				if seek > base {
					start = seek - base
				}
				if len(got) == 0 {
					from = base + start
				}
				if e := rows.SeekToRow(start); e != nil {
					noteErr(e)
					rows.Close()
					return
				}
			}
			buf := make([]parquet.Row, 2)
			for guard := 0; guard < 100; guard++ {
				n, e := rows.ReadRows(buf)
				for i := 0; i < n; i++ {
					var r CRow
					if re := schema.Reconstruct(&r, buf[i]); re != nil {
						noteErr(re)
						rows.Close()
						return
					}
					got = append(got, crowString(r))
				}
				if e != nil {
					if path == "Seek+Rows(retry)" && e != io.EOF && !retried {
						// same seek, same read, once more on the same reader
						retried = true
						got, corrupted, err = nil, false, nil
						from = base + start
						if e2 := rows.SeekToRow(start); e2 != nil {
							noteErr(e2)
							break
						}
						n2, e2 := rows.ReadRows(buf)
						for i := 0; i < n2; i++ {
							var r CRow
							if re := schema.Reconstruct(&r, buf[i]); re != nil {
								noteErr(re)
								break
							}
							got = append(got, crowString(r))
						}
						if e2 != nil && e2 != io.EOF {
							noteErr(e2)
						}
						rows.Close()
						return
					}
					noteErr(e)
					break
				}
			}
			rows.Close()
			if err != nil {
				return
			}
			base += rg.NumRows()
		}
	case "Pages", "Seek+Pages", "ValueReader", "Seek+Pages(retry)", "Seek+Pages(back)":
		// only the corrupted column of the corrupted row group: values as strings
		chunk := pf.RowGroups()[pg.rg].ColumnChunks()[pg.col]
		if path == "ValueReader" {
			vr := parquet.NewColumnChunkValueReader(chunk)
			defer vr.Close()
			buf := make([]parquet.Value, 4)
			for guard := 0; guard < 200; guard++ {
				n, e := vr.ReadValues(buf)
				for i := 0; i < n; i++ {
					got = append(got, fmt.Sprintf("%d/%d/%v", buf[i].RepetitionLevel(), buf[i].DefinitionLevel(), buf[i].String()))
				}
				if e != nil {
					noteErr(e)
					return
				}
			}
			return
		}
		pages := chunk.Pages()
		defer pages.Close()
		if strings.HasPrefix(path, "Seek+Pages") {
			base := int64(0)
			for i := 0; i < pg.rg; i++ {
				base += f.groups[i]
			}
			s := seek - base
			if s < 0 {
				s = 0
			}
			if s >= f.groups[pg.rg] {
				s = f.groups[pg.rg] - 1
			}
			from = s
			if e := pages.SeekToRow(s); e != nil {
				noteErr(e)
				return
			}
		}
		for guard := 0; guard < 100; guard++ {
			p, e := pages.ReadPage()
			if p != nil {
				vals := make([]parquet.Value, p.NumValues())
				n, _ := p.Values().ReadValues(vals)
				for i := 0; i < n; i++ {
					got = append(got, fmt.Sprintf("%d/%d/%v", vals[i].RepetitionLevel(), vals[i].DefinitionLevel(), vals[i].String()))
				}
				parquet.Release(p)
			}
			if e != nil {
				if path == "Seek+Pages(back)" && e != io.EOF && !pg.isDict {
					base := int64(0)
					for i := 0; i < pg.rg; i++ {
						base += f.groups[i]
					}
					back := pg.firstRow - base - 1
					if back < 0 || back < from {
						noteErr(e)
						return
					}
					// page k-1 was the last page returned: seek into it and read on
					got, corrupted, err = nil, false, nil
					from = back
					if e2 := pages.SeekToRow(back); e2 != nil {
						noteErr(e2)
						return
					}
					for k := 0; k < 2; k++ {
						p2, e2 := pages.ReadPage()
						if p2 != nil {
							if k == 1 {
								c13BackServed = true
							}
							vals := make([]parquet.Value, p2.NumValues())
							n, _ := p2.Values().ReadValues(vals)
							for i := 0; i < n; i++ {
								got = append(got, fmt.Sprintf("%d/%d/%v", vals[i].RepetitionLevel(), vals[i].DefinitionLevel(), vals[i].String()))
							}
							parquet.Release(p2)
						}
						if e2 != nil {
							noteErr(e2)
							return
						}
					}
					return
				}
				if path == "Seek+Pages(retry)" && e != io.EOF {
					// same seek, same read, once more: the answer of the retry is the result
					got, corrupted, err = nil, false, nil
					if e2 := pages.SeekToRow(from); e2 != nil {
						noteErr(e2)
						return
					}
					p2, e2 := pages.ReadPage()
					if p2 != nil {
						vals := make([]parquet.Value, p2.NumValues())
						n, _ := p2.Values().ReadValues(vals)
						for i := 0; i < n; i++ {
							got = append(got, fmt.Sprintf("%d/%d/%v", vals[i].RepetitionLevel(), vals[i].DefinitionLevel(), vals[i].String()))
						}
						parquet.Release(p2)
					}
					noteErr(e2)
					return
				}
				noteErr(e)
				return
			}
		}
	}
	return
}

func c13Run(x *engine.X) {
	nfiles := 1
	for _, n := range c13Axes {
		nfiles *= n
	}
	root := x.Choose(nfiles*len(c13Paths), "file*path")
	fi, path := root/len(c13Paths), c13Paths[root%len(c13Paths)]
	f := engine.Memo(x, fmt.Sprintf("c13file%d", fi), func() *c13File { return c13BuildFile(fi) })
	if len(f.unprotected) > 0 {
		x.Failf("unprotected-page", "file="+f.desc, "the writer emitted pages with a body but no checksum, a change of their bytes cannot be detected: %v", f.unprotected)
		return
	}
	pi := x.Choose(len(f.pages), "page")
	pg := f.pages[pi]
	faults := c13Faults
	if x.Tier != "thorough" {
		faults = c13Faults[:3]
	}
	fault := faults[x.Choose(len(faults), "fault")]
	kind := "data"
	if pg.isDict {
		kind = "dict"
	}
	// seek targets: every row of the file for the Seek+ paths
	seeks := []int64{0}
	if strings.HasPrefix(path, "Seek+") {
		seeks = nil
		for k := int64(0); k < int64(len(f.rows)); k++ {
			seeks = append(seeks, k)
		}
	}
	x.Descf("file={%s} path=%s page=rg%d/%s/#%d(%s,%dB) fault=%s", f.desc, path, pg.rg, pg.colName, pg.ordinal, kind, pg.bodyLen, fault)
	x.Nontrivial(x.Describe())
	shape := fmt.Sprintf("path=%s;page=%s;file=%s", path, kind, f.desc)

	// reference: what the access path returns on the intact file
	type refKey struct{ seek int64 }
	ref := map[int64][]string{}
	for _, s := range seeks {
		g, _, _, err := c13Access(f, f.data, path, pg, s)
		if err != nil {
			x.Failf("harness", "intact-file", "path %s on the intact file: %v", path, err)
			return
		}
		ref[s] = g
	}

	data := append([]byte(nil), f.data...)
	body := data[pg.bodyOff : pg.bodyOff+int64(pg.bodyLen)]
	orig := append([]byte(nil), body...)
	try := func(what string) bool {
		for _, s := range seeks {
			x.AddEvals(1)
			c13BackServed = false
			got, from, corrupted, err := c13Access(f, data, path, pg, s)
			if path == "Seek+Pages(back)" && c13BackServed {
				x.Failf("undetected", shape, "%s, seek=%d: after the error on the corrupted page, SeekToRow into the page before it and two ReadPage calls returned two pages: the corrupted page was skipped or served without error", what, s)
				return false
			}
			if path == "Seek+Pages(back)" && from != s {
				// the values now start at the row seeked back to, not at s: what
				// matters is that the page after the re-read one was not served
				_ = got
				continue
			}
			// does this access touch the corrupted page?
			touches := true
			if strings.HasPrefix(path, "Seek+") && pg.isDict && !strings.HasPrefix(path, "Seek+Pages") {
				// the dictionary of a row group that ends before the seek target is never loaded
				end := int64(0)
				for i := 0; i <= pg.rg; i++ {
					end += f.groups[i]
				}
				touches = end > s
			}
			if strings.HasPrefix(path, "Seek+") && !pg.isDict {
				// rows before the seek target are never decoded; pages wholly before it are not touched
				end := pg.firstRow + pg.numRows
				if strings.HasPrefix(path, "Seek+Pages") {
					base := int64(0)
					for i := 0; i < pg.rg; i++ {
						base += f.groups[i]
					}
					t := s
					if t < base {
						t = base
					}
					if t >= base+f.groups[pg.rg] {
						t = base + f.groups[pg.rg] - 1
					}
					touches = end > t
				} else {
					touches = end > s
				}
			}
			retry := strings.HasSuffix(path, "(retry)")
			if retry && err != nil {
				corrupted = true // the first answer identified the corruption; any error will do for the second
			}
			if err == nil && retry && len(got) <= len(ref[s]) && equalStrings(got, ref[s][:len(got)]) && len(got) < len(ref[s]) {
				// a retry reads one batch only (one page, or up to 2 rows): a correct
				// prefix without error is wrong only if that batch lies in the corrupted page
				if touches && !pg.isDict {
					lo, hi := from, from+1 // rows of the batch (file-level for rows, chunk-level for pages)
					if strings.HasPrefix(path, "Seek+Rows") {
						hi = from + int64(len(got))
					} else {
						base := int64(0)
						for i := 0; i < pg.rg; i++ {
							base += f.groups[i]
						}
						lo, hi = base+from, base+from+1
					}
					touches = pg.firstRow < hi && pg.firstRow+pg.numRows > lo
				}
				if touches {
					x.Failf("undetected", shape, "%s, seek=%d: the retried read went through the corrupted page and returned its original data without any error", what, s)
					return false
				}
				continue
			}
			if err == nil {
				// no error: the rows must be exactly the intact ones, and the page must not have been needed
				if !equalStrings(got, ref[s]) {
					x.Failf("wrong-data", shape, "%s, seek=%d: no error but data differs from the intact file\n  got:  %v\n  want: %v", what, s, got, ref[s])
					return false
				}
				if touches {
					x.Failf("undetected", shape, "%s, seek=%d: the read went through the corrupted page and returned the original data without any error", what, s)
					return false
				}
				continue
			}
			if !corrupted {
				x.Failf("not-corruption-error", shape+";err="+maskDigitsKeep(firstWords(err.Error(), 6)), "%s, seek=%d: error does not identify corruption (errors.Is(err, ErrCorrupted) is false): %v", what, s, err)
				return false
			}
			// rows returned before the error must be a prefix of the intact result
			if len(got) > len(ref[s]) || !equalStrings(got, ref[s][:len(got)]) {
				x.Failf("wrong-data", shape, "%s, seek=%d: rows returned before the corruption error differ from the intact file\n  got:  %v\n  want prefix of: %v", what, s, got, ref[s])
				return false
			}
		}
		return true
	}
	switch fault {
	case "bit":
		for i := 0; i < len(body); i++ {
			for b := 0; b < 8; b++ {
				body[i] ^= 1 << b
				ok := try(fmt.Sprintf("bit %d of body byte %d flipped", b, i))
				body[i] = orig[i]
				if !ok {
					return
				}
			}
		}
	default:
		n := int(fault[len(fault)-1] - '0')
		for i := 0; i+n <= len(body); i++ {
			for mode := 0; mode < 3; mode++ {
				changed := false
				for j := 0; j < n; j++ {
					var v byte
					switch mode {
					case 0:
						v = 0
					case 1:
						v = 0xff
					case 2:
						v = ^orig[i+j]
					}
					if body[i+j] != v {
						changed = true
					}
					body[i+j] = v
				}
				ok := true
				if changed {
					ok = try(fmt.Sprintf("%d bytes at body offset %d overwritten (mode %d)", n, i, mode))
				}
				copy(body[i:i+n], orig[i:i+n])
				if !ok {
					return
				}
			}
		}
	}
	x.Outcome("ok")
}

func equalStrings(a, b []string) bool {
	if len(a) != len(b) {
		return false
	}
	for i := range a {
		if a[i] != b[i] {
			return false
		}
	}
	return true
}

func firstWords(s string, n int) string {
	f := strings.Fields(s)
	if len(f) > n {
		f = f[:n]
	}
	return strings.Join(f, " ")
}

func init() {
	Register(&engine.Prop{
		ID:    "C13",
		Level: "fault_enumeration",
		Rule: "32 files ({plain, dictionary} x {v1, v2} x {none, snappy, gzip, zstd} x {1, 2 row groups}; 8 nested rows, 4 columns, several pages per chunk) x every data and dictionary page x fault classes {every single bit of the stored body; 2-, 3- (thorough: 4-, 8-) byte bursts set to 0x00 / 0xFF / inverted at every offset} x 9 access paths (Read[T], GenericReader, Rows, Pages, SeekToRow(k) for every k then Rows / Pages / GenericReader, ColumnChunkValueReader, async Rows); " +
			"an evaluation = one fault position x one access (x one seek target); non-trivial = every (file, page, path, fault class) combination",
		Assumptions: []string{
			"CRC-32 detects every single-bit error and every burst of <=32 bits, so 'must error' is exact for the enumerated faults",
			"an access that never needs the corrupted page (rows wholly before the seek target) may succeed with the original data",
		},
		Bound:        func(string) int { return 0 },
		Run:          c13Run,
		CaseDeadline: 0,
	})
}
