package props

import (
	"bytes"
	"fmt"
	"io"
	"reflect"
	"runtime"
	"sort"
	"strings"

	"github.com/parquet-go/parquet-go"
	"github.com/parquet-go/parquet-go/compress/snappy"
	"github.com/parquet-go/parquet-go/deprecated"

	"verif/engine"
)

// C16 — values handed to the caller are not changed by later library
// activity (and the library never modifies what the caller passes to Write).
//
// Runs with the verif hooks on: every slice returned to a pool is overwritten
// with 0xDB at release time and the pools always hand the most recently
// released object back, so a dangling alias becomes a deterministic change.

type ARow struct {
	ID int64
	S  string
	B  []byte
	U  [16]byte `parquet:",uuid"`
	L  []string
	O  *string
	M  map[string]int32
	D  string `parquet:",dict"`
	// a fixed-size column reconstructed into a Go slice
	F []byte `parquet:",decimal(2:20)"`
	// a 12-byte value type (several pages per column chunk, like the others)
	T deprecated.Int96
	// JSON columns: the Go value is produced by a decoder of its own
	J  aJSON   `parquet:",json"`
	JL []int64 `parquet:",json"`
}

type aJSON struct {
	Name string            `json:"name"`
	Tags []string          `json:"tags"`
	Attr map[string]string `json:"attr"`
	Next *aJSON            `json:"next,omitempty"`
}

func c16Rows(base, n int) []ARow {
	rows := make([]ARow, n)
	for i := range rows {
		k := base + i
		r := ARow{ID: int64(k), S: fmt.Sprintf("string-%d-%s", k, strings.Repeat("s", k%7)), B: []byte(fmt.Sprintf("bytes-%d", k)), D: fmt.Sprintf("d%d", k%3)}
		r.F = []byte(fmt.Sprintf("%09d", k)) // FIXED_LEN_BYTE_ARRAY(9)
		r.T = deprecated.Int96{uint32(k), uint32(k * 7), uint32(k + 1000)}
		r.J = aJSON{Name: fmt.Sprintf("n%d", k), Tags: []string{fmt.Sprintf("t%d", k), "x"}, Attr: map[string]string{"k": fmt.Sprint(k)}, Next: &aJSON{Name: fmt.Sprintf("next%d", k)}}
		r.JL = []int64{int64(k), int64(k + 1), int64(k + 2)}
		for j := range r.U {
			r.U[j] = byte(k + j)
		}
		for j := 0; j < k%3+1; j++ {
			r.L = append(r.L, fmt.Sprintf("l%d.%d", k, j))
		}
		if k%2 == 0 {
			r.O = ptrTo(fmt.Sprintf("opt-%d", k))
		}
		r.M = map[string]int32{fmt.Sprintf("k%d", k): int32(k)}
		if k%4 == 1 {
			r.M[fmt.Sprintf("x%d", k)] = -1
		}
		rows[i] = r
	}
	return rows
}

// canon renders a Go value canonically (pointers dereferenced, maps sorted).
func canon(v reflect.Value) string {
	switch v.Kind() {
	case reflect.Pointer:
		if v.IsNil() {
			return "nil"
		}
		return "&" + canon(v.Elem())
	case reflect.Struct:
		var p []string
		for i := 0; i < v.NumField(); i++ {
			p = append(p, v.Type().Field(i).Name+":"+canon(v.Field(i)))
		}
		return "{" + strings.Join(p, " ") + "}"
	case reflect.Slice, reflect.Array:
		if v.Type().Elem().Kind() == reflect.Uint8 {
			b := make([]byte, v.Len())
			for i := range b {
				b[i] = byte(v.Index(i).Uint())
			}
			return fmt.Sprintf("%x", b)
		}
		var p []string
		for i := 0; i < v.Len(); i++ {
			p = append(p, canon(v.Index(i)))
		}
		return "[" + strings.Join(p, " ") + "]"
	case reflect.Map:
		var p []string
		it := v.MapRange()
		for it.Next() {
			p = append(p, canon(it.Key())+"="+canon(it.Value()))
		}
		sort.Strings(p)
		return "map[" + strings.Join(p, " ") + "]"
	case reflect.String:
		return fmt.Sprintf("%q", v.String())
	}
	return fmt.Sprint(v.Interface())
}

func canonRows[T any](rows []T) []string {
	out := make([]string, len(rows))
	for i := range rows {
		out[i] = canon(reflect.ValueOf(rows[i]))
	}
	return out
}

// c16RowOf shreds one row through the typed path (Schema.Deconstruct does not
// accept struct values for JSON columns).
func c16RowOf(r ARow) parquet.Row {
	b := parquet.NewGenericBuffer[ARow]()
	b.Write([]ARow{r})
	rows := b.Rows()
	defer rows.Close()
	buf := make([]parquet.Row, 1)
	if n, _ := rows.ReadRows(buf); n != 1 {
		panic("c16RowOf: no row")
	}
	return buf[0].Clone()
}

type c16FileCfg struct {
	desc string
	opts []parquet.WriterOption
}

var c16FileCfgs = []c16FileCfg{
	{"plain,v2", []parquet.WriterOption{parquet.PageBufferSize(64)}},
	{"plain,v1,snappy", []parquet.WriterOption{parquet.PageBufferSize(64), parquet.DataPageVersion(1), parquet.Compression(&snappy.Codec{})}},
	{"dict,v2,snappy", append([]parquet.WriterOption{parquet.PageBufferSize(64), parquet.Compression(&snappy.Codec{})}, encOption("dict")...)},
	{"delta,v2", append([]parquet.WriterOption{parquet.PageBufferSize(64)}, encOption("delta")...)},
	{"plain,v2,2rg", []parquet.WriterOption{parquet.PageBufferSize(64), parquet.MaxRowsPerRowGroup(5)}},
}

func c16File(cfg c16FileCfg, base int) []byte {
	var buf bytes.Buffer
	w := parquet.NewGenericWriter[ARow](&buf, cfg.opts...)
	rows := c16Rows(base, 9)
	for i := range rows {
		if _, err := w.Write(rows[i : i+1]); err != nil {
			panic(err)
		}
	}
	if err := w.Close(); err != nil {
		panic(err)
	}
	return buf.Bytes()
}

var c16Takes = []string{"Read[T]", "GenericReader.Read(retained)", "Rows.ReadRows", "Rows.ReadRows+Clone", "Reader.ReadRows(async)+Clone", "Pages.ReadPage.Values+Clone", "Write:GenericWriter", "Write:WriteRows", "Write:RowBuffer.WriteRows", "Write:SortingWriter.WriteRows", "Write:GenericBuffer+sort", "Write:FilterRowWriter",
	// rows read after a seek that lands strictly inside a page (the page is sliced)
	"GenericReader.Read(retained, after SeekToRow(1))", "GenericReader.Read(retained, after SeekToRow(2))", "GenericReader.Read(retained, after SeekToRow(4))",
	"Rows.ReadRows+Clone(after SeekToRow(2))", "Rows.ReadRows(5 rows after SeekToRow(2))",
	// the reader is reset first, the batch then spans several pages of every column
	"GenericReader.Read(retained, after Reset)", "Reader.ReadRows+Clone(after Reset)",
	// rows read from an in-memory row group, which is then reset and refilled
	"GenericRowGroupReader(GenericBuffer).Read(retained)", "GenericRowGroupReader(RowBuffer).Read(retained)"}

var c16Disturbs = []string{"read-more", "seek0", "reset", "close", "read-other-file", "write-other-file", "gc", "source-reset+refill"}

func c16Run(x *engine.X) {
	root := x.Choose(len(c16Takes)*len(c16FileCfgs), "take*file")
	take := c16Takes[root/len(c16FileCfgs)]
	cfg := c16FileCfgs[root%len(c16FileCfgs)]
	parquet.VerifSetPoolPolicy(parquet.VerifPoolAlwaysReuse)
	parquet.VerifResetPools()
	parquet.VerifSetPoison(true)
	defer func() {
		parquet.VerifSetPoison(false)
		parquet.VerifSetPoolPolicy(parquet.VerifPoolReal)
	}()
	data := engine.Memo(x, "c16file"+cfg.desc, func() []byte { return c16File(cfg, 0) })
	other := engine.Memo(x, "c16other"+cfg.desc, func() []byte { return c16File(cfg, 100) })
	shape := fmt.Sprintf("take=%s;file=%s", take, cfg.desc)
	depth := 2
	if x.Tier == "thorough" {
		depth = 3
	}

	// state shared by the disturb operations
	var (
		gr      *parquet.GenericReader[ARow]
		rows    parquet.Rows
		reader  *parquet.Reader
		pages   parquet.Pages
		batch   []ARow
		rowBuf  []parquet.Row
		check   func() (bool, string) // compares the held values with the snapshot
		sameRdr func(op string) bool  // true if op is a call on the reader the rows came from
		// resets and refills the in-memory row group the rows were read from
		sourceReset func()
	)
	sameRdr = func(string) bool { return false }
	defer func() {
		if gr != nil {
			gr.Close()
		}
		if rows != nil {
			rows.Close()
		}
		if reader != nil {
			reader.Close()
		}
		if pages != nil {
			pages.Close()
		}
	}()
	open := func(async bool) *parquet.File {
		var fo []parquet.FileOption
		if async {
			fo = append(fo, parquet.FileReadMode(parquet.ReadModeAsync))
		}
		f, err := parquet.OpenFile(bytes.NewReader(data), int64(len(data)), fo...)
		if err != nil {
			panic(err)
		}
		return f
	}
	cmp := func(what string, snap []string, now func() []string) func() (bool, string) {
		return func() (bool, string) {
			cur := now()
			if len(cur) != len(snap) {
				return false, fmt.Sprintf("%s: %d values held, %d in the snapshot", what, len(cur), len(snap))
			}
			for i := range snap {
				if cur[i] != snap[i] {
					return false, fmt.Sprintf("%s #%d changed:\n  at hand-over: %s\n  now:          %s", what, i, trunc2(snap[i]), trunc2(cur[i]))
				}
			}
			return true, ""
		}
	}
	// what the file holds: rows handed over must also be RIGHT at hand-over (with
	// poison on release a buffer freed too early is already overwritten by then)
	fileRows := c16Rows(0, 9)
	expectGo := func(from int, got []ARow) bool {
		for i := range got {
			if from+i >= len(fileRows) || canonRows(got[i : i+1])[0] != canonRows(fileRows[from+i : from+i+1])[0] {
				x.Failf("wrong-at-handover", shape, "row %d handed over by %s is not the row written:\n  got:  %s\n  want: %s", from+i, take, trunc2(canonRows(got[i : i+1])[0]), trunc2(canonRows(fileRows[min(from+i, len(fileRows)-1) : min(from+i, len(fileRows)-1)+1])[0]))
				return false
			}
		}
		return true
	}
	expectRows := func(from int, got []parquet.Row) bool {
		// compared as Go values: the order of map entries in a row is not fixed
		schema := parquet.SchemaOf(ARow{})
		var rec []ARow
		for i := range got {
			var r ARow
			if err := schema.Reconstruct(&r, got[i]); err != nil {
				x.Failf("wrong-at-handover", shape, "row %d handed over by %s cannot be reconstructed: %v", from+i, take, err)
				return false
			}
			rec = append(rec, r)
		}
		return expectGo(from, rec)
	}
	isWrite := strings.HasPrefix(take, "Write:")
	var contDone func() // write side: run the remaining continuation at the end

	switch take {
	case "Read[T]":
		got, err := parquet.Read[ARow](bytes.NewReader(data), int64(len(data)))
		if err != nil {
			x.Failf("harness", "read", "%v", err)
			return
		}
		gr = parquet.NewGenericReader[ARow](open(false))
		check = cmp("row", canonRows(got), func() []string { return canonRows(got) })
	case "GenericReader.Read(retained)":
		gr = parquet.NewGenericReader[ARow](open(false))
		batch = make([]ARow, 3)
		n, err := gr.Read(batch)
		if err != nil && err != io.EOF {
			x.Failf("harness", "read", "%v", err)
			return
		}
		kept := append([]ARow(nil), batch[:n]...) // shallow copies, as a caller would keep them
		check = cmp("retained row", canonRows(kept), func() []string { return canonRows(kept) })
	case "GenericReader.Read(retained, after SeekToRow(1))", "GenericReader.Read(retained, after SeekToRow(2))", "GenericReader.Read(retained, after SeekToRow(4))":
		var k int64
		fmt.Sscanf(take[strings.Index(take, "SeekToRow(")+len("SeekToRow("):], "%d", &k)
		gr = parquet.NewGenericReader[ARow](open(false))
		first := make([]ARow, 1)
		gr.Read(first) // a page has been returned before the seek
		if err := gr.SeekToRow(k); err != nil {
			x.Failf("harness", "seek", "%v", err)
			return
		}
		batch = make([]ARow, 3)
		n, err := gr.Read(batch)
		if err != nil && err != io.EOF {
			x.Failf("harness", "read", "%v", err)
			return
		}
		kept := append([]ARow(nil), batch[:n]...)
		if !expectGo(int(k), kept) {
			return
		}
		check = cmp("retained row", canonRows(kept), func() []string { return canonRows(kept) })
	case "GenericReader.Read(retained, after Reset)":
		gr = parquet.NewGenericReader[ARow](open(false))
		gr.Read(make([]ARow, 2))
		gr.Reset()
		batch = make([]ARow, 7)
		n, err := gr.Read(batch)
		if err != nil && err != io.EOF {
			x.Failf("harness", "read", "%v", err)
			return
		}
		kept := append([]ARow(nil), batch[:n]...)
		if !expectGo(0, kept) {
			return
		}
		check = cmp("retained row", canonRows(kept), func() []string { return canonRows(kept) })
	case "Reader.ReadRows+Clone(after Reset)":
		reader = parquet.NewReader(open(false))
		rowBuf = make([]parquet.Row, 7)
		reader.ReadRows(rowBuf[:2])
		reader.Reset()
		n, err := reader.ReadRows(rowBuf)
		if err != nil && err != io.EOF {
			x.Failf("harness", "read", "%v", err)
			return
		}
		if !expectRows(0, rowBuf[:n]) {
			return
		}
		held := make([]parquet.Row, n)
		for i := range held {
			held[i] = rowBuf[i].Clone()
		}
		check = cmp("cloned parquet.Row", streamOf(held), func() []string { return streamOf(held) })
	case "GenericRowGroupReader(GenericBuffer).Read(retained)", "GenericRowGroupReader(RowBuffer).Read(retained)":
		src := c16Rows(0, 9)
		var rg parquet.RowGroup
		if strings.Contains(take, "RowBuffer") {
			b := parquet.NewRowBuffer[ARow]()
			b.Write(src)
			rg = b
			sourceReset = func() { b.Reset(); b.Write(c16Rows(300, 9)) }
		} else {
			b := parquet.NewGenericBuffer[ARow]()
			b.Write(src)
			rg = b
			sourceReset = func() { b.Reset(); b.Write(c16Rows(300, 9)) }
		}
		rr := parquet.NewGenericRowGroupReader[ARow](rg)
		batch = make([]ARow, 4)
		n, err := rr.Read(batch)
		if err != nil && err != io.EOF {
			x.Failf("harness", "read", "%v", err)
			return
		}
		gr = rr
		kept := append([]ARow(nil), batch[:n]...)
		check = cmp("retained row", canonRows(kept), func() []string { return canonRows(kept) })
	case "Rows.ReadRows", "Rows.ReadRows+Clone", "Rows.ReadRows+Clone(after SeekToRow(2))", "Rows.ReadRows(5 rows after SeekToRow(2))":
		rows = open(false).RowGroups()[0].Rows()
		rowBuf = make([]parquet.Row, 3)
		if strings.Contains(take, "5 rows") {
			rowBuf = make([]parquet.Row, 5)
		}
		if strings.Contains(take, "SeekToRow") {
			rows.ReadRows(rowBuf[:1])
			if err := rows.SeekToRow(2); err != nil {
				x.Failf("harness", "seek", "%v", err)
				return
			}
		}
		n, err := rows.ReadRows(rowBuf)
		if err != nil && err != io.EOF {
			x.Failf("harness", "read", "%v", err)
			return
		}
		held := rowBuf[:n]
		if strings.Contains(take, "SeekToRow") && cfg.desc != "plain,v2,2rg" {
			if !expectRows(2, held) {
				return
			}
		}
		if strings.Contains(take, "+Clone") {
			held = make([]parquet.Row, n)
			for i := range held {
				held[i] = rowBuf[i].Clone()
			}
		} else {
			// uncloned rows are only guaranteed until the next call on the same reader
			sameRdr = func(op string) bool { return op == "read-more" || op == "seek0" || op == "reset" || op == "close" }
		}
		check = cmp("parquet.Row", streamOf(held), func() []string { return streamOf(held) })
	case "Reader.ReadRows(async)+Clone":
		reader = parquet.NewReader(open(true))
		rowBuf = make([]parquet.Row, 4)
		n, err := reader.ReadRows(rowBuf)
		if err != nil && err != io.EOF {
			x.Failf("harness", "read", "%v", err)
			return
		}
		held := make([]parquet.Row, n)
		for i := range held {
			held[i] = rowBuf[i].Clone()
		}
		check = cmp("cloned parquet.Row", streamOf(held), func() []string { return streamOf(held) })
	case "Pages.ReadPage.Values+Clone":
		pages = open(false).RowGroups()[0].ColumnChunks()[1].Pages() // column S
		p, err := pages.ReadPage()
		if err != nil {
			x.Failf("harness", "read", "%v", err)
			return
		}
		vals := make([]parquet.Value, p.NumValues())
		n, _ := p.Values().ReadValues(vals)
		held := make(parquet.Row, n)
		for i := range held {
			held[i] = vals[i].Clone()
		}
		parquet.Release(p)
		check = cmp("cloned Value", streamOf([]parquet.Row{held}), func() []string { return streamOf([]parquet.Row{held}) })
	default:
		// write side: the caller's rows must not change
		mine := c16Rows(0, 6)
		schema := parquet.SchemaOf(ARow{})
		var prs []parquet.Row
		for i := range mine {
			prs = append(prs, c16RowOf(mine[i]))
		}
		more := c16Rows(50, 6)
		var mprs []parquet.Row
		for i := range more {
			mprs = append(mprs, c16RowOf(more[i]))
		}
		var sink bytes.Buffer
		// snapshots are taken BEFORE the rows are handed to the library
		mineSnap, prsSnap := canonRows(mine), streamOf(prs)
		switch take {
		case "Write:GenericWriter":
			w := parquet.NewGenericWriter[ARow](&sink, cfg.opts...)
			w.Write(mine)
			check = cmp("row passed to Write", mineSnap, func() []string { return canonRows(mine) })
			contDone = func() { w.Write(more); w.Flush(); w.Write(more); w.Close() }
		case "Write:WriteRows":
			w := parquet.NewWriter(&sink, append([]parquet.WriterOption{schema}, cfg.opts...)...)
			w.WriteRows(prs)
			check = cmp("Row passed to WriteRows", prsSnap, func() []string { return streamOf(prs) })
			contDone = func() { w.WriteRows(mprs); w.Flush(); w.WriteRows(mprs); w.Close() }
		case "Write:RowBuffer.WriteRows":
			b := parquet.NewRowBuffer[ARow]()
			b.WriteRows(prs)
			check = cmp("Row passed to RowBuffer.WriteRows", prsSnap, func() []string { return streamOf(prs) })
			contDone = func() { b.Reset(); b.WriteRows(mprs); b.Reset(); b.WriteRows(mprs) }
		case "Write:SortingWriter.WriteRows":
			w := parquet.NewSortingWriter[ARow](&sink, 3, parquet.SortingWriterConfig(parquet.SortingColumns(parquet.Descending("ID"))))
			w.WriteRows(prs)
			check = cmp("Row passed to SortingWriter.WriteRows", prsSnap, func() []string { return streamOf(prs) })
			contDone = func() { w.WriteRows(mprs); w.WriteRows(mprs); w.Close() }
		case "Write:GenericBuffer+sort":
			b := parquet.NewGenericBuffer[ARow](parquet.SortingRowGroupConfig(parquet.SortingColumns(parquet.Descending("ID"))))
			b.Write(mine)
			check = cmp("row passed to GenericBuffer.Write", mineSnap, func() []string { return canonRows(mine) })
			contDone = func() { b.Write(more); sort.Sort(b); b.Reset(); b.Write(more) }
		case "Write:FilterRowWriter":
			w := parquet.NewWriter(&sink, append([]parquet.WriterOption{schema}, cfg.opts...)...)
			fw := parquet.FilterRowWriter(w, func(r parquet.Row) bool { return r[0].Int64()%2 == 0 })
			fw.WriteRows(prs)
			check = cmp("Row passed to FilterRowWriter.WriteRows", prsSnap, func() []string { return streamOf(prs) })
			contDone = func() { fw.WriteRows(mprs); w.Close() }
		}
	}

	var hist []string
	verify := func(when string) bool {
		if ok, why := check(); !ok {
			x.Failf("changed", shape+";after="+strings.Join(hist, ","), "after %v (%s): %s", hist, when, why)
			return false
		}
		return true
	}
	if !verify("immediately") {
		return
	}
	stale := false // uncloned rows: a call on the same reader ended their validity
	for d := 0; d < depth; d++ {
		c := x.Choose(len(c16Disturbs)+1, "disturb")
		if c == 0 {
			break
		}
		op := c16Disturbs[c-1]
		hist = append(hist, op)
		if sameRdr(op) {
			stale = true
		}
		switch op {
		case "read-more":
			switch {
			case gr != nil && batch != nil:
				gr.Read(batch) // into the SAME batch slice
			case gr != nil:
				gr.Read(make([]ARow, 4))
			case rows != nil:
				rows.ReadRows(rowBuf)
			case reader != nil:
				reader.ReadRows(rowBuf)
			case pages != nil:
				if p, err := pages.ReadPage(); err == nil {
					parquet.Release(p)
				}
			case isWrite && contDone != nil:
				contDone()
				contDone = nil
			}
		case "seek0":
			switch {
			case gr != nil:
				gr.SeekToRow(0)
				if batch != nil {
					gr.Read(batch)
				}
			case rows != nil:
				rows.SeekToRow(0)
				rows.ReadRows(rowBuf)
			case reader != nil:
				reader.SeekToRow(0)
				reader.ReadRows(rowBuf)
			case pages != nil:
				pages.SeekToRow(0)
			}
		case "reset":
			switch {
			case gr != nil:
				gr.Reset()
				if batch != nil {
					gr.Read(batch)
				}
			case reader != nil:
				reader.Reset()
			}
		case "close":
			switch {
			case gr != nil:
				gr.Close()
				gr = nil
			case rows != nil:
				rows.Close()
				rows = nil
			case reader != nil:
				reader.Close()
				reader = nil
			case pages != nil:
				pages.Close()
				pages = nil
			}
		case "read-other-file":
			parquet.Read[ARow](bytes.NewReader(other), int64(len(other)))
		case "write-other-file":
			var b bytes.Buffer
			w := parquet.NewGenericWriter[ARow](&b, cfg.opts...)
			w.Write(c16Rows(200, 9))
			w.Close()
		case "gc":
			runtime.GC()
		case "source-reset+refill":
			if sourceReset != nil {
				sourceReset()
			}
		}
		if !stale && !verify("after "+op) {
			return
		}
	}
	if isWrite && contDone != nil {
		contDone()
		hist = append(hist, "continuation")
		if !verify("after the writer's continuation") {
			return
		}
	}
	x.Descf("take=%s file={%s} then=%v", take, cfg.desc, hist)
	if len(hist) > 0 {
		x.Nontrivial(x.Describe())
	}
	x.Outcome("ok")
}

func trunc2(s string) string {
	if len(s) > 400 {
		return s[:400] + "…"
	}
	return s
}

func init() {
	Register(&engine.Prop{
		ID:    "C16",
		Level: "exploration",
		Rule: "21 hand-over kinds (Read[T]; GenericReader.Read into a reused batch with shallow copies retained; Rows.ReadRows uncloned and cloned; async Reader.ReadRows cloned; page Values cloned; caller rows passed to GenericWriter.Write / Writer.WriteRows / RowBuffer.WriteRows / SortingWriter.WriteRows / GenericBuffer.Write+sort / FilterRowWriter.WriteRows; reads after a SeekToRow that lands inside a page; reads after a Reset whose batch spans several pages; rows read from a GenericBuffer / RowBuffer row group which is then reset and refilled; rows handed over after a seek or a Reset must also BE the rows written) x 5 file shapes (plain/dict/delta, v1/v2, snappy, 2 row groups; strings, bytes, uuid, a fixed-size column read into a []byte, an INT96 column, JSON columns holding a struct (slice, map, pointer) and a slice, lists, optional, map, dictionary column, several pages) x ALL sequences of <=2 (3 thorough) disturbing operations from {read more into the same batch, SeekToRow(0)+read, Reset, Close, read another file, write another file, GC}; run with poison-on-release and always-reuse pools; a deep snapshot taken at hand-over must equal the held values after every step; " +
			"non-trivial = at least one disturbing operation",
		Assumptions: []string{
			"uncloned parquet Rows are only compared until the next call on the reader they came from",
			"hooks: verifPoison in putSliceToPool and the deterministic pool (overlay, tag verif); the schedule clause (activity in other goroutines) is C15's S5",
		},
		Bound: func(string) int { return 0 },
		Run:   c16Run,
	})
}
