package props

import (
	"bytes"
	"crypto/sha256"
	"encoding/binary"
	"fmt"
	"io"
	"math"
	"sort"
	"strings"

	"github.com/parquet-go/parquet-go"
	"github.com/parquet-go/parquet-go/compress/snappy"

	"verif/engine"
)

// C17 — output bytes are a function of input and options only.

type JRow struct {
	ID int64
	// D: dictionary indexes alternate for 8 rows, then 7 equal ones and a
	// different one, then alternate again (bit-packed / run boundary of the
	// hybrid RLE encoding, where kernels of different builds could cut runs
	// differently), then four equal ones followed by four other equal ones
	D string `parquet:",dict"`
	// N: a dictionary of doubles; in job rows the first entry is a NaN, in the
	// rows of prior histories there is none (state kept about the dictionary
	// scanned so far must not outlive the dictionary)
	N float64 `parquet:",dict"`
	S string  `parquet:",dict"`
	O *string
	L []int32
	F float64
	B bool   `parquet:",optional"`
	U []byte `parquet:",optional"`
	// G: a geometry column (WKB points); a row of every prior history holds a
	// value that is not WKB, the job rows are all valid
	G []byte `parquet:",geometry(OGC:CRS84)"`
	// A: a required fixed-size column fed from a []byte that is nil in some job
	// rows (stored as zero bytes) and never in prior histories
	A []byte `parquet:",decimal(2:20)"`
}

func wkbPoint(x, y float64) []byte {
	b := make([]byte, 21)
	b[0] = 1 // little endian
	binary.LittleEndian.PutUint32(b[1:], 1)
	binary.LittleEndian.PutUint64(b[5:], math.Float64bits(x))
	binary.LittleEndian.PutUint64(b[13:], math.Float64bits(y))
	return b
}

func c17Rows(seed, n int) []JRow {
	rows := make([]JRow, n)
	for i := range rows {
		k := seed*1000 + i
		r := JRow{ID: int64(k), S: fmt.Sprintf("s-%d-%d", seed, i%5), F: float64(k) / 8, B: i%3 == 0}
		r.D = []string{"d0", "d1"}[i%2]
		switch (i / 8) % 4 {
		case 1:
			r.D = "d0"
			if i%8 == 7 {
				r.D = "d1"
			}
		case 3:
			r.D = []string{"d0", "d1"}[(i%8)/4]
		}
		r.N = float64(k%1000) + 0.25
		if seed == 1 && (i == 0 || i == 17) {
			r.N = math.NaN()
		}
		if i%2 == 0 {
			r.O = ptrTo(fmt.Sprintf("o%d", k))
		}
		for j := 0; j < i%4; j++ {
			r.L = append(r.L, int32(k+j))
		}
		r.G = wkbPoint(float64(i), float64(2*k%97))
		if seed != 1 && i == 1 {
			r.G = []byte("not valid wkb")
		}
		r.A = bytes.Repeat([]byte{0xE0 + byte(i%16)}, 9)
		if seed == 1 && i%3 == 1 {
			r.A = nil
		}
		switch i % 3 {
		case 1:
			r.U = []byte{}
		case 2:
			r.U = []byte(fmt.Sprintf("u%d", k))
		}
		rows[i] = r
	}
	return rows
}

type c17Job struct {
	name string
	opts func() []parquet.WriterOption
}

var c17Jobs = []c17Job{
	{"default", func() []parquet.WriterOption { return nil }},
	{"smallpages", func() []parquet.WriterOption { return []parquet.WriterOption{parquet.PageBufferSize(64)} }},
	{"dict-fallback", func() []parquet.WriterOption {
		return []parquet.WriterOption{parquet.DictionaryMaxBytes(16), parquet.PageBufferSize(32)}
	}},
	{"bloom", func() []parquet.WriterOption {
		return []parquet.WriterOption{parquet.BloomFilters(parquet.SplitBlockFilter(10, "ID"), parquet.SplitBlockFilter(10, "S")), parquet.PageBufferSize(64)}
	}},
	{"2rowgroups", func() []parquet.WriterOption {
		return []parquet.WriterOption{parquet.MaxRowsPerRowGroup(8), parquet.PageBufferSize(64)}
	}},
	{"kv+sorting", func() []parquet.WriterOption {
		return []parquet.WriterOption{parquet.KeyValueMetadata("zeta", "1"), parquet.KeyValueMetadata("alpha", "2"),
			parquet.SortingWriterConfig(parquet.SortingColumns(parquet.Ascending("ID")))}
	}},
	{"v1,snappy,stats", func() []parquet.WriterOption {
		return []parquet.WriterOption{parquet.DataPageVersion(1), parquet.Compression(&snappy.Codec{}), parquet.DataPageStatistics(true), parquet.PageBufferSize(64)}
	}},
	{"bloom,2rowgroups,dict-fallback", func() []parquet.WriterOption {
		return []parquet.WriterOption{parquet.BloomFilters(parquet.SplitBlockFilter(10, "S")), parquet.MaxRowsPerRowGroup(7), parquet.DictionaryMaxBytes(16), parquet.PageBufferSize(32)}
	}},
}

var c17Prior = []string{"complete(small)", "complete(large)", "aborted-after-write", "sink-fails", "flush-only", "close-twice", "complete(empty)",
	// a few rows written (fewer than any buffering threshold), then the writer is reset without Close
	"aborted-after-small-write"}

type failAfter struct {
	n    int
	seen int
}

func (f *failAfter) Write(p []byte) (int, error) {
	if f.seen+len(p) > f.n {
		k := f.n - f.seen
		if k < 0 {
			k = 0
		}
		f.seen += k
		return k, errSink
	}
	f.seen += len(p)
	return len(p), nil
}

func writeRowsOneByOne(w *parquet.GenericWriter[JRow], rows []JRow) {
	for i := range rows {
		w.Write(rows[i : i+1])
	}
}

var c17Containers = []string{"GenericWriter", "GenericBuffer->WriteRowGroup", "SortingWriter", "Writer(any)",
	// one writer copying the row groups of ONE open source file again and again
	"GenericWriter.WriteRowGroup(shared file)",
	// one writer (without sorting configuration) receiving sorted buffers as row groups
	"GenericWriter.WriteRowGroup(sorted buffer)"}

func c17Run(x *engine.X) {
	root := x.Choose(len(c17Jobs)*len(c17Containers), "job*container")
	job := c17Jobs[root/len(c17Containers)]
	container := c17Containers[root%len(c17Containers)]
	pool := []string{"real", "always-reuse"}[x.Choose(2, "pool")]
	if pool == "always-reuse" {
		parquet.VerifSetPoolPolicy(parquet.VerifPoolAlwaysReuse)
		parquet.VerifResetPools()
		defer parquet.VerifSetPoolPolicy(parquet.VerifPoolReal)
	}
	depth := 2
	if x.Tier == "thorough" {
		depth = 3
	}
	var hist []string
	for d := 0; d < depth; d++ {
		c := x.Choose(len(c17Prior)+1, "prior")
		if c == 0 {
			break
		}
		hist = append(hist, c17Prior[c-1])
	}
	x.Descf("job=%s container=%s pool=%s history=%v", job.name, container, pool, hist)
	if len(hist) > 0 {
		x.Nontrivial(x.Describe())
	}
	shape := fmt.Sprintf("job=%s;container=%s", job.name, container)
	J := c17Rows(1, 34)
	priorRows := func(kind string) []JRow {
		switch kind {
		case "complete(small)", "aborted-after-small-write":
			return c17Rows(2, 3)
		case "complete(large)":
			return c17Rows(3, 70)
		case "complete(empty)":
			return nil
		}
		return c17Rows(4, 25)
	}

	var reference, got []byte
	switch container {
	case "GenericWriter", "Writer(any)":
		run := func(w interface {
			Reset(io.Writer)
			Close() error
			Flush() error
		}, write func(rows []JRow), out *bytes.Buffer) {
			write(J)
			w.Close()
		}
		_ = run
		if container == "GenericWriter" {
			var ref bytes.Buffer
			fw := parquet.NewGenericWriter[JRow](&ref, job.opts()...)
			writeRowsOneByOne(fw, J)
			if err := fw.Close(); err != nil {
				x.Failf("harness", "reference", "%v", err)
				return
			}
			reference = ref.Bytes()
			var sink bytes.Buffer
			w := parquet.NewGenericWriter[JRow](&sink, job.opts()...)
			for _, h := range hist {
				switch h {
				case "complete(small)", "complete(large)", "complete(empty)":
					writeRowsOneByOne(w, priorRows(h))
					w.Close()
				case "aborted-after-write", "aborted-after-small-write":
					writeRowsOneByOne(w, priorRows(h))
				case "sink-fails":
					w.Reset(&failAfter{n: 200})
					writeRowsOneByOne(w, priorRows(h))
					w.Close()
				case "flush-only":
					writeRowsOneByOne(w, priorRows(h))
					w.Flush()
				case "close-twice":
					writeRowsOneByOne(w, priorRows(h))
					w.Close()
					w.Close()
				}
				sink.Reset()
				w.Reset(&sink)
			}
			writeRowsOneByOne(w, J)
			if err := w.Close(); err != nil {
				x.Failf("close-error", shape, "after %v: Close of the final job failed: %v", hist, err)
				return
			}
			got = sink.Bytes()
		} else {
			schema := parquet.SchemaOf(JRow{})
			wr := func(w *parquet.Writer, rows []JRow) {
				for i := range rows {
					w.Write(&rows[i])
				}
			}
			var ref bytes.Buffer
			fw := parquet.NewWriter(&ref, append([]parquet.WriterOption{schema}, job.opts()...)...)
			wr(fw, J)
			if err := fw.Close(); err != nil {
				x.Failf("harness", "reference", "%v", err)
				return
			}
			reference = ref.Bytes()
			var sink bytes.Buffer
			w := parquet.NewWriter(&sink, append([]parquet.WriterOption{schema}, job.opts()...)...)
			for _, h := range hist {
				switch h {
				case "complete(small)", "complete(large)", "complete(empty)":
					wr(w, priorRows(h))
					w.Close()
				case "aborted-after-write", "aborted-after-small-write":
					wr(w, priorRows(h))
				case "sink-fails":
					w.Reset(&failAfter{n: 200})
					wr(w, priorRows(h))
					w.Close()
				case "flush-only":
					wr(w, priorRows(h))
					w.Flush()
				case "close-twice":
					wr(w, priorRows(h))
					w.Close()
					w.Close()
				}
				sink.Reset()
				w.Reset(&sink)
			}
			wr(w, J)
			if err := w.Close(); err != nil {
				x.Failf("close-error", shape, "after %v: Close of the final job failed: %v", hist, err)
				return
			}
			got = sink.Bytes()
		}
	case "GenericWriter.WriteRowGroup(shared file)":
		var src bytes.Buffer
		sw := parquet.NewGenericWriter[JRow](&src, job.opts()...)
		writeRowsOneByOne(sw, J)
		if err := sw.Close(); err != nil {
			x.Failf("harness", "source", "%v", err)
			return
		}
		open := func() *parquet.File {
			f, err := parquet.OpenFile(bytes.NewReader(src.Bytes()), int64(src.Len()))
			if err != nil {
				panic(err)
			}
			return f
		}
		copyAll := func(w *parquet.GenericWriter[JRow], f *parquet.File) error {
			for _, rg := range f.RowGroups() {
				if _, err := w.WriteRowGroup(rg); err != nil {
					return err
				}
			}
			return nil
		}
		var ref bytes.Buffer
		fw := parquet.NewGenericWriter[JRow](&ref, job.opts()...)
		if err := copyAll(fw, open()); err != nil {
			x.Failf("harness", "reference", "%v", err)
			return
		}
		if err := fw.Close(); err != nil {
			x.Failf("harness", "reference", "%v", err)
			return
		}
		reference = ref.Bytes()
		shared := open()
		var sink bytes.Buffer
		w := parquet.NewGenericWriter[JRow](&sink, job.opts()...)
		for _, h := range hist {
			switch h {
			case "complete(small)", "complete(large)", "complete(empty)":
				copyAll(w, shared)
				w.Close()
			case "aborted-after-write", "aborted-after-small-write":
				copyAll(w, shared)
			case "sink-fails":
				w.Reset(&failAfter{n: 200})
				copyAll(w, shared)
				w.Close()
			case "flush-only":
				copyAll(w, shared)
				w.Flush()
			case "close-twice":
				copyAll(w, shared)
				w.Close()
				w.Close()
			}
			sink.Reset()
			w.Reset(&sink)
		}
		if err := copyAll(w, shared); err != nil {
			x.Failf("close-error", shape, "after %v: WriteRowGroup of the final job failed: %v", hist, err)
			return
		}
		if err := w.Close(); err != nil {
			x.Failf("close-error", shape, "after %v: Close of the final job failed: %v", hist, err)
			return
		}
		got = sink.Bytes()
	case "GenericWriter.WriteRowGroup(sorted buffer)":
		sorting := parquet.SortingRowGroupConfig(parquet.SortingColumns(parquet.Descending("ID")))
		sorted := func(rows []JRow) *parquet.GenericBuffer[JRow] {
			b := parquet.NewGenericBuffer[JRow](sorting)
			b.Write(rows)
			sort.Sort(b)
			return b
		}
		var ref bytes.Buffer
		fw := parquet.NewGenericWriter[JRow](&ref, job.opts()...)
		if _, err := fw.WriteRowGroup(sorted(J)); err != nil {
			x.Failf("harness", "reference", "%v", err)
			return
		}
		if err := fw.Close(); err != nil {
			x.Failf("harness", "reference", "%v", err)
			return
		}
		reference = ref.Bytes()
		var sink bytes.Buffer
		w := parquet.NewGenericWriter[JRow](&sink, job.opts()...)
		for _, h := range hist {
			switch h {
			case "complete(small)", "complete(large)", "complete(empty)":
				w.WriteRowGroup(sorted(priorRows(h)))
				w.Close()
			case "aborted-after-write", "aborted-after-small-write":
				w.WriteRowGroup(sorted(priorRows(h)))
			case "sink-fails":
				w.Reset(&failAfter{n: 200})
				w.WriteRowGroup(sorted(priorRows(h)))
				w.Close()
			case "flush-only":
				w.WriteRowGroup(sorted(priorRows(h)))
				w.Flush()
			case "close-twice":
				w.WriteRowGroup(sorted(priorRows(h)))
				w.Close()
				w.Close()
			}
			sink.Reset()
			w.Reset(&sink)
		}
		if _, err := w.WriteRowGroup(sorted(J)); err != nil {
			x.Failf("close-error", shape, "after %v: WriteRowGroup of the final job failed: %v", hist, err)
			return
		}
		if err := w.Close(); err != nil {
			x.Failf("close-error", shape, "after %v: Close of the final job failed: %v", hist, err)
			return
		}
		got = sink.Bytes()
	case "GenericBuffer->WriteRowGroup":
		emit := func(b *parquet.GenericBuffer[JRow]) ([]byte, error) {
			var out bytes.Buffer
			w := parquet.NewGenericWriter[JRow](&out, job.opts()...)
			if _, err := w.WriteRowGroup(b); err != nil {
				return nil, err
			}
			if err := w.Close(); err != nil {
				return nil, err
			}
			return out.Bytes(), nil
		}
		sorting := parquet.SortingRowGroupConfig(parquet.SortingColumns(parquet.Descending("ID")))
		fb := parquet.NewGenericBuffer[JRow](sorting)
		fb.Write(J)
		sort.Sort(fb)
		var err error
		if reference, err = emit(fb); err != nil {
			x.Failf("harness", "reference", "%v", err)
			return
		}
		b := parquet.NewGenericBuffer[JRow](sorting)
		for _, h := range hist {
			b.Write(priorRows(h))
			switch h {
			case "complete(small)", "complete(large)", "close-twice":
				sort.Sort(b)
				emit(b)
			case "flush-only":
				sort.Sort(b)
			}
			b.Reset()
		}
		b.Write(J)
		sort.Sort(b)
		if got, err = emit(b); err != nil {
			x.Failf("close-error", shape, "after %v: %v", hist, err)
			return
		}
	case "SortingWriter":
		sopt := parquet.SortingWriterConfig(parquet.SortingColumns(parquet.Descending("ID")))
		var ref bytes.Buffer
		fw := parquet.NewSortingWriter[JRow](&ref, 6, append(job.opts(), sopt)...)
		fw.Write(J)
		if err := fw.Close(); err != nil {
			x.Failf("harness", "reference", "%v", err)
			return
		}
		reference = ref.Bytes()
		var sink bytes.Buffer
		w := parquet.NewSortingWriter[JRow](&sink, 6, append(job.opts(), sopt)...)
		for _, h := range hist {
			switch h {
			case "complete(small)", "complete(large)", "complete(empty)":
				w.Write(priorRows(h))
				w.Close()
			case "aborted-after-write", "aborted-after-small-write":
				w.Write(priorRows(h))
			case "sink-fails":
				w.Reset(&failAfter{n: 200})
				w.Write(priorRows(h))
				w.Close()
			case "flush-only":
				w.Write(priorRows(h))
				w.Flush()
			case "close-twice":
				w.Write(priorRows(h))
				w.Close()
				w.Close()
			}
			sink.Reset()
			w.Reset(&sink)
		}
		w.Write(J)
		if err := w.Close(); err != nil {
			x.Failf("close-error", shape, "after %v: Close of the final job failed: %v", hist, err)
			return
		}
		got = sink.Bytes()
	}

	if !bytes.Equal(reference, got) {
		where := firstDiff(reference, got)
		x.Failf("bytes-differ", shape+";after="+strings.Join(hist, ","), "after history %v the same job produces different bytes than a fresh instance: %d vs %d bytes, first difference at offset %d (%s)", hist, len(got), len(reference), where, c17Region(reference, where))
		return
	}
	// run twice on fresh instances / another goroutine: same bytes
	done := make(chan []byte, 1)
	go func() {
		var again bytes.Buffer
		fw := parquet.NewGenericWriter[JRow](&again, job.opts()...)
		writeRowsOneByOne(fw, J)
		fw.Close()
		done <- again.Bytes()
	}()
	again := <-done
	if container == "GenericWriter" && !bytes.Equal(again, reference) {
		x.Failf("bytes-differ", shape+";after=other-goroutine", "the same job on a fresh writer in another goroutine produces different bytes (first difference at %d)", firstDiff(again, reference))
		return
	}
	// the reference digest must also be the same in every build variant
	x.VariantShape(shape)
	x.Outcome(fmt.Sprintf("%x", sha256.Sum256(reference)))
}

func c17Region(data []byte, off int) string {
	if off < 0 {
		return "length only"
	}
	f, err := parquet.OpenFile(bytes.NewReader(data), int64(len(data)))
	if err != nil {
		return "?"
	}
	md := f.Metadata()
	for i, rg := range md.RowGroups {
		for j, c := range rg.Columns {
			start := c.MetaData.DataPageOffset
			if c.MetaData.DictionaryPageOffset > 0 && c.MetaData.DictionaryPageOffset < start {
				start = c.MetaData.DictionaryPageOffset
			}
			if int64(off) >= start && int64(off) < start+c.MetaData.TotalCompressedSize {
				return fmt.Sprintf("pages of rg%d/col%d", i, j)
			}
			if c.MetaData.BloomFilterOffset > 0 && int64(off) >= c.MetaData.BloomFilterOffset && int64(off) < c.MetaData.BloomFilterOffset+int64(c.MetaData.BloomFilterLength) {
				return fmt.Sprintf("bloom filter of rg%d/col%d", i, j)
			}
		}
	}
	return "page index / footer"
}

func init() {
	Register(&engine.Prop{
		ID:    "C17",
		Level: "exploration",
		Rule: "8 jobs (default, small pages, dictionary fallback, bloom filters, 2 row groups, key/value + sorting metadata, v1+snappy+statistics, combined) x 5 containers (incl. one writer copying the row groups of one open source file repeatedly) (GenericWriter, Writer(any), GenericBuffer->WriteRowGroup, SortingWriter) x {real, always-reuse} pools x ALL histories of <=2 (3 thorough) prior uses of the SAME instance from {complete small/large/empty job, job aborted after Write, job whose sink fails, Flush only, Close twice}, each followed by Reset; the final job's bytes must equal a fresh instance's, also from another goroutine; the fresh digest is compared across build variants asm / no-AVX2 / purego; " +
			"non-trivial = non-empty history",
		Assumptions: []string{"Go map-typed values and encryption are excluded by the statement; GOEXPERIMENT=simd build not compared"},
		Bound:       func(string) int { return 0 },
		Run:         c17Run,
		Variants: func(tier string) []string {
			if tier == "thorough" {
				return []string{"asm", "noavx512", "noavx2", "purego"}
			}
			return []string{"asm", "noavx2", "purego"}
		},
		CrossVariant: true,
	})
}
