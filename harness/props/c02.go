package props

import (
	"bytes"
	"fmt"
	"sort"
	"strings"

	"github.com/parquet-go/parquet-go"

	"verif/engine"
	"verif/pqref"
)

// C02 — every written file is well-formed Parquet that an independent
// decoder (pqref, written from the format specification only) agrees on.

// issue codes that belong to other properties' oracles
func c05Code(code string) bool {
	switch {
	case strings.HasPrefix(code, "stats-"), strings.HasPrefix(code, "page-stats-"),
		strings.HasPrefix(code, "column-index-"), strings.HasPrefix(code, "size-stats-"),
		code == "sorting-column-index":
		return true
	}
	return false
}

func c07Code(code string) bool { return code == "bloom-miss" }

// not needed by a foreign reader: the spec tells readers to ignore min/max
// entries of null pages (the library stores the zero value instead of byte[0]
// for fixed-width types).
func ignoredCode(code string) bool { return code == "column-index-null-page-minmax" }

// pqCheck runs the independent checker and returns the issues grouped by
// owner ("C02", "C05", "C07").
func pqCheck(data []byte) (f *pqref.File, byOwner map[string][]pqref.Issue) {
	f, issues := pqref.Check(data)
	byOwner = map[string][]pqref.Issue{}
	for _, is := range issues {
		switch {
		case ignoredCode(is.Code):
		case strings.HasSuffix(is.Code, "-nan") && f != nil && !unitHasOrderedValue(f, is.Where):
			// a NaN bound on a unit whose non-null values are all NaN bounds
			// nothing ("ignoring NaN") and readers must ignore NaN bounds
		case c07Code(is.Code):
			byOwner["C07"] = append(byOwner["C07"], is)
		case c05Code(is.Code):
			byOwner["C05"] = append(byOwner["C05"], is)
		default:
			byOwner["C02"] = append(byOwner["C02"], is)
		}
	}
	return
}

func maskWhere(w string) string { return maskDigitsKeep(w) }

func maskDigitsKeep(s string) string {
	var b strings.Builder
	in := false
	for _, c := range s {
		if c >= '0' && c <= '9' {
			if !in {
				b.WriteByte('N')
				in = true
			}
			continue
		}
		in = false
		b.WriteRune(c)
	}
	return b.String()
}

// reportIssues records the first issue (sorted by code) as a violation.
func reportIssues(x *engine.X, shapePrefix string, issues []pqref.Issue) bool {
	if len(issues) == 0 {
		return false
	}
	sort.SliceStable(issues, func(i, j int) bool { return issues[i].Code < issues[j].Code })
	var all []string
	for i, is := range issues {
		if i < 6 {
			all = append(all, is.String())
		}
	}
	x.Failf("malformed", shapePrefix+";code="+issues[0].Code, "independent decoder reports %d issue(s):\n  %s", len(issues), strings.Join(all, "\n  "))
	return true
}

// pqStreams decodes every leaf with pqref: per column the list of
// "r<rep> d<def> <hex|null>" strings.
func pqStreams(f *pqref.File) ([][]string, error) {
	out := make([][]string, len(f.Leaves))
	for rg := range f.RowGroups {
		for col := range f.Leaves {
			pages, err := f.ReadColumn(rg, col)
			if err != nil {
				return nil, fmt.Errorf("rg%d/col%d: %w", rg, col, err)
			}
			for _, p := range pages {
				for _, t := range p.Triples {
					if t.Null {
						out[col] = append(out[col], fmt.Sprintf("r%d d%d null", t.Rep, t.Def))
					} else {
						out[col] = append(out[col], fmt.Sprintf("r%d d%d %x", t.Rep, t.Def, t.Val))
					}
				}
			}
		}
	}
	return out, nil
}

// libStreams reads the same per-column streams with the library.
func libStreams(data []byte) ([][]string, error) {
	rows, err := readFileRows(data)
	if err != nil {
		return nil, err
	}
	f, err := parquet.OpenFile(bytes.NewReader(data), int64(len(data)))
	if err != nil {
		return nil, err
	}
	out := make([][]string, len(f.Schema().Columns()))
	for _, r := range rows {
		for _, v := range r {
			c := v.Column()
			if v.IsNull() {
				out[c] = append(out[c], fmt.Sprintf("r%d d%d null", v.RepetitionLevel(), v.DefinitionLevel()))
			} else {
				b := v.AppendBytes(nil)
				if v.Kind() == parquet.Boolean {
					if v.Boolean() {
						b = []byte{1}
					} else {
						b = []byte{0}
					}
				}
				out[c] = append(out[c], fmt.Sprintf("r%d d%d %x", v.RepetitionLevel(), v.DefinitionLevel(), b))
			}
		}
	}
	return out, nil
}

// checkFileAgainstSpec is the C02 oracle for one file.
func checkFileAgainstSpec(x *engine.X, shape string, data []byte, wantSorting []parquet.SortingColumn, maxRows int64, sourceSorting ...parquet.SortingColumn) {
	f, by := pqCheck(data)
	if reportIssues(x, shape, by["C02"]) {
		return
	}
	if f == nil {
		x.Failf("malformed", shape+";code=parse", "independent decoder cannot parse the footer")
		return
	}
	for i, rg := range f.RowGroups {
		if maxRows > 0 && rg.NumRows > maxRows {
			x.Failf("malformed", shape+";code=rg-too-large", "row group %d has %d rows, MaxRowsPerRowGroup=%d", i, rg.NumRows, maxRows)
			return
		}
		// (a row group written from a source row group that declares a sort order may carry that order over)
		if len(rg.SortingColumns) != len(wantSorting) && !(len(sourceSorting) > 0 && len(rg.SortingColumns) == len(sourceSorting)) {
			x.Failf("malformed", shape+";code=sorting-columns", "row group %d declares %d sorting columns, caller declared %d", i, len(rg.SortingColumns), len(wantSorting))
			return
		}
	}
	ps, err := pqStreams(f)
	if err != nil {
		x.Failf("malformed", shape+";code=decode", "independent decoder failed: %v", err)
		return
	}
	ls, err := libStreams(data)
	if err != nil {
		x.Failf("read-error", shape, "library read failed: %v", err)
		return
	}
	for c := range ps {
		if len(ps[c]) != len(ls[c]) {
			x.Failf("decoder-disagrees", shape+";what=count", "column %d: independent decoder sees %d values, library %d", c, len(ps[c]), len(ls[c]))
			return
		}
		for i := range ps[c] {
			if ps[c][i] != ls[c][i] {
				x.Failf("decoder-disagrees", shape+";what=value", "column %d value %d: independent decoder %s, library %s", c, i, ps[c][i], ls[c][i])
				return
			}
		}
	}
	x.CountN("pages-decoded-by-pqref", countPages(f))
}

func countPages(f *pqref.File) int64 {
	var n int64
	for rg := range f.RowGroups {
		for col := range f.Leaves {
			p, _ := f.Pages(rg, col)
			n += int64(len(p))
		}
	}
	return n
}

var c02Kinds = []int{1, 2, 3, 4, 5, 6, 8}

func c02Run(x *engine.X) {
	root := x.Choose(len(rowTypes)*len(c02Kinds), "type*seqkind")
	rt := rowTypes[root/len(c02Kinds)]
	kind := c02Kinds[root%len(c02Kinds)]
	x.Descf("type=%s", rt.Name)
	rows, ok := chooseRowSeq(x, rt, kind)
	if !ok {
		return
	}
	var cuts []int
	var flush []bool
	if n := len(rows); n > 1 {
		// two Write calls (pages are only cut between calls): free for short
		// sequences, one deviation for long ones
		var h int
		if n <= 3 {
			h = x.Choose(3, "hist")
		} else {
			h = x.Deviate(2, "hist")
		}
		switch h {
		case 1:
			cuts, flush = []int{n / 2}, []bool{true}
			x.Descf("cut+flush@%d", n/2)
		case 2:
			cuts, flush = []int{n / 2}, []bool{false}
			x.Descf("cut@%d", n/2)
		}
	}
	cfg := chooseWriterOptions(x, rt.SchemaOf(), tmpDir)
	var buf bytes.Buffer
	shape := fmt.Sprintf("type=%s;opts=%s", rt.Name, strings.Join(cfg.desc, ","))
	if err := rt.WriteGeneric(&buf, cfg.opts, rows, cuts, flush); err != nil {
		x.Failf("write-error", shape, "write failed: %v", err)
		return
	}
	if len(rows) >= 2 {
		x.Nontrivial(x.Describe())
	}
	data := buf.Bytes()
	// the WriteRowGroup copy / re-encode paths emit files too: rewrite the
	// file through them (one more deviation)
	if via := x.Deviate(3, "via"); via > 0 {
		src, err := parquet.OpenFile(bytes.NewReader(data), int64(len(data)))
		if err != nil {
			x.Failf("read-error", shape, "OpenFile: %v", err)
			return
		}
		opts := append([]parquet.WriterOption{}, cfg.opts...)
		name := "copy"
		if via == 2 {
			name = "reencode"
			if cfg.codecName == "snappy" {
				opts = append(opts, parquet.Compression(codecs[2]))
			} else {
				opts = append(opts, parquet.Compression(codecs[1]))
			}
		}
		x.Descf("via=WriteRowGroup(%s)", name)
		shape += ";via=" + name
		var out bytes.Buffer
		w := parquet.NewGenericWriter[any](&out, append([]parquet.WriterOption{src.Schema()}, opts...)...)
		for _, rg := range src.RowGroups() {
			if _, err := w.WriteRowGroup(rg); err != nil {
				x.Failf("write-error", shape, "WriteRowGroup: %v", err)
				return
			}
		}
		if err := w.Close(); err != nil {
			x.Failf("write-error", shape, "Close: %v", err)
			return
		}
		data = out.Bytes()
	}
	checkFileAgainstSpec(x, shape, data, nil, cfg.maxRows)
	x.Outcome(fmt.Sprint(len(data)))
}

func init() {
	Register(&engine.Prop{
		ID:    "C02",
		Level: "exploration",
		Rule: "files written by GenericWriter for 28 row types x row sequences {each alphabet row, all, reversed, 2-/3-run patterns, 400+ varied rows} x {one batch, cut+Flush} x writer option lattice within the deviation bound; every file is checked by pqref (independent decoder: thrift, page walk, levels, all encodings, CRC, page index, bloom framing) and its (rep, def, value) streams must equal what the library reads; " +
			"non-trivial = >=2 rows",
		Assumptions: []string{
			"pqref shares no code with the library (zstd and brotli bodies are decompressed with the upstream libraries)",
			"min/max entries of null pages in the column index are not checked for being empty (readers must ignore them)",
			"statistics bounds and bloom membership found by the same checker are reported under C05/C07",
		},
		Bound: func(tier string) int {
			if tier == "thorough" {
				return 2
			}
			return 1
		},
		Run: c02Run,
	})
}

// unitHasOrderedValue reports whether the page or chunk named by where
// ("rgN/colM" or "rgN/colM/pageK", K indexing Pages() incl. the dictionary
// page) holds at least one non-null value that is not NaN.
func unitHasOrderedValue(f *pqref.File, where string) bool {
	var rg, col, page int
	page = -1
	n, _ := fmt.Sscanf(where, "rg%d/col%d/page%d", &rg, &col, &page)
	if n < 2 {
		return true
	}
	if n < 3 {
		page = -1
	}
	if rg >= len(f.RowGroups) || col >= len(f.Leaves) {
		return true
	}
	leaf := &f.Leaves[col]
	pages, err := f.ReadColumn(rg, col)
	if err != nil {
		return true
	}
	ordinal := -1
	if page >= 0 {
		infos, err := f.Pages(rg, col)
		if err != nil || page >= len(infos) {
			return true
		}
		ordinal = 0
		for i := 0; i < page; i++ {
			if infos[i].IsDataPage() {
				ordinal++
			}
		}
	}
	for i, p := range pages {
		if ordinal >= 0 && i != ordinal {
			continue
		}
		for _, t := range p.Triples {
			if !t.Null && !pqref.IsNaN(leaf, t.Val) {
				return true
			}
		}
	}
	return false
}
