package props

import (
	"bytes"
	"fmt"
	"os"
	"os/exec"
	"path/filepath"
	"regexp"
	"strconv"
	"strings"
	"sync"
	"time"

	"github.com/parquet-go/parquet-go"

	"verif/engine"
)

// Complement of the schedule exploration: the cooperative scheduler orders
// executions at synchronisation operations only, so two plain-memory accesses
// that no synchronisation orders are invisible to it (its hand-offs are
// happens-before edges). The same scenario bodies are therefore also run
// FREE-RUNNING (real sync, real goroutines, GOMAXPROCS=4) in a binary built
// with the Go race detector, with pool poisoning on so that a use after release
// is a write/read pair the detector can see. This pass samples schedules; it is
// not the deciding enumeration and is reported under coverage.supplement. The
// detector reports only real races, so a report is never a false alarm.

// c15RaceAux: vcheck-race --aux --id C15 --tier T -- <scenario*case index> <iterations>
func c15RaceAux(tier string, args []string) int {
	if len(args) < 2 {
		fmt.Println("HARNESS-ERROR c15 aux: want <index> <iterations>")
		return 2
	}
	idx, _ := strconv.Atoi(args[0])
	iters, _ := strconv.Atoi(args[1])
	type sc struct{ s, i int }
	var all []sc
	for si, s := range c15Scenarios {
		for i := 0; i < s.cases(tier); i++ {
			all = append(all, sc{si, i})
		}
	}
	if idx < 0 || idx >= len(all) {
		fmt.Println("HARNESS-ERROR c15 aux: index out of range")
		return 2
	}
	c := all[idx]
	s := c15Scenarios[c.s]
	parquet.VerifSetPoolPolicy(parquet.VerifPoolReal)
	parquet.VerifSetPoison(true)
	asyncOutsideSched = true // S1 must use the real asyncPages goroutine here
	_, ref := s.body(c.i, tier)
	want := ref()
	// two concurrent runners of the same body: independent instances sharing the
	// process-wide pools and caches, as the statement allows
	var wg sync.WaitGroup
	bad := make(chan string, 4)
	for g := 0; g < 2; g++ {
		wg.Add(1)
		go func() {
			defer wg.Done()
			for k := 0; k < iters; k++ {
				_, b := s.body(c.i, tier)
				if got := b(); !c15SameAs(&s, got, want) {
					select {
					case bad <- got:
					default:
					}
					return
				}
			}
		}()
	}
	wg.Wait()
	select {
	case got := <-bad:
		fmt.Printf("RACEPASS-DIFF scenario=%s\n got:  %s\n want: %s\n", s.name, trunc2(got), trunc2(want))
		return 1
	default:
	}
	fmt.Printf("RACEPASS-OK scenario=%s case=%d iterations=%d\n", s.name, c.i, 2*iters)
	return 0
}

var raceFrameRe = regexp.MustCompile(`(?m)^\s+github\.com/parquet-go/parquet-go[^\s(]*`)

func c15Supplement(c *engine.SuppCtx) *engine.SuppResult {
	exe := filepath.Join(c.BinDir, "vcheck-race")
	if _, err := os.Stat(exe); err != nil {
		return &engine.SuppResult{Error: "race binary missing: " + err.Error()}
	}
	iters := 100
	if c.Tier == "thorough" {
		iters = 1500
	}
	type sc struct {
		name string
		i    int
	}
	var all []sc
	var idxs []int // index of each selected case in the scenario*case axis of the aux entry point
	k := 0
	for _, s := range c15Scenarios {
		for i := 0; i < s.cases(c.Tier); i++ {
			// quick: every 6th consumer sequence of S1 and S11 (they differ in the consumer's
			// calls, not in the goroutines involved); thorough: all of them
			if c.Tier == "thorough" || (s.name != "S1-asyncPages" && s.name != "S11-asyncPagesCorruptedPage") || i%6 == 0 {
				all = append(all, sc{s.name, i})
				idxs = append(idxs, k)
			}
			k++
		}
	}
	res := &engine.SuppResult{Coverage: map[string]any{
		"what":                "free-running race-detector pass of the C15 scenario bodies (sampling; complements the exhaustive schedule exploration for plain-memory races)",
		"iterations_per_case": 2 * iters,
		"cases":               len(all),
	}}
	var mu sync.Mutex
	var wg sync.WaitGroup
	sem := make(chan struct{}, 4)
	ok := 0
	start := time.Now()
	for j, s := range all {
		idx := idxs[j]
		wg.Add(1)
		sem <- struct{}{}
		go func(idx int, s sc) {
			defer wg.Done()
			defer func() { <-sem }()
			cmd := exec.Command(exe, "--aux", "--id", "C15", "--tier", c.Tier, "--", fmt.Sprint(idx), fmt.Sprint(iters))
			cmd.Env = append(os.Environ(), "GOMAXPROCS=4", "GORACE=halt_on_error=1 exitcode=66")
			var out bytes.Buffer
			cmd.Stdout, cmd.Stderr = &out, &out
			done := make(chan error, 1)
			cmd.Start()
			go func() { done <- cmd.Wait() }()
			var err error
			select {
			case err = <-done:
			case <-time.After(10 * time.Minute):
				cmd.Process.Kill()
				<-done
				mu.Lock()
				res.Error = "race pass timed out on " + s.name
				mu.Unlock()
				return
			}
			o := out.String()
			mu.Lock()
			defer mu.Unlock()
			switch {
			case err == nil && strings.Contains(o, "RACEPASS-OK"):
				ok++
			case strings.Contains(o, "WARNING: DATA RACE"):
				// shape: scenario + first library frame of the report
				fr := raceFrameRe.FindString(o)
				res.Findings = append(res.Findings, engine.SuppFinding{Kind: "data-race", Shape: "scenario=" + s.name,
					Detail:   fmt.Sprintf("%s case %d: the race detector reports a data race in a documented concurrent use (first library frame: %s)\n%s", s.name, s.i, strings.TrimSpace(fr), firstLines(o, 40)),
					Artefact: fmt.Sprintf("rerun: cd /verif && ./run build race && GORACE='halt_on_error=1' .work/bin/vcheck-race --aux --id C15 --tier %s -- %d %d\n\n%s", c.Tier, idx, iters, o)})
			case strings.Contains(o, "RACEPASS-DIFF"):
				res.Findings = append(res.Findings, engine.SuppFinding{Kind: "not-serializable", Shape: "scenario=" + s.name + ";free-running",
					Detail: firstLines(o, 10), Artefact: o})
			case strings.Contains(o, "panic:") || strings.Contains(o, "fatal error:"):
				res.Findings = append(res.Findings, engine.SuppFinding{Kind: "panic", Shape: "scenario=" + s.name + ";free-running",
					Detail: firstLines(o, 30), Artefact: o})
			default:
				res.Error = fmt.Sprintf("race pass of %s failed: %v: %s", s.name, err, firstLines(o, 20))
			}
		}(idx, s)
	}
	wg.Wait()
	res.Coverage["cases_clean"] = ok
	res.Coverage["wall_s"] = time.Since(start).Seconds()
	return res
}
