package props

import (
	"bytes"
	"errors"
	"fmt"
	"io"
	"strings"

	"github.com/parquet-go/parquet-go"
	"github.com/parquet-go/parquet-go/compress/snappy"

	"verif/engine"
)

// C14 — I/O failures and truncated files are always reported.

type IORow struct {
	ID int64
	S  string `parquet:",dict"`
	O  *int32
	L  []string
}

func c14Rows(n int) []IORow {
	rows := make([]IORow, n)
	for i := range rows {
		rows[i] = IORow{ID: int64(i), S: fmt.Sprintf("s%d", i%5)}
		if i%3 == 0 {
			rows[i].O = ptrTo(int32(i))
		}
		for j := 0; j < i%3; j++ {
			rows[i].L = append(rows[i].L, fmt.Sprintf("PAR1-%d-%d", i, j))
		}
	}
	return rows
}

func iorowString(r IORow) string {
	o := "nil"
	if r.O != nil {
		o = fmt.Sprint(*r.O)
	}
	return fmt.Sprintf("%d|%s|%s|%v", r.ID, r.S, o, r.L)
}

var errSink = errors.New("verif: injected sink failure")

// faultySink accepts `limit` bytes, then misbehaves according to mode.
type faultySink struct {
	buf      bytes.Buffer
	limit    int
	mode     string // "err", "short", "dead", "oneshot"
	tripped  bool
	accepted int
	calls    int
	failCall int // for per-call mode: index of the call to fail (-1 = by byte limit)
	failN    int // bytes accepted by the failing call (per-call mode)
}

func (s *faultySink) Write(p []byte) (int, error) {
	call := s.calls
	s.calls++
	if s.failCall >= 0 {
		if call != s.failCall && !(s.mode == "dead" && s.tripped) {
			s.buf.Write(p)
			s.accepted += len(p)
			return len(p), nil
		}
		n := s.failN
		if n > len(p) {
			n = len(p)
		}
		if s.mode == "dead" && s.tripped {
			return 0, errSink
		}
		s.tripped = true
		s.buf.Write(p[:n])
		s.accepted += n
		if s.mode == "short" {
			return n, nil
		}
		return n, errSink
	}
	if s.tripped {
		switch s.mode {
		case "dead":
			return 0, errSink
		case "oneshot", "short":
			// the fault happened once; the sink then behaves
			s.buf.Write(p)
			s.accepted += len(p)
			return len(p), nil
		}
	}
	room := s.limit - s.accepted
	if room >= len(p) && !s.tripped {
		s.buf.Write(p)
		s.accepted += len(p)
		return len(p), nil
	}
	if room < 0 {
		room = 0
	}
	s.tripped = true
	s.buf.Write(p[:room])
	s.accepted += room
	switch s.mode {
	case "short":
		return room, nil
	default:
		return room, errSink
	}
}

type c14Cfg struct {
	desc  string
	opts  func(tmp string) []parquet.WriterOption
	nrows int
	flush []int // Flush after these row counts
	// via: "" = GenericWriter.Write; "filter" = the rows go through
	// FilterRowWriter (an all-pass predicate) to the same writer
	via string
}

func c14Configs() []c14Cfg {
	base := func(extra ...parquet.WriterOption) func(string) []parquet.WriterOption {
		return func(string) []parquet.WriterOption {
			return append([]parquet.WriterOption{parquet.PageBufferSize(64)}, extra...)
		}
	}
	bloom := parquet.BloomFilters(parquet.SplitBlockFilter(10, "S"), parquet.SplitBlockFilter(10, "ID"))
	return []c14Cfg{
		{"default", base(), 12, nil, ""},
		{"wbuf=0", base(parquet.WriteBufferSize(0)), 12, nil, ""},
		{"wbuf=7", base(parquet.WriteBufferSize(7)), 12, nil, ""},
		{"wbuf=0,chunkpool5", base(parquet.WriteBufferSize(0), parquet.ColumnPageBuffers(parquet.NewChunkBufferPool(5))), 12, nil, ""},
		{"filepool", func(tmp string) []parquet.WriterOption {
			return []parquet.WriterOption{parquet.PageBufferSize(64), parquet.ColumnPageBuffers(parquet.NewFileBufferPool(tmp, "c14.*"))}
		}, 12, nil, ""},
		{"wbuf=0,bloom", base(parquet.WriteBufferSize(0), bloom), 12, nil, ""},
		{"wbuf=0,bloom+deferred", base(parquet.WriteBufferSize(0), bloom, parquet.DeferBloomFiltersWithBuffers(parquet.NewBufferPool())), 12, nil, ""},
		{"bloom+deferred", base(bloom, parquet.DeferBloomFiltersWithBuffers(parquet.NewBufferPool())), 12, nil, ""},
		{"wbuf=0,snappy,3rg", base(parquet.WriteBufferSize(0), parquet.Compression(&snappy.Codec{}), parquet.MaxRowsPerRowGroup(4)), 12, nil, ""},
		{"snappy,flush@5", base(parquet.Compression(&snappy.Codec{})), 12, []int{5}, ""},
		{"wbuf=0,v1,flush@5,9", base(parquet.WriteBufferSize(0), parquet.DataPageVersion(1)), 12, []int{5, 9}, ""},
		{"wbuf=0,kv,stats", base(parquet.WriteBufferSize(0), parquet.KeyValueMetadata("k", "v"), parquet.DataPageStatistics(true)), 12, nil, ""},
		// row groups are flushed from inside WriteRows: its error is the one that reports the sink's
		{"wbuf=0,3rg,via=FilterRowWriter", base(parquet.WriteBufferSize(0), parquet.MaxRowsPerRowGroup(4)), 12, nil, "filter"},
	}
}

// c14Write runs the write history against w and returns the first error and
// whether any call panicked.
func c14Write(cfg c14Cfg, rows []IORow, out io.Writer) (err error, panicked any) {
	defer func() {
		if r := recover(); r != nil {
			panicked = r
		}
	}()
	w := parquet.NewGenericWriter[IORow](out, cfg.opts(tmpDir)...)
	schema := parquet.SchemaOf(IORow{})
	fw := parquet.FilterRowWriter(w, func(parquet.Row) bool { return true })
	note := func(e error) {
		if e != nil && err == nil {
			err = e
		}
	}
	flushAt := map[int]bool{}
	for _, f := range cfg.flush {
		flushAt[f] = true
	}
	step := 3
	if len(rows) > 100 {
		step = 500
	}
	for i := 0; i < len(rows); i += step {
		j := i + step
		if j > len(rows) {
			j = len(rows)
		}
		if cfg.via == "filter" {
			var prs []parquet.Row
			for k := i; k < j; k++ {
				prs = append(prs, schema.Deconstruct(nil, &rows[k]))
			}
			_, e := fw.WriteRows(prs)
			note(e)
		} else {
			_, e := w.Write(rows[i:j])
			note(e)
		}
		for k := i + 1; k <= j; k++ {
			if flushAt[k] {
				note(w.Flush())
			}
		}
	}
	note(w.Close())
	return
}

func c14ReadAll(data []byte, size int64, ra io.ReaderAt, fopts ...parquet.FileOption) (got []string, err error, panicked any) {
	defer func() {
		if r := recover(); r != nil {
			panicked = r
		}
	}()
	f, e := parquet.OpenFile(ra, size, fopts...)
	if e != nil {
		return nil, e, nil
	}
	r := parquet.NewGenericReader[IORow](f)
	defer func() {
		if ce := r.Close(); ce != nil && err == nil {
			err = ce
		}
	}()
	for guard := 0; guard < 100000; guard++ {
		buf := make([]IORow, 5)
		n, e := r.Read(buf)
		for i := 0; i < n; i++ {
			got = append(got, iorowString(buf[i]))
		}
		if e == io.EOF {
			return got, nil, nil
		}
		if e != nil {
			return got, e, nil
		}
		if n == 0 {
			return got, fmt.Errorf("Read returned 0, nil"), nil
		}
	}
	return got, fmt.Errorf("no EOF"), nil
}

// faultyReaderAt fails the i-th ReadAt call in one of several conformant ways.
type faultyReaderAt struct {
	r      *bytes.Reader
	calls  int
	failAt int
	mode   int // 0:(0,err) 1:(0,ErrUnexpectedEOF) 2:(1,ErrUnexpectedEOF) 3:(len-1,ErrUnexpectedEOF) 4:(len/2,io.EOF) 5:(0,io.EOF)
}

var errReadAt = errors.New("verif: injected ReadAt failure")

func (f *faultyReaderAt) ReadAt(p []byte, off int64) (int, error) {
	c := f.calls
	f.calls++
	if c != f.failAt || len(p) == 0 {
		return f.r.ReadAt(p, off)
	}
	m, err := 0, errReadAt
	switch f.mode {
	case 1:
		m, err = 0, io.ErrUnexpectedEOF
	case 2:
		m, err = 1, io.ErrUnexpectedEOF
	case 3:
		m, err = len(p)-1, io.ErrUnexpectedEOF
	case 4:
		m, err = len(p)/2, io.EOF
	case 5:
		m, err = 0, io.EOF
	}
	if m > len(p)-1 {
		m = len(p) - 1
	}
	if m < 0 {
		m = 0
	}
	n, _ := f.r.ReadAt(p[:m], off)
	return n, err
}

var c14OpenOpts = []struct {
	name string
	opts []parquet.FileOption
}{
	{"default", nil},
	{"skipindex", []parquet.FileOption{parquet.SkipPageIndex(true)}},
	{"skipbloom", []parquet.FileOption{parquet.SkipBloomFilters(true)}},
	{"optimistic", []parquet.FileOption{parquet.OptimisticRead(true)}},
	{"rbuf16", []parquet.FileOption{parquet.ReadBufferSize(16)}},
}

var c14Modes = []string{"sink-bytes", "sink-calls-big", "truncate", "readat",
	// the row groups of a file over a failing source are copied with WriteRowGroup into a writer of the same configuration
	"copy-from-faulty-source"}

// c14CopyAll opens the file over ra and writes its row groups to a fresh writer.
func c14CopyAll(cfg c14Cfg, size int64, ra io.ReaderAt) (out []byte, err error, panicked any) {
	defer func() {
		if r := recover(); r != nil {
			panicked = r
		}
	}()
	f, e := parquet.OpenFile(ra, size)
	if e != nil {
		return nil, e, nil
	}
	var buf bytes.Buffer
	w := parquet.NewGenericWriter[IORow](&buf, cfg.opts(tmpDir)...)
	for _, rg := range f.RowGroups() {
		if _, e := w.WriteRowGroup(rg); e != nil {
			return nil, e, nil
		}
	}
	if e := w.Close(); e != nil {
		return nil, e, nil
	}
	return buf.Bytes(), nil, nil
}

func c14Run(x *engine.X) {
	cfgs := c14Configs()
	root := x.Choose(len(c14Modes)*len(cfgs), "mode*config")
	mode := c14Modes[root/len(cfgs)]
	cfg := cfgs[root%len(cfgs)]
	rows := c14Rows(cfg.nrows)
	if mode == "sink-calls-big" {
		switch cfg.desc {
		case "default", "wbuf=0", "wbuf=0,bloom+deferred", "bloom+deferred", "wbuf=0,kv,stats":
		default:
			return // tiny chunks / row groups make thousands of sink calls: those configurations are covered by sink-bytes
		}
		if x.Tier == "thorough" {
			rows = c14Rows(6000)
		} else {
			rows = c14Rows(2500) // still several 32 KiB page-buffer chunks
		}
	}
	// fault-free run
	var clean bytes.Buffer
	if err, p := c14Write(cfg, rows, &clean); err != nil || p != nil {
		x.Failf("harness", "clean-write", "fault-free write failed: %v %v", err, p)
		return
	}
	L := clean.Len()
	var exp []string
	for _, r := range rows {
		exp = append(exp, iorowString(r))
	}
	x.Descf("mode=%s config=%s L=%d", mode, cfg.desc, L)
	x.Nontrivial(x.Describe())
	shape := fmt.Sprintf("mode=%s;config=%s", mode, cfg.desc)

	switch mode {
	case "sink-bytes":
		sm := []string{"err", "short", "dead", "oneshot"}[x.Choose(4, "sinkmode")]
		x.Descf("sink=%s", sm)
		shape += ";sink=" + sm
		for k := 0; k < L; k++ {
			if x.Expired() {
				return
			}
			x.AddEvals(1)
			s := &faultySink{limit: k, mode: sm, failCall: -1}
			err, p := c14Write(cfg, rows, s)
			if p != nil {
				x.Failf("panic", shape, "sink failing at byte %d of %d: panic %v", k, L, p)
				return
			}
			if err == nil && !bytes.Equal(s.buf.Bytes(), clean.Bytes()) {
				x.Failf("silent", shape+";region="+c14Region(k, L), "sink failed (%s) at byte %d of %d but Write/Flush/Close all returned nil and the sink does not hold the complete file (%d of %d bytes)", sm, k, L, s.buf.Len(), L)
				return
			}
		}
	case "sink-calls-big":
		sms := []string{"oneshot", "short", "err", "dead"}
		if x.Tier != "thorough" {
			sms = sms[:2]
		}
		sm := sms[x.Choose(len(sms), "sinkmode")]
		x.Descf("sink=%s", sm)
		shape += ";sink=" + sm
		// count the Write calls of a fault-free run and their sizes
		probe := &faultySink{limit: 1 << 40, mode: "err", failCall: -1}
		sizes := &sizeRecorder{}
		c14Write(cfg, rows, io.MultiWriter(probe, sizes))
		for j, sz := range sizes.sizes {
			if x.Expired() {
				return
			}
			for _, n := range []int{0, 1, sz / 2, sz - 1} {
				if n < 0 || n >= sz {
					continue
				}
				x.AddEvals(1)
				md := sm
				if sm == "oneshot" {
					md = "err" // per-call mode: every other call succeeds, i.e. one-shot
				}
				s := &faultySink{mode: md, failCall: j, failN: n}
				err, p := c14Write(cfg, rows, s)
				if p != nil {
					x.Failf("panic", shape, "sink failing in call %d/%d after %d of %d bytes: panic %v", j, len(sizes.sizes), n, sz, p)
					return
				}
				if err == nil && !bytes.Equal(s.buf.Bytes(), clean.Bytes()) {
					x.Failf("silent", shape, "sink call %d/%d accepted %d of %d bytes (%s) but Write/Flush/Close all returned nil and the sink does not hold the complete file (%d of %d bytes)", j, len(sizes.sizes), n, sz, sm, s.buf.Len(), L)
					return
				}
			}
		}
		x.CountN("sink-write-calls", int64(len(sizes.sizes)))
	case "truncate":
		oo := c14OpenOpts[x.Choose(len(c14OpenOpts), "open")]
		x.Descf("open=%s", oo.name)
		shape += ";open=" + oo.name
		data := clean.Bytes()
		for l := 0; l < L; l++ {
			x.AddEvals(1)
			got, err, p := c14ReadAll(data[:l], int64(l), bytes.NewReader(data[:l]), oo.opts...)
			if p != nil {
				x.Failf("panic", shape+";region="+c14Region(l, L), "file truncated to %d of %d bytes: panic %v", l, L, p)
				return
			}
			if err == nil {
				// accepted: a strict prefix must never read as a complete file... unless every row is intact
				x.Failf("prefix-accepted", shape+";region="+c14Region(l, L), "strict prefix of %d/%d bytes was opened and read without error (%d rows, complete=%v)", l, L, len(got), equalStrings(got, exp))
				return
			}
		}
	case "copy-from-faulty-source":
		fm := x.Choose(6, "readatmode")
		x.Descf("readat-mode=%d", fm)
		shape += fmt.Sprintf(";ramode=%d", fm)
		data := clean.Bytes()
		probe := &faultyReaderAt{r: bytes.NewReader(data), failAt: -1}
		if out, err, p := c14CopyAll(cfg, int64(L), probe); err != nil || p != nil || len(out) == 0 {
			x.Failf("harness", "clean-copy", "fault-free copy failed: %v %v", err, p)
			return
		}
		for i := 0; i < probe.calls; i++ {
			x.AddEvals(1)
			fr := &faultyReaderAt{r: bytes.NewReader(data), failAt: i, mode: fm}
			out, err, p := c14CopyAll(cfg, int64(L), fr)
			if p != nil {
				x.Failf("panic", shape, "ReadAt call %d/%d failing during the copy: panic %v", i, probe.calls, p)
				return
			}
			if err != nil {
				continue
			}
			got, rerr, rp := c14ReadAll(out, int64(len(out)), bytes.NewReader(out))
			if rp != nil || rerr != nil || !equalStrings(got, exp) {
				x.Failf("silent-copy", shape, "ReadAt call %d/%d of the source failed (mode %d) but WriteRowGroup and Close returned nil; the output reads back err=%v panic=%v with %d of %d rows", i, probe.calls, fm, rerr, rp, len(got), len(exp))
				return
			}
		}
		x.CountN("copy-readat-calls", int64(probe.calls))
	case "readat":
		oo := c14OpenOpts[x.Choose(len(c14OpenOpts), "open")]
		fm := x.Choose(6, "readatmode")
		x.Descf("open=%s readat-mode=%d", oo.name, fm)
		shape += fmt.Sprintf(";open=%s;ramode=%d", oo.name, fm)
		data := clean.Bytes()
		probe := &faultyReaderAt{r: bytes.NewReader(data), failAt: -1}
		if _, err, _ := c14ReadAll(data, int64(L), probe, oo.opts...); err != nil {
			x.Failf("harness", "clean-read", "fault-free read failed: %v", err)
			return
		}
		for i := 0; i < probe.calls; i++ {
			x.AddEvals(1)
			fr := &faultyReaderAt{r: bytes.NewReader(data), failAt: i, mode: fm}
			got, err, p := c14ReadAll(data, int64(L), fr, oo.opts...)
			if p != nil {
				x.Failf("panic", shape, "ReadAt call %d/%d failing: panic %v", i, probe.calls, p)
				return
			}
			if err == nil && !equalStrings(got, exp) {
				x.Failf("silent-read", shape, "ReadAt call %d/%d failed (mode %d) but the read returned nil error with %d of %d rows (altered or missing)", i, probe.calls, fm, len(got), len(exp))
				return
			}
			if err != nil && (len(got) > len(exp) || !equalStrings(got, exp[:len(got)])) {
				x.Failf("altered-rows", shape, "ReadAt call %d/%d failed: rows returned before the error differ from the file's", i, probe.calls)
				return
			}
		}
		x.CountN("readat-calls", int64(probe.calls))
	}
	x.Outcome("ok")
	_ = strings.Join
}

type sizeRecorder struct{ sizes []int }

func (s *sizeRecorder) Write(p []byte) (int, error) {
	s.sizes = append(s.sizes, len(p))
	return len(p), nil
}

func c14Region(k, L int) string {
	switch {
	case k < 4:
		return "magic"
	case k >= L-8:
		return "trailer"
	default:
		return "body"
	}
}

func init() {
	Register(&engine.Prop{
		ID:    "C14",
		Level: "fault_enumeration",
		Rule: "12 writer configurations (write buffer default/0/7, page buffer pools memory/chunk(5)/file, bloom filters immediate/deferred, codec, 1-3 row groups, Flush points, v1, statistics) x {sink failing at EVERY byte offset of the fault-free output in 4 ways: partial write + error then refusing everything, one short write without error, dead forever, one-shot error then recovered} + {a 6000-row file: every sink Write call failing after 0 / 1 / half / all-but-one bytes} + {every strict prefix of every file opened with 5 option sets and fully read} + {every ReadAt call of open+read failing in 6 contract-conformant ways} + {the same faults while the row groups are copied with WriteRowGroup to a writer of the same configuration: a nil error means a complete output}; " +
			"evaluation = one fault position; non-trivial = each (mode, config, fault class)",
		Assumptions: []string{"a read that returns the complete original rows despite an injected ReadAt fault is accepted (the failing bytes were not needed)"},
		Bound:       func(string) int { return 0 },
		Run:         c14Run,
	})
}
