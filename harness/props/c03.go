package props

import (
	"bytes"
	"fmt"
	"io"
	"reflect"
	"strings"

	"github.com/parquet-go/parquet-go"

	"verif/engine"
)

// C03 — all ingestion paths shred a Go value into the same column streams.
//
// Space: row type x row sequence (same generators as C01, incl. the
// null/non-null run patterns crossing 8/64/128) x batch split, through seven
// entry points. Observation: the (column, value bytes, repetition level,
// definition level) sequence of every row, read back with Rows().ReadRows.
// Oracle: all paths yield the same streams as the reflection reference path
// (Writer.Write(any)), and Reconstruct(Deconstruct(v)) == v under the mapping.

// stream renders rows canonically: one string per row.
func streamOf(rows []parquet.Row) []string {
	out := make([]string, len(rows))
	var sb strings.Builder
	for i, r := range rows {
		sb.Reset()
		for _, v := range r {
			if v.IsNull() {
				fmt.Fprintf(&sb, "c%d r%d d%d null|", v.Column(), v.RepetitionLevel(), v.DefinitionLevel())
			} else {
				fmt.Fprintf(&sb, "c%d r%d d%d %s:%x|", v.Column(), v.RepetitionLevel(), v.DefinitionLevel(), v.Kind(), v.AppendBytes(nil))
			}
		}
		out[i] = sb.String()
	}
	return out
}

func readAllRows(rg parquet.RowGroup) ([]parquet.Row, error) {
	rows := rg.Rows()
	defer rows.Close()
	var out []parquet.Row
	buf := make([]parquet.Row, 5)
	for guard := 0; guard < 1000000; guard++ {
		n, err := rows.ReadRows(buf)
		for i := 0; i < n; i++ {
			out = append(out, buf[i].Clone())
		}
		if err == io.EOF {
			return out, nil
		}
		if err != nil {
			return out, err
		}
		if n == 0 {
			return out, fmt.Errorf("ReadRows returned 0, nil")
		}
	}
	return out, fmt.Errorf("no EOF")
}

func readFileRows(data []byte) ([]parquet.Row, error) {
	f, err := parquet.OpenFile(bytes.NewReader(data), int64(len(data)))
	if err != nil {
		return nil, err
	}
	var out []parquet.Row
	for _, rg := range f.RowGroups() {
		rs, err := readAllRows(rg)
		out = append(out, rs...)
		if err != nil {
			return out, err
		}
	}
	return out, nil
}

var c03Paths = []string{"GenericWriter", "GenericBuffer", "Buffer.Write", "RowBuffer", "WriteRows(Deconstruct)", "ColumnWriters",
	// both entry points of one GenericWriter used alternately, batch by batch
	"GenericWriter(Write,WriteRows,..)", "GenericWriter(WriteRows,Write,..)",
	// a GenericBuffer whose pages and rows are looked at between batches
	"GenericBuffer(observed between writes)"}

func c03Stream(rt *RT, path string, rows []any, cuts []int) ([]string, error) {
	schema := rt.SchemaOf()
	var buf bytes.Buffer
	switch path {
	case "Writer.Write":
		if err := rt.WriteAny(&buf, nil, rows, cuts, nil); err != nil {
			return nil, err
		}
	case "GenericWriter":
		if err := rt.WriteGeneric(&buf, nil, rows, cuts, nil); err != nil {
			return nil, err
		}
	case "GenericWriter(Write,WriteRows,..)", "GenericWriter(WriteRows,Write,..)":
		if err := rt.WriteMixed(&buf, rows, cuts, path == "GenericWriter(Write,WriteRows,..)"); err != nil {
			return nil, err
		}
	case "GenericBuffer(observed between writes)":
		rg, err := rt.GenericBufferPeek(rows, cuts)
		if err != nil {
			return nil, err
		}
		rs, err := readAllRows(rg)
		return streamOf(rs), err
	case "GenericBuffer":
		rg, _, err := rt.GenericBuffer(rows, cuts)
		if err != nil {
			return nil, err
		}
		rs, err := readAllRows(rg)
		return streamOf(rs), err
	case "RowBuffer":
		rg, _, err := rt.RowBuffer(rows, cuts)
		if err != nil {
			return nil, err
		}
		rs, err := readAllRows(rg)
		return streamOf(rs), err
	case "Buffer.Write":
		b := parquet.NewBuffer(schema)
		for _, r := range rows {
			p := reflect.New(rt.Type)
			p.Elem().Set(reflect.ValueOf(r))
			if err := b.Write(p.Interface()); err != nil {
				return nil, err
			}
		}
		rs, err := readAllRows(b)
		return streamOf(rs), err
	case "WriteRows(Deconstruct)":
		w := parquet.NewWriter(&buf, schema)
		for _, b := range batches(len(rows), cuts) {
			var prs []parquet.Row
			for i := b[0]; i < b[1]; i++ {
				prs = append(prs, schema.Deconstruct(nil, rows[i]))
			}
			if _, err := w.WriteRows(prs); err != nil {
				return nil, err
			}
		}
		if err := w.Close(); err != nil {
			return nil, err
		}
	case "ColumnWriters":
		w := parquet.NewWriter(&buf, schema)
		cws := w.ColumnWriters()
		for _, b := range batches(len(rows), cuts) {
			cols := make([][]parquet.Value, len(cws))
			for i := b[0]; i < b[1]; i++ {
				for _, v := range schema.Deconstruct(nil, rows[i]) {
					cols[v.Column()] = append(cols[v.Column()], v)
				}
			}
			for ci, cw := range cws {
				if len(cols[ci]) == 0 {
					continue
				}
				if _, err := cw.WriteRowValues(cols[ci]); err != nil {
					return nil, err
				}
			}
		}
		if err := w.Close(); err != nil {
			return nil, err
		}
	}
	rs, err := readFileRows(buf.Bytes())
	return streamOf(rs), err
}

func hasMap(t reflect.Type) bool {
	switch t.Kind() {
	case reflect.Map:
		return true
	case reflect.Pointer, reflect.Slice, reflect.Array:
		return hasMap(t.Elem())
	case reflect.Struct:
		if t == timeType {
			return false
		}
		for i := 0; i < t.NumField(); i++ {
			if hasMap(t.Field(i).Type) {
				return true
			}
		}
	}
	return false
}

func c03Run(x *engine.X) {
	types := append(append([]*RT{}, rowTypes...), anyRowTypes...)
	root := x.Choose(len(types)*c01SeqKinds, "type*seqkind")
	rt := types[root/c01SeqKinds]
	kind := root % c01SeqKinds
	x.Descf("type=%s", rt.Name)
	rows, ok := chooseRowSeq(x, rt, kind)
	if !ok || len(rows) == 0 {
		return
	}
	var cuts []int
	if n := len(rows); n > 1 {
		cands := [][]int{nil, {1}, {n / 2}}
		if n > 64 {
			cands = append(cands, []int{64}, []int{65}, []int{9})
		}
		cuts = cands[x.Choose(len(cands), "cuts")]
		if cuts != nil {
			x.Descf("cuts=%v", cuts)
		}
	}
	// (maps written to GROUP nodes of an explicit schema are ordered by the schema)
	mapType := hasMap(rt.Type) && !rt.ExplicitSchema

	ref, err := c03Stream(rt, "Writer.Write", rows, cuts)
	if err != nil {
		x.Failf("path-error", "type="+rt.Name+";path=Writer.Write", "Writer.Write(any): %v", err)
		return
	}
	if len(ref) != len(rows) {
		x.Failf("row-count", "type="+rt.Name+";path=Writer.Write", "wrote %d rows, read %d", len(rows), len(ref))
		return
	}
	if len(rows) >= 2 {
		x.Nontrivial(x.Describe())
	}
	x.Outcome(fmt.Sprint(hash64s(ref)))
	if !mapType {
		for _, path := range c03Paths {
			x.AddEvals(1)
			got, err := c03Stream(rt, path, rows, cuts)
			if err != nil {
				x.Failf("path-error", "type="+rt.Name+";path="+path, "%s: %v", path, err)
				continue
			}
			if len(got) != len(ref) {
				x.Failf("row-count", "type="+rt.Name+";path="+path, "%s stored %d rows, Writer.Write stored %d", path, len(got), len(ref))
				continue
			}
			for i := range ref {
				if got[i] != ref[i] {
					col := firstDiffColumn(ref[i], got[i])
					x.Failf("stream-mismatch", fmt.Sprintf("type=%s;path=%s;col=%s", rt.Name, path, col),
						"row %d differs between Writer.Write(any) and %s:\n  ref: %s\n  got: %s", i, path, ref[i], got[i])
					break
				}
			}
		}
	}
	// re-assembly: Reconstruct(Deconstruct(v)) == v
	schema := rt.SchemaOf()
	for i, r := range rows {
		if i > 40 {
			break
		}
		row := schema.Deconstruct(nil, r)
		if rt.ExplicitSchema || rt.NoReassembly {
			// what an interface-typed field is re-assembled as is not documented
			if s := streamOf([]parquet.Row{row})[0]; s != ref[i] {
				x.Failf("stream-mismatch", fmt.Sprintf("type=%s;path=Deconstruct;col=%s", rt.Name, firstDiffColumn(ref[i], s)),
					"row %d: Deconstruct differs from what Writer.Write(any) stored:\n  ref: %s\n  got: %s", i, ref[i], s)
				break
			}
			continue
		}
		p := rt.New()
		if err := schema.Reconstruct(p, row); err != nil {
			x.Failf("reconstruct-error", "type="+rt.Name, "Reconstruct: %v", err)
			break
		}
		if ok, why := eqNorm(reflect.ValueOf(r), reflect.ValueOf(rt.Deref(p)), false); !ok {
			x.Failf("reassembly", "type="+rt.Name+";field="+fieldOfDiff(why), "Reconstruct(Deconstruct(row %d)): %s", i, why)
			break
		}
		if !mapType {
			if s := streamOf([]parquet.Row{row})[0]; s != ref[i] {
				x.Failf("stream-mismatch", fmt.Sprintf("type=%s;path=Deconstruct;col=%s", rt.Name, firstDiffColumn(ref[i], s)),
					"row %d: Deconstruct differs from what Writer.Write(any) stored:\n  ref: %s\n  got: %s", i, ref[i], s)
				break
			}
		}
	}
}

func hash64s(ss []string) uint64 {
	return hash64str(strings.Join(ss, "\n"))
}

func hash64str(s string) uint64 {
	var h uint64 = 14695981039346656037
	for i := 0; i < len(s); i++ {
		h ^= uint64(s[i])
		h *= 1099511628211
	}
	return h
}

// firstDiffColumn returns the column tag ("cN") of the first differing value.
func firstDiffColumn(a, b string) string {
	as, bs := strings.Split(a, "|"), strings.Split(b, "|")
	for i := 0; i < len(as) && i < len(bs); i++ {
		if as[i] != bs[i] {
			f := strings.Fields(as[i])
			if len(f) > 0 {
				return f[0]
			}
		}
	}
	return "len"
}

func init() {
	Register(&engine.Prop{
		ID:    "C03",
		Level: "exploration",
		Rule: "row type (as C01, plus C03-only types - times and durations that are not multiples of their column's unit, before and after the epoch; optional fixed-size arrays with a single non-zero byte at every position; 2 types with interface-typed fields used with an explicit schema: any leaves, groups given as map[string]any or structs, []any lists, below slices, pointers and two groups deep; hand-built alphabets, one factor at a time around an all-absent and an all-present row) x row sequence (as C01) x batch split; 10 ingestion paths (incl. typed Write and WriteRows alternating on one GenericWriter, and a GenericBuffer whose pages and rows are read between batches) compared value-by-value (column, bytes, repetition, definition level) against the reflection path, plus Reconstruct(Deconstruct(v)); " +
			"non-trivial = >=2 rows; distinct by case description",
		Assumptions: []string{
			"the reflection path Writer.Write(any) is the comparison reference: a disagreement is a violation of 'every path stores exactly that sequence' whichever side is wrong",
			"map-typed rows: only row counts and re-assembly are compared (entry order is unspecified)",
			"types with interface-typed fields and sub-unit times: streams are compared on every path; re-assembly is not (what an interface-typed field is re-assembled as is not part of the documented mapping; a time stored at the precision of its column does not read back equal)",
		},
		Bound: func(string) int { return 0 },
		Run:   c03Run,
	})
}
