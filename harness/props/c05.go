package props

import (
	"bytes"
	"fmt"
	"math"
	"strings"

	"github.com/parquet-go/parquet-go"
	"github.com/parquet-go/parquet-go/deprecated"

	"verif/engine"
	"verif/pqref"
)

// C05 — statistics and page indexes bound the data they describe.
//
// Space: single-leaf schemas over every ordered column type x {required,
// optional, repeated} x page layouts (every sequence of <=P pages over the
// page kinds {all-null page, {a}, {a,b}} for a 5-6 value alphabet per type
// incl. NaN/-0/+-Inf, 0xFF prefixes, extremes) x optional row-group cut x
// ColumnIndexSizeLimit x page version x statistics options. Pages are cut
// with ColumnWriter.Flush so the layout is exactly the enumerated one.
// Oracle: pqref's statistics/page-index checks on the raw bytes (bounds in
// the column order ignoring NaN, exact null counts/null pages/histograms,
// truthful boundary order) + agreement of the library's own accessors (incl. the truth of every ascending / descending claim, of each chunk's index and of the combined index MultiRowGroup derives).

type c05Type struct {
	name   string
	node   func() parquet.Node
	vals   []parquet.Value
	limits []int
	// triples: pages of three distinct values in every order as well (kernels
	// that compare the two halves of a 16-byte value separately)
	triples bool
}

func c05Types() []c05Type {
	i32 := func(v ...int32) (o []parquet.Value) {
		for _, x := range v {
			o = append(o, parquet.Int32Value(x))
		}
		return
	}
	i64 := func(v ...int64) (o []parquet.Value) {
		for _, x := range v {
			o = append(o, parquet.Int64Value(x))
		}
		return
	}
	f32 := func(v ...float32) (o []parquet.Value) {
		for _, x := range v {
			o = append(o, parquet.FloatValue(x))
		}
		return
	}
	f64 := func(v ...float64) (o []parquet.Value) {
		for _, x := range v {
			o = append(o, parquet.DoubleValue(x))
		}
		return
	}
	ba := func(v ...string) (o []parquet.Value) {
		for _, x := range v {
			o = append(o, parquet.ByteArrayValue([]byte(x)))
		}
		return
	}
	fl := func(n int, v ...string) (o []parquet.Value) {
		for _, x := range v {
			b := make([]byte, n)
			copy(b, x)
			o = append(o, parquet.FixedLenByteArrayValue(b))
		}
		return
	}
	nan32 := math.Float32frombits(0x7fc00000)
	nan64 := math.NaN()
	return []c05Type{
		{"int32", func() parquet.Node { return parquet.Int(32) }, i32(0, -1, 1, math.MinInt32, math.MaxInt32), nil, false},
		{"int64", func() parquet.Node { return parquet.Int(64) }, i64(0, -1, 1, math.MinInt64, math.MaxInt64), nil, false},
		{"uint32", func() parquet.Node { return parquet.Uint(32) }, i32(0, 1, -1, math.MinInt32, math.MaxInt32), nil, false},
		{"uint64", func() parquet.Node { return parquet.Uint(64) }, i64(0, 1, -1, math.MinInt64, math.MaxInt64), nil, false},
		{"int8", func() parquet.Node { return parquet.Int(8) }, i32(0, -1, 1, -128, 127), nil, false},
		{"float", func() parquet.Node { return parquet.Leaf(parquet.FloatType) }, f32(0, float32(math.Copysign(0, -1)), 1.5, float32(math.Inf(-1)), float32(math.Inf(1)), nan32), nil, false},
		{"double", func() parquet.Node { return parquet.Leaf(parquet.DoubleType) }, f64(0, math.Copysign(0, -1), -1.5, math.Inf(-1), math.Inf(1), nan64), nil, false},
		{"boolean", func() parquet.Node { return parquet.Leaf(parquet.BooleanType) }, []parquet.Value{parquet.BooleanValue(false), parquet.BooleanValue(true)}, nil, false},
		{"string", func() parquet.Node { return parquet.String() }, ba("", "a", "ab", "\xff\xff\xff", "\xff\xffz", "aa\xff\xff"), []int{0, 1, 2, 3}, false},
		{"bytes", func() parquet.Node { return parquet.Leaf(parquet.ByteArrayType) }, ba("\x00", "\x00\x01", "\x7f\xff\xff", "\x80", "\xff", "\xff\x00"), []int{0, 1, 2}, false},
		{"uuid", func() parquet.Node { return parquet.UUID() }, fl(16, "\x00", "\x00\x01", "\x7f", "\x80", "\xff\xff\xff\xff\xff\xff\xff\xff\xff\xff\xff\xff\xff\xff\xff\xff"), []int{0, 4}, false},
		{"uuid-lowhalf", func() parquet.Node { return parquet.UUID() }, fl(16, "\x00\x00\x00\x00\x00\x00\x00\x00\x00\x00\x00\x00\x00\x00\x00\x05", "\x00\x00\x00\x00\x00\x00\x00\x00\x00\x00\x00\x00\x00\x00\x00\x09", "\x00\x00\x00\x00\x00\x00\x00\x00\x00\x00\x00\x00\x00\x00\x00\x07", "\x00\x00\x00\x00\x00\x00\x00\x01"), nil, true},
		{"flba3", func() parquet.Node { return parquet.Leaf(parquet.FixedLenByteArrayType(3)) }, fl(3, "\x00", "\x00\x01", "\x7f\xff\xff", "\x80", "\xff\xff\xff"), []int{0, 1, 2}, false},
		{"decimal32", func() parquet.Node { return parquet.Decimal(2, 9, parquet.Int32Type) }, i32(0, -1, 1, -999999999, 999999999), nil, false},
		{"decimal64", func() parquet.Node { return parquet.Decimal(2, 18, parquet.Int64Type) }, i64(0, -1, 1, math.MinInt64, math.MaxInt64), nil, false},
		{"decimalflba", func() parquet.Node { return parquet.Decimal(2, 9, parquet.FixedLenByteArrayType(4)) }, fl(4, "\x00\x00\x00\x00", "\xff\xff\xff\xff", "\x00\x00\x00\x01", "\x80\x00\x00\x00", "\x7f\xff\xff\xff"), nil, false},
		{"date", func() parquet.Node { return parquet.Date() }, i32(0, -1, 1, math.MinInt32, math.MaxInt32), nil, false},
		{"timestamp", func() parquet.Node { return parquet.Timestamp(parquet.Microsecond) }, i64(0, -1, 1, math.MinInt64, math.MaxInt64), nil, false},
		{"int96", func() parquet.Node { return parquet.Leaf(parquet.Int96Type) }, []parquet.Value{parquet.Int96Value(deprecated.Int96{}), parquet.Int96Value(deprecated.Int96{1, 0, 0}), parquet.Int96Value(deprecated.Int96{0, 0, 0x80000000}), parquet.Int96Value(deprecated.Int96{0, 0, 1})}, nil, false},
	}
}

// c05PageKinds returns the page kinds for an alphabet of n values:
// kind 0 = null page, then {a}, then {a,b} (a before b in the page).
func c05PageKinds(n int, triples ...bool) [][]int {
	k := c05PageKinds2(n)
	if len(triples) > 0 && triples[0] {
		for a := 0; a < n; a++ {
			for b := 0; b < n; b++ {
				for c := 0; c < n; c++ {
					if a != b && b != c && a != c {
						k = append(k, []int{a, b, c})
					}
				}
			}
		}
	}
	return k
}

func c05PageKinds2(n int) [][]int {
	k := [][]int{nil}
	for a := 0; a < n; a++ {
		k = append(k, []int{a})
	}
	for a := 0; a < n; a++ {
		for b := 0; b < n; b++ {
			if a != b {
				k = append(k, []int{a, b})
			}
		}
	}
	return k
}

var c05Reps = []string{"required", "optional", "repeated"}

func c05Run(x *engine.X) {
	types := c05Types()
	root := x.Choose(len(types)*len(c05Reps), "type*rep")
	t := types[root/len(c05Reps)]
	rep := c05Reps[root%len(c05Reps)]
	kinds := c05PageKinds(len(t.vals), t.triples)
	maxPages := 2
	if x.Tier == "thorough" {
		maxPages = 3
	}
	var pages []int
	streak := false
	gen := 0
	if x.Tier != "thorough" {
		gen = x.Choose(4, "pagegen")
	}
	if gen == 3 {
		// every sequence of four single-value or null pages, two per row group:
		// each chunk's index can claim an order of its own, and the combined
		// index of the two has a seam between them
		streak = true
		n1 := len(t.vals) + 1
		for i := 0; i < 4; i++ {
			p := x.Choose(n1, "page4")
			if rep == "required" && p == 0 {
				p = 1
			}
			pages = append(pages, p)
		}
	}
	if gen == 2 {
		// every sequence of three single-value or null pages (boundary order
		// needs three pages to go up and then down)
		streak = true
		n1 := len(t.vals) + 1
		for i := 0; i < 3; i++ {
			p := x.Choose(n1, "page3")
			if rep == "required" && p == 0 {
				p = 1
			}
			pages = append(pages, p)
		}
	}
	if gen == 1 {
		streak = true
		// streaks: a page repeated twice (equal bounds) followed by one other
		// page, over the null page and the single-value pages - the shape that
		// the boundary-order computation treats specially
		n1 := len(t.vals) + 1
		p, q := x.Choose(n1, "streakpage"), x.Choose(n1, "nextpage")
		if rep == "required" {
			if p == 0 {
				p = 1
			}
			if q == 0 {
				q = 1
			}
		}
		pages = []int{p, p, q}
	}
	for len(pages) < maxPages && !streak {
		c := x.Choose(len(kinds)+1, "page")
		if c == 0 {
			break
		}
		if rep == "required" && c-1 == 0 {
			// a required column has no null page: use the first single-value kind
			c = 2
		}
		pages = append(pages, c-1)
	}
	if len(pages) == 0 {
		return
	}
	cutAfter := -1
	if gen == 3 {
		cutAfter = 1
	} else if len(pages) >= 2 {
		// (also for the triples: the combined index of two row groups has seams)
		cutAfter = x.Choose(len(pages), "rowgroupcut") - 1 // -1 = none, else cut after page i
	}
	limit := 0
	if len(t.limits) > 0 && gen < 2 {
		limit = t.limits[x.Choose(len(t.limits), "cilimit")]
	}
	pagev := 2 - x.Choose(2, "pagev")
	statsOpt := 0
	if gen < 2 {
		statsOpt = x.Choose(3, "stats")
	}
	dict := x.Choose(2, "dict") == 1

	var sb strings.Builder
	for i, k := range pages {
		fmt.Fprintf(&sb, "%v", kinds[k])
		if i == cutAfter {
			sb.WriteString("|RG|")
		}
	}
	x.Descf("type=%s rep=%s pages=%s limit=%d v%d stats=%d dict=%v", t.name, rep, sb.String(), limit, pagev, statsOpt, dict)

	node := t.node()
	maxDef := 0
	switch rep {
	case "optional":
		node = parquet.Optional(node)
		maxDef = 1
	case "repeated":
		node = parquet.Repeated(node)
		maxDef = 1
	}
	schema := parquet.NewSchema("t", parquet.Group{"v": node})
	opts := []parquet.WriterOption{schema, parquet.DataPageVersion(pagev)}
	if dict {
		opts = append(opts, parquet.DefaultEncoding(&parquet.RLEDictionary))
	}
	if limit > 0 {
		opts = append(opts, parquet.ColumnIndexSizeLimit(func([]string) int { return limit }))
	}
	switch statsOpt {
	case 1:
		opts = append(opts, parquet.DataPageStatistics(true))
	case 2:
		opts = append(opts, parquet.DataPageStatistics(true), parquet.DeprecatedDataPageStatistics(true))
	}
	var buf bytes.Buffer
	w := parquet.NewWriter(&buf, opts...)
	shape := fmt.Sprintf("type=%s;rep=%s", t.name, rep)
	for pi, k := range pages {
		cw := w.ColumnWriters()[0]
		var vals []parquet.Value
		if kinds[k] == nil {
			for i := 0; i < 2; i++ {
				vals = append(vals, parquet.Value{}.Level(0, 0, 0))
			}
		} else {
			if rep == "optional" {
				vals = append(vals, parquet.Value{}.Level(0, 0, 0))
			}
			for i, a := range kinds[k] {
				r := 0
				if rep == "repeated" && i > 0 {
					r = 1 // both values in one row
				}
				vals = append(vals, t.vals[a].Level(r, maxDef, 0))
			}
			if rep == "repeated" {
				vals = append(vals, parquet.Value{}.Level(0, 0, 0)) // an empty list row
			}
		}
		if _, err := cw.WriteRowValues(vals); err != nil {
			x.Failf("write-error", shape, "WriteRowValues: %v", err)
			return
		}
		if err := cw.Flush(); err != nil {
			x.Failf("write-error", shape, "ColumnWriter.Flush: %v", err)
			return
		}
		if pi == cutAfter {
			if err := w.Flush(); err != nil {
				x.Failf("write-error", shape, "Writer.Flush: %v", err)
				return
			}
		}
	}
	if err := w.Close(); err != nil {
		x.Failf("write-error", shape, "Close: %v", err)
		return
	}
	data := buf.Bytes()
	if len(pages) >= 2 {
		x.Nontrivial(x.Describe())
	}
	pf, by := pqCheck(data)
	if len(by["C05"]) > 0 {
		is := by["C05"]
		var all []string
		for i, s := range is {
			if i < 6 {
				all = append(all, s.String())
			}
		}
		x.Failf("bad-metadata", shape+";code="+is[0].Code, "statistics / page index do not describe the data:\n  %s", strings.Join(all, "\n  "))
		return
	}
	if len(by["C02"]) > 0 {
		x.Failf("malformed", shape+";code="+by["C02"][0].Code, "%v", by["C02"][0])
		return
	}
	if pf == nil {
		return
	}
	c05LibraryAccessors(x, shape, data, pf)
	x.Outcome(fmt.Sprint(len(data)))
}

// c05LibraryAccessors checks that the library's own view of the index and
// statistics equals the bytes (as decoded by pqref) and bounds the data.
func c05LibraryAccessors(x *engine.X, shape string, data []byte, pf *pqref.File) {
	f, err := parquet.OpenFile(bytes.NewReader(data), int64(len(data)))
	if err != nil {
		x.Failf("open-error", shape, "OpenFile: %v", err)
		return
	}
	if rgs := f.RowGroups(); len(rgs) >= 2 {
		// the index of the row groups seen as one (MultiRowGroup) derives its claims
		// from the chunks' own and from the bounds at the seams
		mchunk := parquet.MultiRowGroup(rgs...).ColumnChunks()[0]
		if mi, err := mchunk.ColumnIndex(); err == nil && mi != nil {
			if !c05OrderClaim(x, shape, "the combined column index of the row groups", mi, mchunk.Type()) {
				return
			}
		}
	}
	for rgi, rg := range f.RowGroups() {
		chunk := rg.ColumnChunks()[0]
		ci, err := chunk.ColumnIndex()
		if err != nil {
			x.Failf("accessor", shape+";what=ColumnIndex", "ColumnIndex(): %v", err)
			return
		}
		if !c05OrderClaim(x, shape, fmt.Sprintf("the column index of row group %d", rgi), ci, chunk.Type()) {
			return
		}
		pci, err := pf.ReadColumnIndex(rgi, 0)
		if err != nil || pci == nil {
			continue
		}
		if ci.NumPages() != len(pci.NullPages) {
			x.Failf("accessor", shape+";what=NumPages", "row group %d: ColumnIndex().NumPages()=%d, file has %d", rgi, ci.NumPages(), len(pci.NullPages))
			return
		}
		cols, err := pf.ReadColumn(rgi, 0)
		if err != nil {
			return
		}
		typ := chunk.Type()
		var nulls int64
		for p := 0; p < ci.NumPages(); p++ {
			if ci.NullPage(p) != pci.NullPages[p] {
				x.Failf("accessor", shape+";what=NullPage", "row group %d page %d: NullPage()=%v, file says %v", rgi, p, ci.NullPage(p), pci.NullPages[p])
				return
			}
			if pci.HasNullCounts && ci.NullCount(p) != pci.NullCounts[p] {
				x.Failf("accessor", shape+";what=NullCount", "row group %d page %d: NullCount()=%d, file says %d", rgi, p, ci.NullCount(p), pci.NullCounts[p])
				return
			}
			if p >= len(cols) {
				continue
			}
			min, max := ci.MinValue(p), ci.MaxValue(p)
			for _, tr := range cols[p].Triples {
				if tr.Null {
					nulls++
					continue
				}
				v := typ.Kind().Value(tr.Val)
				if typ.Kind() == parquet.Boolean {
					v = parquet.BooleanValue(tr.Val[0] != 0)
				}
				if isNaNValue(v) {
					continue
				}
				if ci.NullPage(p) {
					x.Failf("accessor", shape+";what=NullPage", "row group %d page %d is flagged null page but holds %v", rgi, p, v)
					return
				}
				if typ.Compare(min, v) > 0 || typ.Compare(v, max) > 0 {
					x.Failf("accessor", shape+";what=bounds", "row group %d page %d: value %v outside ColumnIndex bounds [%v, %v]", rgi, p, v, min, max)
					return
				}
			}
		}
		if fc, ok := chunk.(*parquet.FileColumnChunk); ok {
			if got := fc.NullCount(); got != nulls {
				x.Failf("accessor", shape+";what=ChunkNullCount", "row group %d: FileColumnChunk.NullCount()=%d, data has %d nulls", rgi, got, nulls)
				return
			}
			if min, max, ok := fc.Bounds(); ok {
				for _, pg := range cols {
					for _, tr := range pg.Triples {
						if tr.Null {
							continue
						}
						v := typ.Kind().Value(tr.Val)
						if typ.Kind() == parquet.Boolean {
							v = parquet.BooleanValue(tr.Val[0] != 0)
						}
						if isNaNValue(v) {
							continue
						}
						if typ.Compare(min, v) > 0 || typ.Compare(v, max) > 0 {
							x.Failf("accessor", shape+";what=ChunkBounds", "row group %d: value %v outside FileColumnChunk.Bounds() [%v, %v]", rgi, v, min, max)
							return
						}
					}
				}
			}
		}
	}
}

// c05OrderClaim: a claimed ascending / descending order must be true of the
// bounds the index exposes (NaN bounds order nothing and are skipped).
func c05OrderClaim(x *engine.X, shape, what string, index parquet.ColumnIndex, typ parquet.Type) bool {
	order := ""
	switch {
	case index.IsAscending():
		order = "ascending"
	case index.IsDescending():
		order = "descending"
	default:
		return true
	}
	prev := -1
	for i := 0; i < index.NumPages(); i++ {
		if index.NullPage(i) || isNaNValue(index.MinValue(i)) || isNaNValue(index.MaxValue(i)) {
			continue
		}
		if prev >= 0 {
			cmin, cmax := typ.Compare(index.MinValue(prev), index.MinValue(i)), typ.Compare(index.MaxValue(prev), index.MaxValue(i))
			if (order == "ascending" && (cmin > 0 || cmax > 0)) || (order == "descending" && (cmin < 0 || cmax < 0)) {
				x.Failf("accessor", shape+";what=order-claim("+what+")", "%s claims %s order but page %d has bounds [%v,%v] and page %d has [%v,%v]", what, order, prev, index.MinValue(prev), index.MaxValue(prev), i, index.MinValue(i), index.MaxValue(i))
				return false
			}
		}
		prev = i
	}
	return true
}

func isNaNValue(v parquet.Value) bool {
	switch v.Kind() {
	case parquet.Float:
		f := v.Float()
		return f != f
	case parquet.Double:
		f := v.Double()
		return f != f
	}
	return false
}

func init() {
	Register(&engine.Prop{
		ID:    "C05",
		Level: "exploration",
		Rule: "19 ordered column types (16-byte values sharing their high half, in pages of up to three values; signed/unsigned ints, float/double with NaN/-0/+-Inf, strings and bytes with 0xFF prefixes, uuid, flba, decimals on int32/int64/flba, date, timestamp, int96, boolean) x {required, optional, repeated} x every sequence of <=2 (3 thorough) pages over the page kinds (quick also: every 3-page streak P,P,Q and every triple of null / single-value pages, each with every row-group cut, and every sequence of four such pages split into two row groups of two) x plain or dictionary encoding {all-null, {a}, {a,b}} x row-group cut position x ColumnIndexSizeLimit x page version x statistics options; " +
			"non-trivial = >=2 pages",
		Assumptions: []string{"bounds are judged by pqref from the raw bytes in the column's sort order with NaN ignored, and again through the library's ColumnIndex/Bounds/NullCount accessors"},
		Bound:       func(string) int { return 0 },
		Run:         c05Run,
	})
}
