package props

import (
	"bytes"
	"encoding/binary"
	"fmt"
	"strings"

	"github.com/parquet-go/parquet-go"
	"github.com/parquet-go/parquet-go/format"

	"verif/engine"
)

// C06 — page search never misses a page that contains the value.
//
// Space: every column index with up to N pages where each page is either an
// all-null page or holds the alphabet values in [min,max] for min<=max drawn
// from a 4-value ordered alphabet (11 page kinds), for 8 column types, built
// (a) directly through Type.NewColumnIndexer(limit).IndexPage and (b) through
// the real writer (one ColumnWriter.Flush per page) and re-opened from the
// file. Probes: the 4 alphabet values, 3 values strictly between them, one
// below and one above all.
//
// Oracle (index-only, never more than the statement):
//   (a) result r < NumPages  =>  min_r <= probe <= max_r (index bounds),
//   (b) r == NumPages        =>  no non-null page has min_i <= probe <= max_i,
//   (c) for every page p whose real content holds the probe: r <= p.

type c06Type struct {
	name   string
	node   func() parquet.Node
	values []parquet.Value // 9 ordered probe values: below, a0, b01, a1, b12, a2, b23, a3, above
	limit  int             // column index size limit (0 = default)
}

func c06Types() []c06Type {
	i32 := func(v ...int32) (out []parquet.Value) {
		for _, x := range v {
			out = append(out, parquet.Int32Value(x))
		}
		return
	}
	i64 := func(v ...int64) (out []parquet.Value) {
		for _, x := range v {
			out = append(out, parquet.Int64Value(x))
		}
		return
	}
	f64 := func(v ...float64) (out []parquet.Value) {
		for _, x := range v {
			out = append(out, parquet.DoubleValue(x))
		}
		return
	}
	ba := func(v ...string) (out []parquet.Value) {
		for _, x := range v {
			out = append(out, parquet.ByteArrayValue([]byte(x)))
		}
		return
	}
	fl := func(n int, v ...string) (out []parquet.Value) {
		for _, x := range v {
			b := make([]byte, n)
			copy(b, x)
			out = append(out, parquet.FixedLenByteArrayValue(b))
		}
		return
	}
	// dec: big-endian two's complement, n bytes (0 = the shortest form)
	dec := func(n int, v ...int64) (out []parquet.Value) {
		for _, x := range v {
			b := make([]byte, 8)
			binary.BigEndian.PutUint64(b, uint64(x))
			if n == 0 {
				for len(b) > 1 && ((b[0] == 0 && b[1] < 0x80) || (b[0] == 0xff && b[1] >= 0x80)) {
					b = b[1:]
				}
				out = append(out, parquet.ByteArrayValue(b))
			} else {
				out = append(out, parquet.FixedLenByteArrayValue(b[8-n:]))
			}
		}
		return
	}
	return []c06Type{
		{"int32", func() parquet.Node { return parquet.Int(32) }, i32(-4, -3, -2, -1, 0, 1, 2, 3, 4), 0},
		{"int32pos", func() parquet.Node { return parquet.Int(32) }, i32(1, 2, 3, 4, 5, 6, 7, 8, 9), 0},
		{"int64neg", func() parquet.Node { return parquet.Int(64) }, i64(-90, -80, -70, -60, -50, -40, -30, -20, -10), 0},
		{"uint32", func() parquet.Node { return parquet.Uint(32) }, i32(0, 1, 2, 3, 0x7fffffff, -0x80000000, -3, -2, -1), 0},
		{"double", func() parquet.Node { return parquet.Leaf(parquet.DoubleType) }, f64(-2.5, -1.5, -0.5, 0, 0.5, 1.5, 2, 2.5, 3), 0},
		{"string", func() parquet.Node { return parquet.String() }, ba("", "a", "aa", "ab", "b", "c", "ca", "d", "e"), 0},
		{"string-trunc2", func() parquet.Node { return parquet.String() }, ba("aa", "aa1", "aa15", "aa2", "aa9", "ab0", "b", "\xff\xff\xff", "\xff\xff\xff\xff"), 2},
		{"uuid", func() parquet.Node { return parquet.UUID() }, fl(16, "\x00", "\x01", "\x01\x01", "\x02", "\x02\x01", "\x03", "\x03\x01", "\x04", "\x05"), 0},
		{"flba4", func() parquet.Node { return parquet.Leaf(parquet.FixedLenByteArrayType(4)) }, fl(4, "\x00", "\x01", "\x01\x01", "\x02", "\x02\x01", "\x03", "\x03\x01", "\x04", "\x05"), 0},
		// decimals stored as big-endian two's complement bytes, ordered as signed numbers
		{"decimal-flba8", func() parquet.Node { return parquet.Decimal(2, 18, parquet.FixedLenByteArrayType(8)) }, dec(8, -300, -200, -1, 0, 1, 200, 300, 70000, 70001), 0},
		{"decimal-bytes", func() parquet.Node { return parquet.Decimal(2, 18, parquet.ByteArrayType) }, dec(0, -300, -200, -1, 0, 1, 200, 300, 70000, 70001), 0},
	}
}

// page kinds: 0 = null page; 1.. = (min,max) with alphabet indices lo<=hi
var c06Kinds = func() (k [][2]int) {
	k = append(k, [2]int{-1, -1})
	for lo := 0; lo < 4; lo++ {
		for hi := lo; hi < 4; hi++ {
			k = append(k, [2]int{lo, hi})
		}
	}
	return
}()

func c06Bound(tier string) int { return 0 }

func init() {
	Register(&engine.Prop{
		ID:    "C06",
		Level: "exploration",
		Rule: "all column indexes with <=N pages (N=4 quick, 5 thorough; 6 for int32 thorough) over 11 page kinds {null page, (min,max) over a 4-value alphabet} x 11 column types x {direct indexer, real writer+reopened file, the same pages over two or three row groups combined by MultiRowGroup} x 9 probes; " +
			"non-trivial = index has >=2 pages, >=1 non-null page and the probe lies within some page's bounds; distinct by (type, path, page kinds, probe)",
		Assumptions: []string{"page content of a (min,max) page is the alphabet values in [min,max]; values outside the alphabet are probed only against index bounds"},
		Bound:       c06Bound,
		Run:         c06Run,
	})
}

func c06Run(x *engine.X) {
	types := c06Types()
	// shard axis: type x path x first-page kind
	nk := len(c06Kinds)
	root := x.Choose(len(types)*3*nk, "type*path*page0")
	ti, rest := root/(3*nk), root%(3*nk)
	path, k0 := rest/nk, rest%nk
	t := types[ti]
	maxPages := 4
	if x.Tier == "thorough" {
		maxPages = 5
		if t.name == "int32" && path == 0 {
			maxPages = 6
		}
	}
	if path >= 1 && maxPages > 4 {
		maxPages = 4 // writer path is ~100x slower per index
		if x.Tier == "thorough" {
			maxPages = 5
		}
	}
	pages := []int{k0}
	for len(pages) < maxPages {
		// alternative 0 = stop; this makes shorter indexes come first
		c := x.Choose(nk+1, "page")
		if c == 0 {
			break
		}
		pages = append(pages, c-1)
	}
	var sb strings.Builder
	for _, k := range pages {
		if k == 0 {
			sb.WriteString("[null]")
		} else {
			fmt.Fprintf(&sb, "[%d..%d]", c06Kinds[k][0], c06Kinds[k][1])
		}
	}
	pathName := []string{"indexer", "writer", "writer(2-3 row groups)->MultiRowGroup"}[path]
	// path 2: the pages are spread over two row groups and the index is the combined one of MultiRowGroup
	cut, cut2 := -1, -1
	if path == 2 {
		if len(pages) < 2 {
			return
		}
		cut = 1 + x.Choose(len(pages)-1, "rowgroupcut") // row group boundary before page cut
		if rest := len(pages) - 1 - cut; rest > 0 {
			if c := x.Choose(rest+1, "rowgroupcut2"); c > 0 {
				cut2 = cut + c // a third row group
			}
		}
		x.Descf("cuts=%d,%d", cut, cut2)
	}
	x.Descf("type=%s path=%s pages=%s", t.name, pathName, sb.String())

	alpha := []parquet.Value{t.values[1], t.values[3], t.values[5], t.values[7]}
	typ := t.node().Type()
	var index parquet.ColumnIndex
	var fidx format.ColumnIndex
	if path == 0 {
		limit := t.limit
		if limit == 0 {
			limit = parquet.DefaultColumnIndexSizeLimit
		}
		ix := typ.NewColumnIndexer(limit)
		for _, k := range pages {
			if k == 0 {
				ix.IndexPage(3, 3, parquet.Value{}, parquet.Value{})
			} else {
				lo, hi := c06Kinds[k][0], c06Kinds[k][1]
				ix.IndexPage(int64(hi-lo+2), 1, alpha[lo], alpha[hi])
			}
		}
		fidx = ix.ColumnIndex()
		index = parquet.NewColumnIndex(typ.Kind(), &fidx)
	} else {
		schema := parquet.NewSchema("t", parquet.Group{"v": parquet.Optional(t.node())})
		buf := new(bytes.Buffer)
		opts := []parquet.WriterOption{schema}
		if t.limit != 0 {
			opts = append(opts, parquet.ColumnIndexSizeLimit(func(path []string) int { return t.limit }))
		}
		w := parquet.NewWriter(buf, opts...)
		cw := w.ColumnWriters()[0]
		for pi, k := range pages {
			if pi == cut || pi == cut2 {
				if err := w.Flush(); err != nil {
					x.Failf("harness", "flush", "Flush: %v", err)
					return
				}
				cw = w.ColumnWriters()[0]
			}
			var vals []parquet.Value
			if k == 0 {
				for i := 0; i < 3; i++ {
					vals = append(vals, parquet.Value{}.Level(0, 0, 0))
				}
			} else {
				lo, hi := c06Kinds[k][0], c06Kinds[k][1]
				vals = append(vals, parquet.Value{}.Level(0, 0, 0))
				for a := hi; a >= lo; a-- {
					vals = append(vals, alpha[a].Level(0, 1, 0))
				}
			}
			if _, err := cw.WriteRowValues(vals); err != nil {
				x.Failf("harness", "write", "WriteRowValues: %v", err)
				return
			}
			if err := cw.Flush(); err != nil {
				x.Failf("harness", "flush", "Flush: %v", err)
				return
			}
		}
		if err := w.Close(); err != nil {
			x.Failf("close-error", "type="+t.name, "Close: %v", err)
			return
		}
		f, err := parquet.OpenFile(bytes.NewReader(buf.Bytes()), int64(buf.Len()))
		if err != nil {
			x.Failf("open-error", "type="+t.name, "OpenFile: %v", err)
			return
		}
		var rg parquet.RowGroup = f.RowGroups()[0]
		if path == 2 {
			if want := 2 + b2i(cut2 > 0); len(f.RowGroups()) != want {
				x.Failf("harness", "rowgroups", "%d row groups written, want %d", len(f.RowGroups()), want)
				return
			}
			rg = parquet.MultiRowGroup(f.RowGroups()...)
		}
		ci, err := rg.ColumnChunks()[0].ColumnIndex()
		if err != nil {
			x.Failf("index-error", "type="+t.name, "ColumnIndex: %v", err)
			return
		}
		index = ci
	}

	n := index.NumPages()
	if n != len(pages) {
		x.Failf("numpages", fmt.Sprintf("type=%s;path=%s", t.name, pathName), "NumPages()=%d, pages written=%d", n, len(pages))
		return
	}
	cmp := parquet.CompareNullsLast(typ.Compare)
	hasNull, nonNull := false, 0
	for _, k := range pages {
		if k == 0 {
			hasNull = true
		} else {
			nonNull++
		}
	}
	order := "unordered"
	if index.IsAscending() {
		order = "asc"
	} else if index.IsDescending() {
		order = "desc"
	}
	x.Count("order=" + order)
	for pi, probe := range t.values {
		x.AddEvals(1)
		r := parquet.Search(index, probe, typ)
		first := n
		contains := func(i int) bool {
			if index.NullPage(i) {
				return false
			}
			return cmp(index.MinValue(i), probe) <= 0 && cmp(probe, index.MaxValue(i)) <= 0
		}
		for i := 0; i < n; i++ {
			if contains(i) {
				first = i
				break
			}
		}
		shape := fmt.Sprintf("type=%s;order=%s;nullpages=%v", t.name, order, hasNull)
		x.Outcome(fmt.Sprint(r))
		if first < n && n >= 2 {
			x.Nontrivial(fmt.Sprintf("%s|%s|%v|%d", t.name, pathName, pages, pi))
		}
		if r < 0 || r > n {
			x.Failf("range", shape, "probe %v: Search returned %d with NumPages=%d", probe, r, n)
			continue
		}
		if r < n && !contains(r) {
			x.Failf("wrong-page", shape, "probe %v: Search returned page %d whose bounds [%v,%v] do not contain it", probe, r, index.MinValue(r), index.MaxValue(r))
			continue
		}
		if r == n && first < n {
			x.Failf("miss", shape, "probe %v: Search returned NumPages=%d but page %d has bounds [%v,%v]", probe, n, first, index.MinValue(first), index.MaxValue(first))
			continue
		}
		// (c) pages whose real content holds the probe (alphabet probes only)
		if pi%2 == 1 {
			a := pi / 2
			for p, k := range pages {
				if k != 0 && c06Kinds[k][0] <= a && a <= c06Kinds[k][1] {
					if r > p {
						x.Failf("miss", shape, "probe %v occurs in page %d but Search returned %d", probe, p, r)
					}
					break
				}
			}
		}
	}
}
