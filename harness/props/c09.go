package props

import (
	"bytes"
	"fmt"
	"io"
	"sort"
	"strings"

	"github.com/parquet-go/parquet-go"

	"verif/engine"
)

// C09 — merging sorted row groups yields a sorted, complete, per-input-stable
// sequence.

type MRow struct {
	// A: a repeated column that is not a sort key and comes BEFORE the keys in the
	// rows (its extra values shift the position of the keys)
	A   []int64
	K   int64
	K2  int32
	Src int32
	Seq int32
	// T: a by-reference value naming the row ("t<src>.<seq>")
	T string
}

type MRowN struct {
	A   []int64
	K   *int64
	K2  int32
	Src int32
	Seq int32
	T   string
}

// mrow is the harness-side view of a row of either type.
type mrow struct {
	null bool
	k    int64
	k2   int32
	src  int32
	seq  int32
}

type c09Spec struct {
	name       string
	nullable   bool
	twoCols    bool
	desc       bool
	nullsFirst bool
}

var c09Specs = []c09Spec{
	{"K:asc", false, false, false, false},
	{"K:desc", false, false, true, false},
	{"K:asc+K2:asc", false, true, false, false},
	{"K:desc+K2:asc", false, true, true, false},
	{"Kn:asc:nl", true, false, false, false},
	{"Kn:asc:nf", true, false, false, true},
	{"Kn:desc:nl", true, false, true, false},
	{"Kn:desc:nf+K2", true, true, true, true},
}

func (s c09Spec) columns() []parquet.SortingColumn {
	var k parquet.SortingColumn
	if s.desc {
		k = parquet.Descending("K")
	} else {
		k = parquet.Ascending("K")
	}
	if s.nullsFirst {
		k = parquet.NullsFirst(k)
	}
	out := []parquet.SortingColumn{k}
	if s.twoCols {
		out = append(out, parquet.Ascending("K2"))
	}
	return out
}

func (s c09Spec) less(a, b mrow) int {
	switch {
	case a.null && b.null:
	case a.null:
		if s.nullsFirst {
			return -1
		}
		return 1
	case b.null:
		if s.nullsFirst {
			return 1
		}
		return -1
	case a.k != b.k:
		r := -1
		if a.k > b.k {
			r = 1
		}
		if s.desc {
			r = -r
		}
		return r
	}
	if s.twoCols && a.k2 != b.k2 {
		if a.k2 < b.k2 {
			return -1
		}
		return 1
	}
	return 0
}

func (s c09Spec) key(a mrow) string {
	k := fmt.Sprint(a.k)
	if a.null {
		k = "null"
	}
	if s.twoCols {
		k += fmt.Sprintf("/%d", a.k2)
	}
	return k
}

var c09InputKinds = []string{"buffer", "file(1page)", "file(smallpages)", "file(smallpages,3rg→first)"}
var c09Paths = []string{"Rows", "Rows+dedupe", "WriteRowGroup", "WriteRowGroup+dedupe", "MergeRowReaders"}

// makeInput builds one sorted input from per-key counts.
func c09MakeInput(spec c09Spec, src int, counts []int, k2split bool) []mrow {
	var rows []mrow
	seq := int32(0)
	// key order in sort order: value keys 0..2 then position of null
	add := func(null bool, k int64, n int) {
		for i := 0; i < n; i++ {
			r := mrow{null: null, k: k, src: int32(src), seq: seq}
			if spec.twoCols && k2split && i >= n/2 {
				r.k2 = 1
			}
			rows = append(rows, r)
			seq++
		}
	}
	keys := []int64{10, 20, 30}
	if spec.desc {
		keys = []int64{30, 20, 10}
	}
	if spec.nullable && spec.nullsFirst {
		add(true, 0, counts[3])
	}
	for i, k := range keys {
		add(false, k, counts[i])
	}
	if spec.nullable && !spec.nullsFirst {
		add(true, 0, counts[3])
	}
	// seq must follow final order
	for i := range rows {
		rows[i].seq = int32(i)
	}
	return rows
}

// c09Attrs: 0 to 3 elements, far from every key value and in no order.
func c09Attrs(r mrow) []int64 {
	var a []int64
	for j := 0; j < int(r.seq+r.src)%4; j++ {
		a = append(a, int64(1000-100*j)-int64(r.seq)*7)
	}
	return a
}

func c09Tag(r mrow) string { return fmt.Sprintf("t%d.%d", r.src, r.seq) }

func toGo(spec c09Spec, rows []mrow) (any, any) {
	if spec.nullable {
		out := make([]MRowN, len(rows))
		for i, r := range rows {
			out[i] = MRowN{A: c09Attrs(r), K2: r.k2, Src: r.src, Seq: r.seq, T: c09Tag(r)}
			if !r.null {
				out[i].K = ptrTo(r.k)
			}
		}
		return out, nil
	}
	out := make([]MRow, len(rows))
	for i, r := range rows {
		out[i] = MRow{A: c09Attrs(r), K: r.k, K2: r.k2, Src: r.src, Seq: r.seq, T: c09Tag(r)}
	}
	return nil, out
}

func c09RowGroup(spec c09Spec, kind string, rows []mrow) (parquet.RowGroup, error) {
	sorting := parquet.SortingRowGroupConfig(parquet.SortingColumns(spec.columns()...))
	n, r := toGo(spec, rows)
	if kind == "buffer" {
		if spec.nullable {
			b := parquet.NewGenericBuffer[MRowN](sorting)
			_, err := b.Write(n.([]MRowN))
			return b, err
		}
		b := parquet.NewGenericBuffer[MRow](sorting)
		_, err := b.Write(r.([]MRow))
		return b, err
	}
	opts := []parquet.WriterOption{parquet.SortingWriterConfig(parquet.SortingColumns(spec.columns()...))}
	if kind != "file(1page)" {
		opts = append(opts, parquet.PageBufferSize(64))
	}
	if strings.Contains(kind, "3rg") {
		opts = append(opts, parquet.MaxRowsPerRowGroup(int64(len(rows)/3+1)))
	}
	var buf bytes.Buffer
	var err error
	if spec.nullable {
		w := parquet.NewGenericWriter[MRowN](&buf, opts...)
		_, err = w.Write(n.([]MRowN))
		if err == nil {
			err = w.Close()
		}
	} else {
		w := parquet.NewGenericWriter[MRow](&buf, opts...)
		_, err = w.Write(r.([]MRow))
		if err == nil {
			err = w.Close()
		}
	}
	if err != nil {
		return nil, err
	}
	f, err := parquet.OpenFile(bytes.NewReader(buf.Bytes()), int64(buf.Len()))
	if err != nil {
		return nil, err
	}
	if len(f.RowGroups()) == 0 {
		return nil, nil
	}
	return f.RowGroups()[0], nil
}

// colNames maps column index -> leaf name for a schema.
func colNames(s *parquet.Schema) []string {
	var out []string
	for _, p := range s.Columns() {
		out = append(out, strings.Join(p, "."))
	}
	return out
}

func fromParquetRowNamed(names []string, r parquet.Row) mrow {
	var m mrow
	tag := ""
	for _, v := range r {
		switch names[v.Column()] {
		case "K":
			if v.IsNull() {
				m.null = true
			} else {
				m.k = v.Int64()
			}
		case "K2":
			m.k2 = v.Int32()
		case "Src":
			m.src = v.Int32()
		case "Seq":
			m.seq = v.Int32()
		case "T":
			tag = v.String()
		}
	}
	if tag != c09Tag(m) {
		// the by-reference value no longer names the row: not a row of any input
		m.src, m.seq = -1, -1
	}
	return m
}

var mrowNames = []string{"A", "K", "K2", "Src", "Seq", "T"}

func fromParquetRow(spec c09Spec, r parquet.Row) mrow { return fromParquetRowNamed(mrowNames, r) }

// chunkedReader is a RowReader over a slice that returns at most c rows per call.
// The rows it hands out are valid until its next call only: their byte-array
// values live in an arena that the next call overwrites.
type chunkedReader struct {
	rows    []parquet.Row
	c       int
	eofWith bool
	arena   []byte
}

func (r *chunkedReader) ReadRows(buf []parquet.Row) (int, error) {
	if len(r.rows) == 0 {
		return 0, io.EOF
	}
	n := len(buf)
	if r.c > 0 && n > r.c {
		n = r.c
	}
	if n > len(r.rows) {
		n = len(r.rows)
	}
	if r.arena == nil {
		r.arena = make([]byte, 0, 1<<16)
	}
	for i := range r.arena { // what the previous call handed out
		r.arena[i] = '#'
	}
	r.arena = r.arena[:0]
	for i := 0; i < n; i++ {
		buf[i] = append(buf[i][:0], r.rows[i]...)
		for j, v := range buf[i] {
			if v.Kind() == parquet.ByteArray && !v.IsNull() {
				off := len(r.arena)
				r.arena = append(r.arena, v.ByteArray()...)
				buf[i][j] = parquet.ByteArrayValue(r.arena[off:len(r.arena):len(r.arena)]).Level(v.RepetitionLevel(), v.DefinitionLevel(), v.Column())
			}
		}
	}
	r.rows = r.rows[n:]
	if len(r.rows) == 0 && r.eofWith {
		return n, io.EOF
	}
	return n, nil
}

func c09Run(x *engine.X) {
	root := x.Choose(len(c09Specs)*len(c09Paths)*len(c09InputKinds), "spec*path*inputkind")
	spec := c09Specs[root/(len(c09Paths)*len(c09InputKinds))]
	path := c09Paths[(root/len(c09InputKinds))%len(c09Paths)]
	ikind := c09InputKinds[root%len(c09InputKinds)]
	maxK := 3
	if x.Tier == "thorough" {
		maxK = 4
	}
	nkeys := 3 // per-key counts: 3 value keys, or 2 value keys + null for nullable specs
	var inputs [][]mrow
	var desc []string
	var k int
	expand := func(c []int) []int { // counts -> [k10,k20,k30,null]
		if spec.nullable {
			return []int{c[0], c[1], 0, c[2]}
		}
		return []int{c[0], c[1], c[2], 0}
	}
	if x.Choose(2, "gen") == 0 {
		// small counts, exhaustively: k<=2 over {0,1,2}, k=3 (4) over {0,1}
		// quick: k<=2 (first input over {0,1,2}, second over {0,1}), k=3 over 4 shapes;
		// thorough: every input over {0,1,2} for k<=2 and over {0,1} for k>=3
		k = x.Choose(maxK+1, "k")
		shapes := [][]int{{1, 0, 1}, {0, 2, 0}, {1, 1, 1}, {2, 0, 0}}
		for i := 0; i < k; i++ {
			c := make([]int, nkeys)
			switch {
			case x.Tier != "thorough" && k >= 3:
				copy(c, shapes[x.Choose(len(shapes), "shape")])
			default:
				alpha := 3
				if k >= 3 || (x.Tier != "thorough" && i >= 1) {
					alpha = 2
				}
				for j := range c {
					c[j] = x.Choose(alpha, "count")
				}
			}
			split := spec.twoCols && x.Choose(2, "k2split") == 1
			inputs = append(inputs, c09MakeInput(spec, i, expand(c), split))
			desc = append(desc, fmt.Sprint(c))
		}
	} else {
		// one long run (buffer refill / growth / run detection / refinement thresholds)
		shapes := [][]int{{1, 0, 1}, {0, 2, 0}, {1, 1, 1}, {2, 0, 0}}
		big := []int{25, 49, 193, 1100}
		if x.Tier == "thorough" {
			big = []int{23, 24, 25, 47, 48, 49, 191, 192, 193, 1023, 1024, 1100}
		}
		k = 2 + x.Choose(maxK-1, "k")
		bi, bk, bn := x.Choose(k, "biginput"), x.Choose(nkeys, "bigkey"), big[x.Choose(len(big), "bigrun")]
		for i := 0; i < k; i++ {
			ns := len(shapes)
			if x.Tier != "thorough" && k >= 3 {
				ns = 2
			}
			c := append([]int(nil), shapes[x.Choose(ns, "shape")]...)
			if i == bi {
				c[bk] = bn
			}
			split := spec.twoCols && (i+bk)%2 == 0
			inputs = append(inputs, c09MakeInput(spec, i, expand(c), split))
			desc = append(desc, fmt.Sprint(c))
		}
	}
	batches := []int{1, 3, 64}
	if x.Tier == "thorough" {
		batches = []int{1, 2, 3, 24, 25, 64, 1000}
	}
	batch := batches[x.Choose(len(batches), "batch")]
	x.Descf("sort=%s path=%s inputs=%s(%s) batch=%d", spec.name, path, ikind, strings.Join(desc, ","), batch)
	shape := fmt.Sprintf("sort=%s;path=%s;input=%s", spec.name, path, ikind)
	dedupe := strings.HasSuffix(path, "+dedupe")

	var want []mrow
	for _, in := range inputs {
		want = append(want, in...)
	}
	if len(want) >= 2 && k >= 2 {
		x.Nontrivial(x.Describe())
	}

	var got []mrow
	if path == "MergeRowReaders" {
		schema := parquet.SchemaOf(MRow{})
		if spec.nullable {
			schema = parquet.SchemaOf(MRowN{})
		}
		var readers []parquet.RowReader
		for i, in := range inputs {
			var prs []parquet.Row
			n, r := toGo(spec, in)
			if spec.nullable {
				for j := range n.([]MRowN) {
					prs = append(prs, schema.Deconstruct(nil, &n.([]MRowN)[j]))
				}
			} else {
				for j := range r.([]MRow) {
					prs = append(prs, schema.Deconstruct(nil, &r.([]MRow)[j]))
				}
			}
			readers = append(readers, &chunkedReader{rows: prs, c: []int{0, 1, 2}[(i+root)%3], eofWith: (i+root)%2 == 0})
		}
		m := parquet.MergeRowReaders(readers, schema.Comparator(spec.columns()...))
		buf := make([]parquet.Row, batch)
		for guard := 0; guard < 100000; guard++ {
			n, err := m.ReadRows(buf)
			for i := 0; i < n; i++ {
				got = append(got, fromParquetRow(spec, buf[i]))
			}
			if err == io.EOF {
				break
			}
			if err != nil {
				x.Failf("read-error", shape, "MergeRowReaders: %v", err)
				return
			}
			if n == 0 {
				x.Failf("no-progress", shape, "MergeRowReaders.ReadRows returned 0, nil")
				return
			}
		}
	} else {
		var rgs []parquet.RowGroup
		for _, in := range inputs {
			rg, err := c09RowGroup(spec, ikind, in)
			if err != nil {
				x.Failf("harness", "input", "building input: %v", err)
				return
			}
			if rg != nil {
				rgs = append(rgs, rg)
			}
		}
		if strings.Contains(ikind, "3rg") {
			// only the first row group of each file was taken
			want = want[:0]
			for _, rg := range rgs {
				prs, err := readAllRows(rg)
				if err != nil {
					x.Failf("harness", "input", "reading input: %v", err)
					return
				}
				for _, pr := range prs {
					want = append(want, fromParquetRow(spec, pr))
				}
			}
		}
		var mschema *parquet.Schema
		if spec.nullable {
			mschema = parquet.SchemaOf(MRowN{})
		} else {
			mschema = parquet.SchemaOf(MRow{})
		}
		if len(rgs) >= 3 && x.Choose(2, "nest") == 1 {
			// the first two inputs are merged first: an input of the merge is itself a merged row group
			m0, err := parquet.MergeRowGroups(rgs[:2], mschema, parquet.SortingRowGroupConfig(parquet.SortingColumns(spec.columns()...)))
			if err != nil {
				x.Failf("merge-error", shape+";nested", "inner MergeRowGroups: %v", err)
				return
			}
			rgs = append([]parquet.RowGroup{m0}, rgs[2:]...)
			x.Descf("nested=(0,1)")
			shape += ";nested"
		}
		merged, err := parquet.MergeRowGroups(rgs, mschema, parquet.SortingRowGroupConfig(parquet.SortingColumns(spec.columns()...), parquet.DropDuplicatedRows(dedupe)))
		if err != nil {
			x.Failf("merge-error", shape, "MergeRowGroups: %v", err)
			return
		}
		if !dedupe && merged.NumRows() != int64(len(want)) {
			x.Failf("numrows", shape, "merged.NumRows()=%d, inputs hold %d rows", merged.NumRows(), len(want))
			return
		}
		if strings.HasPrefix(path, "Rows") {
			rows := merged.Rows()
			names := colNames(merged.Schema())
			buf := make([]parquet.Row, batch)
			for guard := 0; guard < 100000; guard++ {
				n, err := rows.ReadRows(buf)
				for i := 0; i < n; i++ {
					got = append(got, fromParquetRowNamed(names, buf[i]))
				}
				if err == io.EOF {
					break
				}
				if err != nil {
					x.Failf("read-error", shape, "merged.Rows().ReadRows: %v", err)
					rows.Close()
					return
				}
				if n == 0 {
					x.Failf("no-progress", shape, "ReadRows returned 0, nil")
					rows.Close()
					return
				}
			}
			rows.Close()
		} else {
			var buf bytes.Buffer
			w := parquet.NewWriter(&buf, merged.Schema())
			if _, err := w.WriteRowGroup(merged); err != nil {
				x.Failf("write-error", shape, "WriteRowGroup(merged): %v", err)
				return
			}
			if err := w.Close(); err != nil {
				x.Failf("write-error", shape, "Close: %v", err)
				return
			}
			prs, err := readFileRows(buf.Bytes())
			if err != nil {
				x.Failf("read-error", shape, "reading written merge: %v", err)
				return
			}
			names := colNames(merged.Schema())
			for _, pr := range prs {
				got = append(got, fromParquetRowNamed(names, pr))
			}
		}
	}

	// sorted
	for i := 1; i < len(got); i++ {
		if spec.less(got[i-1], got[i]) > 0 {
			x.Failf("not-sorted", shape, "output rows %d,%d out of order: %+v then %+v", i-1, i, got[i-1], got[i])
			return
		}
	}
	// per-input stability and membership
	lastSeq := map[int32]int32{}
	seen := map[[2]int32]bool{}
	wantSet := map[[2]int32]mrow{}
	for _, r := range want {
		wantSet[[2]int32{r.src, r.seq}] = r
	}
	for i, r := range got {
		id := [2]int32{r.src, r.seq}
		w, ok := wantSet[id]
		if !ok || seen[id] {
			x.Failf("not-union", shape, "output row %d %+v is not an input row or appears twice", i, r)
			return
		}
		if w != r {
			x.Failf("row-altered", shape, "output row %d %+v differs from input row %+v", i, r, w)
			return
		}
		seen[id] = true
		if ls, ok := lastSeq[r.src]; ok && r.seq < ls {
			x.Failf("unstable", shape, "input %d: row seq %d emitted after seq %d", r.src, r.seq, ls)
			return
		}
		lastSeq[r.src] = r.seq
	}
	if !dedupe {
		if len(got) != len(want) {
			x.Failf("not-union", shape, "inputs hold %d rows, output has %d", len(want), len(got))
			return
		}
	} else {
		keys := map[string]int{}
		for _, r := range got {
			keys[spec.key(r)]++
		}
		wk := map[string]bool{}
		for _, r := range want {
			wk[spec.key(r)] = true
		}
		for kk, n := range keys {
			if n > 1 {
				x.Failf("dedupe", shape, "key %s appears %d times with duplicate dropping", kk, n)
				return
			}
		}
		if len(keys) != len(wk) {
			x.Failf("dedupe", shape, "%d distinct keys in, %d rows out", len(wk), len(keys))
			return
		}
	}
	x.Outcome(fmt.Sprint(len(got)))
	_ = sort.Ints
}

func init() {
	Register(&engine.Prop{
		ID:    "C09",
		Level: "exploration",
		Rule: "k in 0..3 (4 thorough) sorted inputs, each given by per-key counts in {0,1,2} over 3 keys (+null for nullable keys), plus scenarios where one key of one input is a long run of {25,49,193,1100} (thorough: every threshold +-1) rows x 8 sort specs (asc/desc, second column, nullable key with nulls first/last) x 4 input kinds (sorted buffer, file with one page, file with small pages, first of 3 row groups) x inputs merged flat or with the first two merged first (an input that is itself a merged row group) x 5 consumption paths (Rows, Rows+dedupe, WriteRowGroup, WriteRowGroup+dedupe, MergeRowReaders over chunked readers) x 6 read batch sizes; every row carries (input, seq); " +
			"non-trivial = k>=2 and >=2 rows",
		Assumptions: []string{"ties across inputs may be emitted in any order (only per-input order is required)"},
		Bound:       func(tier string) int { return 0 },
		Run:         c09Run,
	})
}
