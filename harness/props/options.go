package props

import (
	"fmt"
	"strings"

	"github.com/parquet-go/parquet-go"
	"github.com/parquet-go/parquet-go/compress"
	"github.com/parquet-go/parquet-go/encoding"

	"verif/engine"
)

// wcfg is one point of the writer option lattice O (DESIGN.md §1.8). Every
// axis is a Deviate choice: alternative 0 is the library default.
type wcfg struct {
	opts      []parquet.WriterOption
	desc      []string
	pageV     int
	bloom     bool
	maxRows   int64
	codecName string
	encName   string
	pageBuf   int
	dictMax   int64
	stats     bool
}

var (
	codecNames = []string{"none", "snappy", "gzip", "zstd", "lz4raw", "brotli"}
	// the codecs as the library configures them (a zero gzip.Codec is level 0 = stored)
	codecs = []compress.Codec{nil, &parquet.Snappy, &parquet.Gzip, &parquet.Zstd, &parquet.Lz4Raw, &parquet.Brotli}
)

// encOption returns a DefaultEncodingFor set, one for every kind the
// encoding supports.
func encOption(name string) []parquet.WriterOption {
	var out []parquet.WriterOption
	add := func(k parquet.Kind, e encoding.Encoding) {
		out = append(out, parquet.DefaultEncodingFor(k, e))
	}
	switch name {
	case "plain":
		for _, k := range []parquet.Kind{parquet.Boolean, parquet.Int32, parquet.Int64, parquet.Int96, parquet.Float, parquet.Double, parquet.ByteArray, parquet.FixedLenByteArray} {
			add(k, &parquet.Plain)
		}
	case "dict":
		for _, k := range []parquet.Kind{parquet.Boolean, parquet.Int32, parquet.Int64, parquet.Int96, parquet.Float, parquet.Double, parquet.ByteArray, parquet.FixedLenByteArray} {
			add(k, &parquet.RLEDictionary)
		}
	case "delta":
		add(parquet.Int32, &parquet.DeltaBinaryPacked)
		add(parquet.Int64, &parquet.DeltaBinaryPacked)
		add(parquet.ByteArray, &parquet.DeltaByteArray)
		add(parquet.FixedLenByteArray, &parquet.DeltaByteArray)
	case "deltalen":
		add(parquet.ByteArray, &parquet.DeltaLengthByteArray)
		add(parquet.Boolean, &parquet.RLE)
	case "split":
		add(parquet.Float, &parquet.ByteStreamSplit)
		add(parquet.Double, &parquet.ByteStreamSplit)
		add(parquet.Int32, &parquet.ByteStreamSplit)
		add(parquet.Int64, &parquet.ByteStreamSplit)
		add(parquet.FixedLenByteArray, &parquet.ByteStreamSplit)
	}
	return out
}

func leafPaths(s *parquet.Schema) [][]string { return s.Columns() }

// chooseWriterOptions enumerates the option lattice around the default.
func chooseWriterOptions(x *engine.X, schema *parquet.Schema, tmpdir string) *wcfg {
	c := &wcfg{pageV: 2, codecName: "none", encName: "-"}
	add := func(d string, o ...parquet.WriterOption) {
		c.desc = append(c.desc, d)
		c.opts = append(c.opts, o...)
	}
	if x.Deviate(2, "opt.pagev") == 1 {
		c.pageV = 1
		add("v1", parquet.DataPageVersion(1))
	}
	switch x.Deviate(3, "opt.pagebuf") {
	case 1:
		c.pageBuf = 1
		add("pagebuf=1", parquet.PageBufferSize(1))
	case 2:
		c.pageBuf = 64
		add("pagebuf=64", parquet.PageBufferSize(64))
	}
	if i := x.Deviate(4, "opt.maxrows"); i > 0 {
		c.maxRows = int64(i)
		add(fmt.Sprintf("maxrows=%d", i), parquet.MaxRowsPerRowGroup(int64(i)))
	}
	if i := x.Deviate(len(codecs), "opt.codec"); i > 0 {
		c.codecName = codecNames[i]
		add("codec="+codecNames[i], parquet.Compression(codecs[i]))
	}
	switch x.Deviate(5, "opt.dictmax") {
	case 1:
		c.dictMax = 1
		add("dictmax=1", parquet.DictionaryMaxBytes(1))
	case 2:
		c.dictMax = 64
		add("dictmax=64", parquet.DictionaryMaxBytes(64))
	case 3: // dictionary fallback needs an overflow AND a later page
		c.dictMax = 1
		c.pageBuf = 1
		add("dictmax=1+pagebuf=1", parquet.DictionaryMaxBytes(1), parquet.PageBufferSize(1))
	case 4:
		c.dictMax = 64
		c.pageBuf = 64
		add("dictmax=64+pagebuf=64", parquet.DictionaryMaxBytes(64), parquet.PageBufferSize(64))
	}
	encs := []string{"-", "plain", "dict", "delta", "deltalen", "split"}
	if i := x.Deviate(len(encs), "opt.enc"); i > 0 {
		c.encName = encs[i]
		add("enc="+encs[i], encOption(encs[i])...)
	}
	if x.Deviate(2, "opt.pagestats") == 1 {
		c.stats = true
		add("pagestats", parquet.DataPageStatistics(true))
	}
	if x.Deviate(2, "opt.depstats") == 1 {
		add("depstats", parquet.DataPageStatistics(true), parquet.DeprecatedDataPageStatistics(true))
	}
	if x.Deviate(2, "opt.skipbounds") == 1 {
		var o []parquet.WriterOption
		for _, p := range leafPaths(schema) {
			o = append(o, parquet.SkipPageBounds(p...))
		}
		add("skipbounds", o...)
	}
	if x.Deviate(2, "opt.skipstats") == 1 {
		var o []parquet.WriterOption
		for _, p := range leafPaths(schema) {
			o = append(o, parquet.SkipPageStatistics(p...))
		}
		add("skipstats", o...)
	}
	switch x.Deviate(3, "opt.cilimit") {
	case 1:
		add("cilimit=1", parquet.ColumnIndexSizeLimit(func([]string) int { return 1 }))
	case 2:
		add("cilimit=4", parquet.ColumnIndexSizeLimit(func([]string) int { return 4 }))
	}
	switch x.Deviate(3, "opt.wbuf") {
	case 1:
		add("wbuf=0", parquet.WriteBufferSize(0))
	case 2:
		add("wbuf=7", parquet.WriteBufferSize(7))
	}
	switch x.Deviate(3, "opt.pagebuffers") {
	case 1:
		add("chunkpool5", parquet.ColumnPageBuffers(parquet.NewChunkBufferPool(5)))
	case 2:
		add("filepool", parquet.ColumnPageBuffers(parquet.NewFileBufferPool(tmpdir, "vp.*")))
	}
	switch i := x.Deviate(4, "opt.bloom"); i {
	case 1, 2, 3:
		c.bloom = true
		var fs []parquet.BloomFilterColumn
		for _, p := range leafPaths(schema) {
			fs = append(fs, parquet.SplitBlockFilter(10, p...))
		}
		switch i {
		case 1:
			add("bloom", parquet.BloomFilters(fs...))
		case 2:
			add("bloom+gzip", parquet.BloomFilters(fs...), parquet.BloomFilterCompression(&parquet.Gzip))
		case 3:
			add("bloom+deferred", parquet.BloomFilters(fs...), parquet.DeferBloomFiltersWithBuffers(parquet.NewBufferPool()))
		}
	}
	if x.Deviate(2, "opt.kv") == 1 {
		add("kv", parquet.KeyValueMetadata("zeta", "1"), parquet.KeyValueMetadata("alpha", "PAR1"))
	}
	if len(c.desc) > 0 {
		x.Descf("opts={%s}", strings.Join(c.desc, ","))
	}
	return c
}
