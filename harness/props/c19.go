package props

import (
	"bytes"
	"fmt"
	"io"
	"math"
	"strings"

	"github.com/google/uuid"
	"github.com/parquet-go/parquet-go"
	"github.com/parquet-go/parquet-go/variant"

	"verif/engine"
)

// C19 — variant values survive encoding, and shredding never changes them.

type rawVariant struct {
	Metadata []byte `parquet:"metadata"`
	Value    []byte `parquet:"value"`
}

type rawVariantRow struct {
	Var rawVariant `parquet:"var,variant"`
}

type anyVariantRow struct {
	Var any `parquet:"var,variant"`
}

func encodeRaw(v variant.Value) rawVariant {
	var b variant.MetadataBuilder
	value := variant.Encode(&b, v)
	_, metadata := b.Build()
	return rawVariant{Metadata: metadata, Value: value}
}

func decodeRaw(raw rawVariant) (variant.Value, error) {
	m, err := variant.DecodeMetadata(raw.Metadata)
	if err != nil {
		return variant.Null(), fmt.Errorf("metadata: %w", err)
	}
	return variant.Decode(m, raw.Value)
}

func c19Primitives() []variant.Value {
	var d16, d16b [16]byte
	d16[0], d16b[15] = 1, 0x80
	u := uuid.MustParse("00112233-4455-6677-8899-aabbccddeeff")
	return []variant.Value{
		variant.Null(), variant.Bool(true), variant.Bool(false),
		variant.Int8(0), variant.Int8(-128), variant.Int8(127),
		variant.Int16(128), variant.Int16(math.MinInt16), variant.Int32(32768), variant.Int32(math.MinInt32),
		variant.Int64(1 << 31), variant.Int64(math.MinInt64), variant.Int64(5),
		variant.Float(1.5), variant.Float(float32(math.Copysign(0, -1))), variant.Double(-2.25), variant.Double(math.Inf(1)),
		variant.String(""), variant.String("a"), variant.String(strings.Repeat("s", 63)), variant.String(strings.Repeat("s", 64)), variant.String(strings.Repeat("x", 300)),
		variant.Binary(nil), variant.Binary([]byte{0, 1, 2}),
		variant.Date(0), variant.Date(-1), variant.Time(86399999999), variant.Timestamp(-1), variant.TimestampNTZ(1), variant.TimestampNanos(math.MaxInt64), variant.TimestampNTZNanos(0),
		variant.UUID(u),
		variant.Decimal4(12345, 2), variant.Decimal4(-1, 0), variant.Decimal8(1<<40, 3), variant.Decimal16(d16, 2), variant.Decimal16(d16b, 0),
		// decimals around the sign bit of every byte length (two's complement, any storage width)
		variant.Decimal4(200, 2), variant.Decimal4(-200, 2), variant.Decimal4(127, 2), variant.Decimal4(-128, 2), variant.Decimal4(0, 2),
		variant.Decimal8(200, 3), variant.Decimal8(-129, 3), variant.Decimal8(32768, 3), variant.Decimal8(-32769, 3),
		variant.Decimal16(dec16(200), 2), variant.Decimal16(dec16(-200), 2), variant.Decimal16(dec16(255), 2), variant.Decimal16(dec16(-129), 2),
		variant.Decimal16(dec16(128), 2), variant.Decimal16(dec16(32768), 2), variant.Decimal16(dec16(-32769), 2), variant.Decimal16(dec16(0), 2), variant.Decimal16(dec16(-1), 2),
		variant.Decimal16(dec16(math.MaxInt64), 2), variant.Decimal16(dec16(math.MinInt64), 2),
	}
}

// dec16: v as a 16-byte little-endian two's complement integer.
func dec16(v int64) (out [16]byte) {
	for i := range out {
		if i < 8 {
			out[i] = byte(uint64(v) >> (8 * i))
		} else if v < 0 {
			out[i] = 0xff
		}
	}
	return out
}

// core primitives used inside containers
func c19Core() []variant.Value {
	return []variant.Value{variant.Null(), variant.Int64(7), variant.String("str"), variant.Bool(true), variant.Double(0.5), variant.Int8(3), variant.Date(19000), variant.String("")}
}

func obj(kv ...any) variant.Value {
	var f []variant.Field
	for i := 0; i+1 < len(kv); i += 2 {
		f = append(f, variant.Field{Name: kv[i].(string), Value: kv[i+1].(variant.Value)})
	}
	return variant.MakeObject(f)
}

func arr(v ...variant.Value) variant.Value { return variant.MakeArray(v) }

// c19Values: value trees by grammar, grouped in chunks written to one file.
func c19ValueChunks(thorough bool) [][]variant.Value {
	prims := c19Primitives()
	core := c19Core()
	var chunks [][]variant.Value
	chunks = append(chunks, prims)
	// arrays of <=2 core elements, complete
	var arrays []variant.Value
	arrays = append(arrays, arr())
	for _, a := range core {
		arrays = append(arrays, arr(a))
		for _, b := range core {
			arrays = append(arrays, arr(a, b))
		}
	}
	chunks = append(chunks, arrays)
	// objects over field names a,b,zz (zz is never shredded), each absent or one of the core values: complete over a 4-value core
	c4 := core[:4]
	var objects []variant.Value
	opts := append([]variant.Value{{}}, c4...)
	for ia := range opts {
		for ib := range opts {
			for iz := range opts {
				var kv []any
				if ia > 0 {
					kv = append(kv, "a", opts[ia])
				}
				if iz > 0 { // unsorted insertion order
					kv = append(kv, "zz", opts[iz])
				}
				if ib > 0 {
					kv = append(kv, "b", opts[ib])
				}
				objects = append(objects, obj(kv...))
			}
		}
	}
	chunks = append(chunks, objects)
	// depth 2: objects holding objects / arrays, arrays of objects, shared key at two depths
	var deep []variant.Value
	inner := []variant.Value{obj(), obj("a", core[1]), obj("a", core[2], "b", core[1]), obj("zz", core[3]), arr(), arr(core[1], core[2]), core[1], core[0]}
	for _, x := range inner {
		for _, y := range inner {
			deep = append(deep, obj("a", x, "b", y))
		}
		deep = append(deep, arr(x, obj("a", x)), obj("a", obj("a", x)), arr(arr(x)))
	}
	chunks = append(chunks, deep)
	// size edges: offset width switches
	var big []variant.Value
	var many []variant.Value
	for i := 0; i < 256; i++ {
		many = append(many, variant.Int64(int64(i)))
	}
	big = append(big, arr(many...), arr(many[:255]...))
	var kv []any
	for i := 0; i < 256; i++ {
		kv = append(kv, fmt.Sprintf("key%03d", i), variant.Int8(int8(i)))
	}
	big = append(big, obj(kv...), obj(kv[:510]...))
	// an object holding an object with many fields, between other fields (the
	// encoder's scratch space grows while the outer object is open)
	for _, n := range []int{40, 300, 5000} {
		var nkv []any
		for i := 0; i < n; i++ {
			nkv = append(nkv, fmt.Sprintf("n%04d", i), variant.Int64(int64(i)))
		}
		big = append(big, obj("a", variant.Int64(1), "b", obj(nkv...), "zz", variant.String("after"), "zzz", obj("a", variant.Bool(true))))
	}
	big = append(big, variant.String(strings.Repeat("y", 65536)), arr(variant.String(strings.Repeat("z", 70000)), variant.Int8(1)))
	chunks = append(chunks, big)
	return chunks
}

type c19Schema struct {
	name string
	node func() parquet.Node // nil = unshredded
}

func c19Schemas() []c19Schema {
	s := func(name string, f func() parquet.Node) c19Schema { return c19Schema{name, f} }
	return []c19Schema{
		s("unshredded", nil),
		s("bool", func() parquet.Node { return parquet.Leaf(parquet.BooleanType) }),
		s("int8", func() parquet.Node { return parquet.Int(8) }),
		s("int16", func() parquet.Node { return parquet.Int(16) }),
		s("int32", func() parquet.Node { return parquet.Int(32) }),
		s("int64", func() parquet.Node { return parquet.Int(64) }),
		s("float", func() parquet.Node { return parquet.Leaf(parquet.FloatType) }),
		s("double", func() parquet.Node { return parquet.Leaf(parquet.DoubleType) }),
		s("string", func() parquet.Node { return parquet.String() }),
		s("binary", func() parquet.Node { return parquet.Leaf(parquet.ByteArrayType) }),
		s("date", func() parquet.Node { return parquet.Date() }),
		s("timestamp", func() parquet.Node { return parquet.Timestamp(parquet.Microsecond) }),
		s("uuid", func() parquet.Node { return parquet.UUID() }),
		s("decimal(2:9)", func() parquet.Node { return parquet.Decimal(2, 9, parquet.Int32Type) }),
		s("decimal(3:18,int64)", func() parquet.Node { return parquet.Decimal(3, 18, parquet.Int64Type) }),
		s("decimal(2:38,bytes)", func() parquet.Node { return parquet.Decimal(2, 38, parquet.ByteArrayType) }),
		s("decimal(2:38,fixed16)", func() parquet.Node { return parquet.Decimal(2, 38, parquet.FixedLenByteArrayType(16)) }),
		s("list<decimal(2:38,bytes)>", func() parquet.Node { return parquet.List(parquet.Decimal(2, 38, parquet.ByteArrayType)) }),
		s("object{a:int64}", func() parquet.Node { return parquet.Group{"a": parquet.Int(64)} }),
		s("object{a:int64,b:string}", func() parquet.Node { return parquet.Group{"a": parquet.Int(64), "b": parquet.String()} }),
		s("object{a:string,b:bool}", func() parquet.Node {
			return parquet.Group{"a": parquet.String(), "b": parquet.Leaf(parquet.BooleanType)}
		}),
		s("object{a:object{a:int64},b:list<string>}", func() parquet.Node {
			return parquet.Group{"a": parquet.Group{"a": parquet.Int(64)}, "b": parquet.List(parquet.String())}
		}),
		s("object{a:object{a:string,b:int64}}", func() parquet.Node {
			return parquet.Group{"a": parquet.Group{"a": parquet.String(), "b": parquet.Int(64)}}
		}),
		s("list<int64>", func() parquet.Node { return parquet.List(parquet.Int(64)) }),
		s("list<string>", func() parquet.Node { return parquet.List(parquet.String()) }),
		s("list<object{a:int64}>", func() parquet.Node { return parquet.List(parquet.Group{"a": parquet.Int(64)}) }),
		s("list<list<int64>>", func() parquet.Node { return parquet.List(parquet.List(parquet.Int(64))) }),
	}
}

var c19WritePaths = []string{"GenericWriter(raw)", "GenericBuffer->WriteRowGroup", "WriteRows(Deconstruct)", "VariantColumnWriter.WriteValue", "VariantColumnWriter.events(FieldByRef)"}
var c19ReadPaths = []string{"Read[raw] (convert to unshredded)", "GenericReader(file schema)", "NewReader(Variant schema)",
	// the reader's type declares a column the file does not have, before / after the variant
	"Read[raw+column-added-before] (convert to unshredded)", "Read[raw+column-added-after] (convert to unshredded)"}

type rawVariantRowBefore struct {
	Added *int64     `parquet:"aaa,optional"`
	Var   rawVariant `parquet:"var,variant"`
}

type rawVariantRowAfter struct {
	Var   rawVariant `parquet:"var,variant"`
	Added *string    `parquet:"zzz,optional"`
}

// a VARIANT column below a repeated field
type repAnyItem struct {
	Var any `parquet:"var,variant"`
}

type repAnyRow struct {
	ID   int32        `parquet:"id"`
	Vars []repAnyItem `parquet:"vars"`
}

type repRawItem struct {
	Var rawVariant `parquet:"var,variant"`
}

type repRawRow struct {
	ID   int32        `parquet:"id"`
	Vars []repRawItem `parquet:"vars"`
}

// emitEvents streams v into the column writer with the event API, using one
// shared VariantFieldRef per field name.
func emitEvents(vw *parquet.VariantColumnWriter, refs map[string]*parquet.VariantFieldRef, v variant.Value) {
	switch v.Basic() {
	case variant.BasicObject:
		vw.BeginObject()
		o := v.ObjectValue()
		for _, f := range o.Fields {
			ref := refs[f.Name]
			if ref == nil {
				ref = parquet.NewVariantFieldRef(f.Name)
				refs[f.Name] = ref
			}
			vw.FieldByRef(ref)
			emitEvents(vw, refs, f.Value)
		}
		vw.EndObject()
	case variant.BasicArray:
		vw.BeginArray()
		for _, e := range v.ArrayValue().Elements {
			emitEvents(vw, refs, e)
		}
		vw.EndArray()
	default:
		// scalars go through WriteValue-equivalent typed calls
		switch v.Type() {
		case variant.PrimitiveNull:
			vw.Null()
		case variant.PrimitiveTrue, variant.PrimitiveFalse:
			vw.Bool(v.BoolValue())
		case variant.PrimitiveInt8:
			vw.Int8(int8(v.Int()))
		case variant.PrimitiveInt16:
			vw.Int16(int16(v.Int()))
		case variant.PrimitiveInt32:
			vw.Int32(int32(v.Int()))
		case variant.PrimitiveInt64:
			vw.Int64(v.Int())
		case variant.PrimitiveFloat:
			vw.Float(float32(v.FloatValue()))
		case variant.PrimitiveDouble:
			vw.Double(v.FloatValue())
		case variant.PrimitiveString:
			vw.String(v.Str())
		case variant.PrimitiveBinary:
			vw.Binary(v.Bytes())
		case variant.PrimitiveDate:
			vw.Date(int32(v.Int()))
		default:
			v.Write(vw)
		}
	}
}

func c19Run(x *engine.X) {
	mode := x.Choose(3, "mode")
	switch mode {
	case 0:
		c19Codec(x)
	case 1:
		c19Files(x)
	case 2:
		c19Cursors(x)
	}
}

// codec: Encode/Decode, Marshal/Unmarshal, Builder
func c19Codec(x *engine.X) {
	chunks := c19ValueChunks(x.Tier == "thorough")
	ci := x.Choose(len(chunks), "chunk")
	x.Descf("mode=codec chunk=%d (%d values)", ci, len(chunks[ci]))
	x.Nontrivial(x.Describe())
	for i, v := range chunks[ci] {
		x.AddEvals(1)
		got, err := decodeRaw(encodeRaw(v))
		if err != nil {
			x.Failf("decode-error", "mode=codec", "value #%d %#v: Decode(Encode(v)): %v", i, v.GoValue(), err)
			return
		}
		if !got.Equal(v) {
			x.Failf("codec-mismatch", fmt.Sprintf("mode=codec;basic=%d;type=%d", v.Basic(), v.Type()), "value #%d: Decode(Encode(v)) = %#v, want %#v", i, trunc2(fmt.Sprintf("%#v", got.GoValue())), trunc2(fmt.Sprintf("%#v", v.GoValue())))
			return
		}
		// Builder path: re-serialise through the streaming builder
		b := variant.NewBuilderWithMetadata(&variant.MetadataBuilder{})
		v.Write(b)
		md, val, err := b.Finish()
		if err != nil {
			x.Failf("builder-error", "mode=codec", "value #%d: Builder: %v", i, err)
			return
		}
		got2, err := decodeRaw(rawVariant{Metadata: md, Value: val})
		if err != nil || !got2.Equal(v) {
			x.Failf("codec-mismatch", fmt.Sprintf("mode=builder;basic=%d;type=%d", v.Basic(), v.Type()), "value #%d through Builder: err=%v got %s want %s", i, err, trunc2(fmt.Sprintf("%#v", got2.GoValue())), trunc2(fmt.Sprintf("%#v", v.GoValue())))
			return
		}
		// Marshal/Unmarshal of the Go-native form
		md, val, err = variant.Marshal(v.GoValue())
		if err == nil {
			if back, err := variant.Unmarshal(md, val); err != nil {
				x.Failf("decode-error", "mode=marshal", "value #%d: Unmarshal(Marshal(go value)): %v", i, err)
				return
			} else if bv, err := variant.ValueOf(back); err == nil {
				gv, _ := variant.ValueOf(v.GoValue())
				if !bv.Equal(gv) {
					x.Failf("codec-mismatch", fmt.Sprintf("mode=marshal;basic=%d;type=%d", v.Basic(), v.Type()), "value #%d: Unmarshal(Marshal(x)) = %s, want %s", i, trunc2(fmt.Sprintf("%#v", back)), trunc2(fmt.Sprintf("%#v", v.GoValue())))
					return
				}
			}
		}
	}
	x.Outcome("ok")
}

func c19Files(x *engine.X) {
	schemas := c19Schemas()
	chunks := c19ValueChunks(x.Tier == "thorough")
	root := x.Choose(len(schemas)*len(c19WritePaths), "schema*write")
	sc := schemas[root/len(c19WritePaths)]
	wp := c19WritePaths[root%len(c19WritePaths)]
	ci := x.Choose(len(chunks), "chunk")
	values := chunks[ci]
	placement := x.Choose(2, "placement")
	if placement == 1 {
		c19FilesRepeated(x, sc, wp, ci, values)
		return
	}
	x.Descf("mode=files shred=%s write=%s chunk=%d (%d values)", sc.name, wp, ci, len(values))
	x.Nontrivial(x.Describe())
	shape := fmt.Sprintf("shred=%s;write=%s", sc.name, wp)

	variantNode := parquet.Variant()
	if sc.node != nil {
		n, err := parquet.ShreddedVariant(sc.node())
		if err != nil {
			x.Failf("harness", "schema", "ShreddedVariant(%s): %v", sc.name, err)
			return
		}
		variantNode = n
	}
	schema := parquet.NewSchema("table", parquet.Group{"var": variantNode})
	rows := make([]anyVariantRow, len(values))
	for i, v := range values {
		rows[i] = anyVariantRow{Var: encodeRaw(v)}
	}
	var buf bytes.Buffer
	var werr error
	func() {
		defer func() {
			if r := recover(); r != nil {
				werr = fmt.Errorf("panic: %v", r)
			}
		}()
		switch wp {
		case "GenericWriter(raw)":
			w := parquet.NewGenericWriter[anyVariantRow](&buf, schema, parquet.PageBufferSize(256))
			for i := range rows {
				if _, err := w.Write(rows[i : i+1]); err != nil {
					werr = err
					return
				}
			}
			werr = w.Close()
		case "GenericBuffer->WriteRowGroup":
			b := parquet.NewGenericBuffer[anyVariantRow](schema)
			if _, err := b.Write(rows); err != nil {
				werr = err
				return
			}
			w := parquet.NewGenericWriter[anyVariantRow](&buf, schema)
			if _, err := w.WriteRowGroup(b); err != nil {
				werr = err
				return
			}
			werr = w.Close()
		case "WriteRows(Deconstruct)":
			w := parquet.NewGenericWriter[anyVariantRow](&buf, schema)
			var prs []parquet.Row
			for i := range rows {
				prs = append(prs, schema.Deconstruct(nil, &rows[i]))
			}
			if _, err := w.WriteRows(prs); err != nil {
				werr = err
				return
			}
			werr = w.Close()
		case "VariantColumnWriter.WriteValue", "VariantColumnWriter.events(FieldByRef)":
			w := parquet.NewWriter(&buf, schema)
			vw, err := parquet.NewVariantColumnWriter(w, "var")
			if err != nil {
				werr = err
				return
			}
			refs := map[string]*parquet.VariantFieldRef{}
			for _, v := range values {
				if wp == "VariantColumnWriter.WriteValue" {
					if err := vw.WriteValue(v); err != nil {
						werr = err
						return
					}
					continue
				}
				if err := vw.BeginRow(); err != nil {
					werr = err
					return
				}
				emitEvents(vw, refs, v)
				if err := vw.EndRow(); err != nil {
					werr = err
					return
				}
			}
			if err := vw.Err(); err != nil {
				werr = err
				return
			}
			werr = w.Close()
		}
	}()
	if werr != nil {
		x.Failf("write-error", shape, "%v", werr)
		return
	}
	data := buf.Bytes()
	for _, rp := range c19ReadPaths {
		x.AddEvals(1)
		var got []rawVariant
		var rerr error
		func() {
			defer func() {
				if r := recover(); r != nil {
					rerr = fmt.Errorf("panic: %v", r)
				}
			}()
			switch rp {
			case "Read[raw] (convert to unshredded)":
				rr, err := parquet.Read[rawVariantRow](bytes.NewReader(data), int64(len(data)))
				rerr = err
				for _, r := range rr {
					got = append(got, r.Var)
				}
			case "Read[raw+column-added-before] (convert to unshredded)":
				rr, err := parquet.Read[rawVariantRowBefore](bytes.NewReader(data), int64(len(data)))
				rerr = err
				for i, r := range rr {
					if r.Added != nil && rerr == nil {
						rerr = fmt.Errorf("row %d: the column the file does not have reads %d, want null", i, *r.Added)
					}
					got = append(got, r.Var)
				}
			case "Read[raw+column-added-after] (convert to unshredded)":
				rr, err := parquet.Read[rawVariantRowAfter](bytes.NewReader(data), int64(len(data)))
				rerr = err
				for i, r := range rr {
					if r.Added != nil && rerr == nil {
						rerr = fmt.Errorf("row %d: the column the file does not have reads %q, want null", i, *r.Added)
					}
					got = append(got, r.Var)
				}
			case "GenericReader(file schema)":
				r := parquet.NewGenericReader[rawVariantRow](bytes.NewReader(data), schema)
				defer r.Close()
				out := make([]rawVariantRow, len(values))
				n, err := r.Read(out)
				if err != nil && err != io.EOF {
					rerr = err
				}
				for _, o := range out[:n] {
					got = append(got, o.Var)
				}
			case "NewReader(Variant schema)":
				rs := parquet.NewSchema("table", parquet.Group{"var": parquet.Variant()})
				r := parquet.NewReader(bytes.NewReader(data), rs)
				defer r.Close()
				for range values {
					var o rawVariantRow
					if err := r.Read(&o); err != nil {
						rerr = err
						return
					}
					got = append(got, o.Var)
				}
			}
		}()
		sh := shape + ";read=" + strings.SplitN(rp, " ", 2)[0]
		if !c19Compare(x, sh, rp, values, got, rerr) {
			return
		}
	}
	x.Outcome("ok")
}

// c19Compare: the values read back (raw) against the values written.
func c19Compare(x *engine.X, sh, rp string, values []variant.Value, got []rawVariant, rerr error) bool {
	{
		if rerr != nil {
			x.Failf("read-error", sh, "%s: %v", rp, rerr)
			return false
		}
		if len(got) != len(values) {
			x.Failf("row-count", sh, "%s: wrote %d values, read %d", rp, len(values), len(got))
			return false
		}
		for i, want := range values {
			dv, err := decodeRaw(got[i])
			if err != nil {
				x.Failf("read-error", sh, "%s: value %d (%s): decoding: %v", rp, i, trunc2(fmt.Sprintf("%#v", want.GoValue())), err)
				return false
			}
			if !dv.Equal(want) {
				x.Failf("value-changed", sh, "%s: value %d read back as %s, written %s", rp, i, trunc2(fmt.Sprintf("%#v", dv.GoValue())), trunc2(fmt.Sprintf("%#v", want.GoValue())))
				return false
			}
		}
	}
	return true
}

var c19RepWritePaths = map[string]string{
	"GenericWriter(raw)":                     "GenericWriter.Write",
	"GenericBuffer->WriteRowGroup":           "GenericBuffer->WriteRowGroup",
	"WriteRows(Deconstruct)":                 "WriteRows(Deconstruct)",
	"VariantColumnWriter.WriteValue":         "Writer.Write(&row)",
	"VariantColumnWriter.events(FieldByRef)": "RowBuffer->WriteRowGroup",
}

// c19FilesRepeated: the VARIANT column sits below a repeated field; a row holds
// 0, 1 or 2 values (the column's repetition depth is 1 before any shredded LIST
// adds its own).
func c19FilesRepeated(x *engine.X, sc c19Schema, wpTop string, ci int, values []variant.Value) {
	wp := c19RepWritePaths[wpTop]
	x.Descf("mode=files placement=repeated shred=%s write=%s chunk=%d (%d values)", sc.name, wp, ci, len(values))
	x.Nontrivial(x.Describe())
	shape := fmt.Sprintf("placement=repeated;shred=%s;write=%s", sc.name, wp)
	variantNode := parquet.Variant()
	if sc.node != nil {
		n, err := parquet.ShreddedVariant(sc.node())
		if err != nil {
			x.Failf("harness", "schema", "ShreddedVariant(%s): %v", sc.name, err)
			return
		}
		variantNode = n
	}
	schema := parquet.NewSchema("table", parquet.Group{"id": parquet.Int(32), "vars": parquet.Repeated(parquet.Group{"var": variantNode})})
	unshredded := parquet.NewSchema("table", parquet.Group{"id": parquet.Int(32), "vars": parquet.Repeated(parquet.Group{"var": parquet.Variant()})})
	var rows []repAnyRow
	var flat []variant.Value
	var counts []int
	for i := range values {
		k := 2
		switch {
		case i%7 == 5:
			k = 0
		case i%5 == 3:
			k = 1
		}
		r := repAnyRow{ID: int32(i), Vars: []repAnyItem{}}
		for j := 0; j < k; j++ {
			v := values[(i+j)%len(values)]
			r.Vars = append(r.Vars, repAnyItem{Var: encodeRaw(v)})
			flat = append(flat, v)
		}
		counts = append(counts, k)
		rows = append(rows, r)
	}
	var buf bytes.Buffer
	var werr error
	func() {
		defer func() {
			if r := recover(); r != nil {
				werr = fmt.Errorf("panic: %v", r)
			}
		}()
		switch wp {
		case "GenericWriter.Write":
			w := parquet.NewGenericWriter[repAnyRow](&buf, schema, parquet.PageBufferSize(256))
			for i := range rows {
				if _, err := w.Write(rows[i : i+1]); err != nil {
					werr = err
					return
				}
			}
			werr = w.Close()
		case "GenericBuffer->WriteRowGroup", "RowBuffer->WriteRowGroup":
			var rg parquet.RowGroup
			if wp == "GenericBuffer->WriteRowGroup" {
				b := parquet.NewGenericBuffer[repAnyRow](schema)
				if _, err := b.Write(rows); err != nil {
					werr = err
					return
				}
				rg = b
			} else {
				b := parquet.NewRowBuffer[repAnyRow](schema)
				if _, err := b.Write(rows); err != nil {
					werr = err
					return
				}
				rg = b
			}
			w := parquet.NewGenericWriter[repAnyRow](&buf, schema)
			if _, err := w.WriteRowGroup(rg); err != nil {
				werr = err
				return
			}
			werr = w.Close()
		case "WriteRows(Deconstruct)":
			w := parquet.NewGenericWriter[repAnyRow](&buf, schema)
			var prs []parquet.Row
			for i := range rows {
				prs = append(prs, schema.Deconstruct(nil, &rows[i]))
			}
			if _, err := w.WriteRows(prs); err != nil {
				werr = err
				return
			}
			werr = w.Close()
		case "Writer.Write(&row)":
			w := parquet.NewWriter(&buf, schema)
			for i := range rows {
				if err := w.Write(&rows[i]); err != nil {
					werr = err
					return
				}
			}
			werr = w.Close()
		}
	}()
	if werr != nil {
		x.Failf("write-error", shape, "%v", werr)
		return
	}
	data := buf.Bytes()
	for _, rp := range []string{"Read[raw] (convert to unshredded)", "GenericReader(file schema)", "GenericReader(unshredded schema)"} {
		x.AddEvals(1)
		var got []rawVariant
		var rerr error
		take := func(rr []repRawRow) {
			if len(rr) != len(rows) && rerr == nil {
				rerr = fmt.Errorf("read %d rows, wrote %d", len(rr), len(rows))
				return
			}
			for i, r := range rr {
				if (int(r.ID) != i || len(r.Vars) != counts[i]) && rerr == nil {
					rerr = fmt.Errorf("row %d reads id=%d with %d values, written id=%d with %d values", i, r.ID, len(r.Vars), i, counts[i])
				}
				for _, it := range r.Vars {
					got = append(got, it.Var)
				}
			}
		}
		func() {
			defer func() {
				if r := recover(); r != nil {
					rerr = fmt.Errorf("panic: %v", r)
				}
			}()
			switch rp {
			case "Read[raw] (convert to unshredded)":
				rr, err := parquet.Read[repRawRow](bytes.NewReader(data), int64(len(data)))
				rerr = err
				if err == nil {
					take(rr)
				}
			default:
				rs := schema
				if rp == "GenericReader(unshredded schema)" {
					rs = unshredded
				}
				r := parquet.NewGenericReader[repRawRow](bytes.NewReader(data), rs)
				defer r.Close()
				out := make([]repRawRow, len(rows)+1)
				n, err := r.Read(out)
				if err != nil && err != io.EOF {
					rerr = err
					return
				}
				take(out[:n])
			}
		}()
		sh := shape + ";read=" + strings.SplitN(rp, " ", 2)[0]
		if rp == "GenericReader(unshredded schema)" {
			sh = shape + ";read=GenericReader(unshredded)"
		}
		if !c19Compare(x, sh, rp, flat, got, rerr) {
			return
		}
	}
	x.Outcome("ok")
}

// c19Cursors: typed columnar reads through VariantReader cursors created at
// different moments relative to Next / SeekToRow.
func c19Cursors(x *engine.X) {
	const n = 40
	values := make([]variant.Value, n)
	for i := range values {
		// a, b and ok are shredded; x is not (every row is a partially shredded object)
		values[i] = obj("a", variant.Int64(int64(1000+i)), "b", variant.String(fmt.Sprintf("s%d", i)), "ok", variant.Bool(i%3 == 0 || i%7 == 1), "x", variant.String(fmt.Sprintf("x%d", i)))
	}
	node, err := parquet.ShreddedVariant(parquet.Group{"a": parquet.Int(64), "b": parquet.String(), "ok": parquet.Leaf(parquet.BooleanType)})
	if err != nil {
		x.Failf("harness", "schema", "%v", err)
		return
	}
	schema := parquet.NewSchema("table", parquet.Group{"var": node})
	var buf bytes.Buffer
	w := parquet.NewGenericWriter[anyVariantRow](&buf, schema, parquet.PageBufferSize(128))
	for _, v := range values {
		w.Write([]anyVariantRow{{Var: encodeRaw(v)}})
	}
	if err := w.Close(); err != nil {
		x.Failf("harness", "write", "%v", err)
		return
	}
	f, err := parquet.OpenFile(bytes.NewReader(buf.Bytes()), int64(buf.Len()))
	if err != nil {
		x.Failf("harness", "open", "%v", err)
		return
	}
	r, err := parquet.NewVariantReader(f.RowGroups()[0], "var")
	if err != nil {
		x.Failf("harness", "reader", "%v", err)
		return
	}
	defer r.Close()
	ops := []string{"cursor(a)", "cursor(b)", "Next(3)", "Next(10)", "Seek(0)", "Seek(7)", "Seek(25)", "cursor(x)", "cursor(ok)"}
	depth := 4
	if x.Tier == "thorough" {
		depth = 5
	}
	var hist []string
	var ca, cb, cx, cok *parquet.VariantCursor
	pos := 0
	for d := 0; d < depth; d++ {
		c := x.Choose(len(ops)+1, "op")
		if c == 0 {
			break
		}
		op := ops[c-1]
		hist = append(hist, op)
		switch {
		case op == "cursor(a)":
			ca = r.Path("a")
		case op == "cursor(b)":
			cb = r.Path("b")
		case op == "cursor(x)":
			cx = r.Path("x") // below the shredded schema: navigates the leftovers of the object
		case op == "cursor(ok)":
			cok = r.Path("ok")
		case strings.HasPrefix(op, "Seek"):
			var k int
			fmt.Sscanf(op, "Seek(%d)", &k)
			if err := r.SeekToRow(int64(k)); err != nil {
				x.Failf("cursor-error", "op=seek", "after %v: SeekToRow(%d): %v", hist, k, err)
				return
			}
			pos = k
		default:
			var k int
			fmt.Sscanf(op, "Next(%d)", &k)
			m, err := r.Next(k)
			if err != nil && err != io.EOF {
				x.Failf("cursor-error", "op=next", "after %v: Next(%d): %v", hist, k, err)
				return
			}
			want := k
			if pos+want > n {
				want = n - pos
			}
			if m != want {
				x.Failf("cursor-window", "op=next", "after %v: Next(%d) at row %d returned %d rows, want %d", hist, k, pos, m, want)
				return
			}
			if m == 0 {
				// exhausted: Next returns (0, io.EOF) without advancing the window;
				// what the cursors hold then is unspecified, nothing to compare
				continue
			}
			if ca != nil {
				ints := ca.Int64s()
				if len(ints) != m {
					x.Failf("cursor-window", "cursor=a", "after %v: cursor a holds %d typed values for a window of %d rows", hist, len(ints), m)
					return
				}
				for i := 0; i < m; i++ {
					if ints[i] != int64(1000+pos+i) {
						x.Failf("cursor-value", "cursor=a", "after %v: window row %d (file row %d): a=%d, want %d", hist, i, pos+i, ints[i], 1000+pos+i)
						return
					}
				}
			}
			if cb != nil {
				slab, offs := cb.ByteArrays()
				if len(offs) != m+1 && !(m == 0 && len(offs) <= 1) {
					x.Failf("cursor-window", "cursor=b", "after %v: cursor b holds %d offsets for a window of %d rows", hist, len(offs), m)
					return
				}
				for i := 0; i < m; i++ {
					got := string(slab[offs[i]:offs[i+1]])
					if got != fmt.Sprintf("s%d", pos+i) {
						x.Failf("cursor-value", "cursor=b", "after %v: window row %d (file row %d): b=%q, want %q", hist, i, pos+i, got, fmt.Sprintf("s%d", pos+i))
						return
					}
				}
			}
			if cx != nil {
				for i := 0; i < m; i++ {
					v, ok, err := cx.Residual(i)
					want := fmt.Sprintf("x%d", pos+i)
					if err != nil || !ok || !v.Equal(variant.String(want)) {
						x.Failf("cursor-value", "cursor=x", "after %v: window row %d (file row %d): the unshredded field x reads ok=%v err=%v value=%v loc=%v, want %q", hist, i, pos+i, ok, err, v, cx.Locs()[i], want)
						return
					}
				}
			}
			if cok != nil {
				bs := cok.Booleans()
				if len(bs) != m {
					x.Failf("cursor-window", "cursor=ok", "after %v: cursor ok holds %d booleans for a window of %d rows", hist, len(bs), m)
					return
				}
				for i := 0; i < m; i++ {
					if want := (pos+i)%3 == 0 || (pos+i)%7 == 1; bs[i] != want {
						x.Failf("cursor-value", "cursor=ok", "after %v: window row %d (file row %d): ok=%v, want %v", hist, i, pos+i, bs[i], want)
						return
					}
				}
			}
			pos += m
		}
	}
	x.Descf("mode=cursors ops=%v", hist)
	if len(hist) >= 2 {
		x.Nontrivial(x.Describe())
	}
	x.Outcome("ok")
}

func init() {
	Register(&engine.Prop{
		ID:    "C19",
		Level: "exploration",
		Rule: "value trees by grammar (57 primitives covering all 21 kinds at width / length edges, decimals around the sign bit of every byte length; all arrays of <=2 elements over an 8-value core; all objects over fields {a, b, zz} each absent or one of 4 core values, unsorted insertion order; 2-level nestings incl. a key shared at two depths; size edges: 255/256 elements, 255/256 keys, 64 KiB / 70 KB strings, an object of 40 / 300 / 5000 fields nested between the fields of another) through (1) Encode/Decode, the streaming Builder and Marshal/Unmarshal; (2) 27 shredding schemas (unshredded, 16 primitive typed_values incl. decimals stored as int32 / int64 / byte array / fixed 16, objects with shredded/unshredded fields, nested objects, lists of primitives / objects / lists) x 5 write paths (GenericWriter, GenericBuffer+WriteRowGroup, WriteRows(Deconstruct), VariantColumnWriter.WriteValue, VariantColumnWriter events with shared FieldRefs) x 3 read paths (converted to unshredded, through the file schema, NewReader with a Variant schema); (3) all sequences of <=4 (5 thorough) operations from {create cursor a (int64), b (string), ok (boolean), x (a field the schema does NOT shred, read through the leftovers), Next(3), Next(10), SeekToRow(0|7|25)} on a VariantReader over a partially shredded object column of several pages; " +
			"evaluation = one value or one read path; non-trivial = every (schema, write path, chunk) / history",
		Assumptions: []string{"equality is variant.Value.Equal (structural); every value is written raw (metadata, value bytes) so that all 21 kinds take part"},
		Bound:       func(string) int { return 0 },
		Run:         c19Run,
	})
}
