package props

import (
	"bytes"
	"fmt"
	"io"
	"os"
	"reflect"
	"strings"

	"github.com/parquet-go/parquet-go"

	"verif/engine"
)

// C01 — write then read returns exactly the rows written.
//
// Space: row type (26 Go struct shapes) x row sequence (empty, every single
// alphabet row, all alphabet rows, reversed, pairs, run-length patterns around
// the 64-row bitmap/maxRowsPerWrite boundary, triples in thorough) x call
// history (all Write/Flush splits for n<=3, threshold cuts beyond) x writer
// option lattice within the deviation bound (1 quick, 2 thorough).
// Oracle: the three read paths (Read[T], GenericReader[T].Read in batches,
// RowGroups().Rows().ReadRows + Schema.Reconstruct) each return rows equal to
// the written rows under the documented mapping (eqNorm).

var tmpDir = func() string {
	d := "/var/tmp/verif-tmp"
	os.MkdirAll(d, 0o755)
	return d
}()

const c01SeqKinds = 9

// chooseRowSeq picks a row sequence of the given kind. It returns nil,false
// when the kind does not apply in this tier.
func chooseRowSeq(x *engine.X, rt *RT, kind int) ([]any, bool) {
	R := len(rt.Rows)
	pick := func(label string) int { return x.Choose(R, label) }
	rep := func(r any, n int) []any {
		out := make([]any, n)
		for i := range out {
			out[i] = r
		}
		return out
	}
	switch kind {
	case 0:
		x.Descf("rows=[]")
		return nil, true
	case 1:
		i := pick("row")
		x.Descf("rows=[r%d]", i)
		return []any{rt.Rows[i]}, true
	case 2:
		x.Descf("rows=all(%d)", R)
		return append([]any(nil), rt.Rows...), true
	case 3:
		x.Descf("rows=all-reversed(%d)", R)
		out := make([]any, R)
		for i := range out {
			out[i] = rt.Rows[R-1-i]
		}
		return out, true
	case 4: // pairs
		i := pick("row")
		var j int
		if x.Tier == "thorough" {
			j = pick("row2")
		} else {
			j = []int{i, (i + 1) % R, R - 1 - i}[x.Choose(3, "row2rel")]
		}
		x.Descf("rows=[r%d r%d]", i, j)
		return []any{rt.Rows[i], rt.Rows[j]}, true
	case 5: // two runs around the 64-row boundaries
		lens := []int{1, 64, 65}
		if x.Tier == "thorough" {
			lens = []int{1, 7, 8, 9, 63, 64, 65, 127, 128, 129}
		}
		a := []int{0, 1, R - 1}[x.Choose(3, "runrowA")]
		b := []int{1, 0, R / 2}[x.Choose(3, "runrowB")]
		n1 := lens[x.Choose(len(lens), "runlenA")]
		n2 := lens[x.Choose(len(lens), "runlenB")]
		x.Descf("rows=[r%d x%d, r%d x%d]", a, n1, b, n2)
		return append(rep(rt.Rows[a], n1), rep(rt.Rows[b], n2)...), true
	case 6: // three runs: null / value / null patterns crossing a word
		lens := []int{1, 65}
		mids := []int{1, R / 2, R - 1}
		if x.Tier == "thorough" {
			lens = []int{1, 8, 9, 63, 64, 65}
			mids = nil
			for i := 1; i < R; i++ {
				mids = append(mids, i)
			}
		}
		n1 := lens[x.Choose(len(lens), "runlenA")]
		n2 := lens[x.Choose(len(lens), "runlenB")]
		n3 := lens[x.Choose(len(lens), "runlenC")]
		mid := mids[x.Choose(len(mids), "runrowB")]
		x.Descf("rows=[r0 x%d, r%d x%d, r0 x%d]", n1, mid, n2, n3)
		out := append(rep(rt.Rows[0], n1), rep(rt.Rows[mid], n2)...)
		return append(out, rep(rt.Rows[0], n3)...), true
	case 8: // large pages of distinct, poorly compressible values
		ns := []int{400, 600}
		if x.Tier == "thorough" {
			ns = []int{300, 400, 513, 600, 1000, 3000}
		}
		n := ns[x.Choose(len(ns), "bign")]
		base := []int{1, 0}[x.Choose(2, "bigbase")]
		x.Descf("rows=varied(r%d) x%d", base, n)
		out := make([]any, n)
		for i := range out {
			out[i] = varyRow(rt.Rows[base], i)
		}
		return out, true
	case 7: // triples
		if x.Tier != "thorough" {
			return nil, false
		}
		i, j, k := pick("row"), pick("row2"), pick("row3")
		x.Descf("rows=[r%d r%d r%d]", i, j, k)
		return []any{rt.Rows[i], rt.Rows[j], rt.Rows[k]}, true
	}
	return nil, false
}

// chooseHistory picks cut positions and flushes for n rows.
func chooseHistory(x *engine.X, n int) (cuts []int, flush []bool) {
	if n <= 1 {
		return nil, nil
	}
	var cands [][]int
	if n <= 3 {
		// all compositions
		for mask := 0; mask < 1<<(n-1); mask++ {
			var c []int
			for b := 0; b < n-1; b++ {
				if mask&(1<<b) != 0 {
					c = append(c, b+1)
				}
			}
			cands = append(cands, c)
		}
	} else {
		// longer sequences: a cut is a deviation from "one Write call"
		cands = [][]int{nil, {1}, {n / 2}, {n - 1}, {n / 2, n/2 + 1}}
		if n > 64 {
			cands = append(cands, []int{64}, []int{63}, []int{65})
		}
		cuts = cands[x.Deviate(len(cands), "hist.cuts")]
		if len(cuts) == 0 {
			return nil, nil
		}
		fm := x.Choose(1<<len(cuts), "hist.flush")
		for i := range cuts {
			flush = append(flush, fm&(1<<i) != 0)
		}
		x.Descf("cuts=%v flush=%v", cuts, flush)
		return
	}
	cuts = cands[x.Choose(len(cands), "hist.cuts")]
	if len(cuts) == 0 {
		return nil, nil
	}
	fm := x.Choose(1<<len(cuts), "hist.flush")
	for i := range cuts {
		flush = append(flush, fm&(1<<i) != 0)
	}
	x.Descf("cuts=%v flush=%v", cuts, flush)
	return
}

func readViaRows(rt *RT, data []byte) ([]any, error) {
	f, err := parquet.OpenFile(bytes.NewReader(data), int64(len(data)))
	if err != nil {
		return nil, fmt.Errorf("OpenFile: %w", err)
	}
	schema := rt.SchemaOf()
	var out []any
	for _, rg := range f.RowGroups() {
		rows := rg.Rows()
		buf := make([]parquet.Row, 3)
		for guard := 0; guard < 1000000; guard++ {
			n, err := rows.ReadRows(buf)
			for i := 0; i < n; i++ {
				p := rt.New()
				if rerr := schema.Reconstruct(p, buf[i]); rerr != nil {
					rows.Close()
					return out, fmt.Errorf("Reconstruct: %w", rerr)
				}
				out = append(out, rt.Deref(p))
			}
			if err == io.EOF {
				break
			}
			if err != nil {
				rows.Close()
				return out, fmt.Errorf("ReadRows: %w", err)
			}
			if n == 0 {
				rows.Close()
				return out, fmt.Errorf("ReadRows returned 0, nil")
			}
		}
		rows.Close()
	}
	return out, nil
}

// fileShape reports non-vacuity facts about a written file.
func fileShape(x *engine.X, data []byte) {
	f, err := parquet.OpenFile(bytes.NewReader(data), int64(len(data)))
	if err != nil {
		return
	}
	if len(f.RowGroups()) >= 2 {
		x.Count("files>=2rowgroups")
	}
	multi := false
	for _, rg := range f.RowGroups() {
		for _, cc := range rg.ColumnChunks() {
			if oi, err := cc.OffsetIndex(); err == nil && oi != nil && oi.NumPages() >= 2 {
				multi = true
			}
		}
	}
	if multi {
		x.Count("files>=2pages")
	}
	for _, rg := range f.Metadata().RowGroups {
		for _, c := range rg.Columns {
			d, p := false, false
			for _, es := range c.MetaData.EncodingStats {
				if es.PageType == 0 || es.PageType == 3 {
					if es.Encoding == 8 || es.Encoding == 2 {
						d = true
					} else {
						p = true
					}
				}
			}
			if d && p {
				x.Count("chunks-with-dictionary-fallback")
				return
			}
		}
	}
}

func c01Run(x *engine.X) {
	root := x.Choose(len(rowTypes)*c01SeqKinds, "type*seqkind")
	rt := rowTypes[root/c01SeqKinds]
	kind := root % c01SeqKinds
	x.Descf("type=%s", rt.Name)
	rows, ok := chooseRowSeq(x, rt, kind)
	if !ok {
		return
	}
	cuts, flush := chooseHistory(x, len(rows))
	cfg := chooseWriterOptions(x, rt.SchemaOf(), tmpDir)

	var buf bytes.Buffer
	shape := fmt.Sprintf("type=%s;opts=%s", rt.Name, strings.Join(cfg.desc, ","))
	if err := rt.WriteGeneric(&buf, cfg.opts, rows, cuts, flush); err != nil {
		// a writer that rejects rows is outside the statement ("accepted by a
		// writer ... successful Close"), but none of the enumerated rows is
		// invalid for its schema: report.
		x.Failf("write-error", shape, "write failed: %v", err)
		return
	}
	data := buf.Bytes()
	if len(rows) >= 2 {
		x.Nontrivial(fmt.Sprintf("%d|%s", root, x.Describe()))
	}
	fileShape(x, data)

	check := func(path string, got []any, err error) bool {
		if err != nil {
			x.Failf("read-error", shape+";path="+path, "%s: %v", path, err)
			return false
		}
		if ok, why := rowsEqual(rows, got); !ok {
			x.Failf("mismatch", shape+";path="+path+";field="+fieldOfDiff(why), "%s: %s", path, why)
			return false
		}
		return true
	}
	got, err := rt.ReadAll(data)
	if !check("Read[T]", got, err) {
		return
	}
	bss := []int{1, 2, len(rows) + 1}
	if len(rows) > 8 {
		bss = []int{7, 64, len(rows) + 1}
	}
	for _, b := range bss {
		x.AddEvals(1)
		got, err = rt.ReadBatched(data, b)
		if !check(fmt.Sprintf("GenericReader(batch=%d)", b), got, err) {
			return
		}
	}
	got, err = readViaRows(rt, data)
	if !check("Rows+Reconstruct", got, err) {
		return
	}
	x.Outcome(fmt.Sprint(len(data)))
	_ = reflect.TypeOf
}

func init() {
	Register(&engine.Prop{
		ID:    "C01",
		Level: "exploration",
		Rule: "26 Go row types (all documented tag/shape combinations two levels deep) x row sequences {empty, each alphabet row, all rows, reversed, pairs, 2- and 3-run patterns with run lengths around 8/64/128, triples (thorough)} over one-factor-at-a-time boundary-value row alphabets x all Write/Flush histories for n<=3 (threshold cuts beyond) x writer option lattice (19 axes) within the deviation bound x 3 read batch sizes; " +
			"non-trivial = file with >=2 rows; distinct by full case description",
		Assumptions: []string{
			"an optional non-pointer float holding -0.0 may read back as -0.0 or +0.0 (the documented zero->null mapping is two-valued there)",
			"Go map-typed rows are compared as maps (entry order is not part of the value)",
			"row alphabets are one-factor-at-a-time around an all-zero and an all-non-zero base row, not the full product of leaf alphabets",
		},
		Bound: func(tier string) int {
			if tier == "thorough" {
				return 2
			}
			return 1
		},
		Run: c01Run,
	})
}
