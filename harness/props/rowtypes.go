package props

import (
	"bytes"
	"fmt"
	"io"
	"math"
	"reflect"
	"sort"
	"strings"
	"time"

	"github.com/parquet-go/parquet-go"
	"github.com/parquet-go/parquet-go/deprecated"
)

// ---------------------------------------------------------------------------
// The enumerated Go row types (shape grammar S_2 of DESIGN.md §1.8): every
// documented way of combining required/optional/pointer/slice/list/map/group
// over the leaf types, two levels deep.
// ---------------------------------------------------------------------------

type TScalars struct {
	B   bool
	I32 int32
	I64 int64
	F32 float32
	F64 float64
	S   string
}
type TScalars2 struct {
	U32 uint32
	U64 uint64
	I8  int8
	U16 uint16
	I   int
	Y   []byte
	A16 [16]byte `parquet:",uuid"`
	A3  [3]byte
}
type TOptScalars struct {
	B   bool    `parquet:",optional"`
	I32 int32   `parquet:",optional"`
	I64 int64   `parquet:",optional"`
	F32 float32 `parquet:",optional"`
	F64 float64 `parquet:",optional"`
	S   string  `parquet:",optional"`
}
type TOptScalars2 struct {
	U32 uint32   `parquet:",optional"`
	U64 uint64   `parquet:",optional"`
	I8  int8     `parquet:",optional"`
	Y   []byte   `parquet:",optional"`
	A16 [16]byte `parquet:",optional,uuid"`
	A3  [3]byte  `parquet:",optional"`
}
type TPointers struct {
	PB   *bool
	PI32 *int32
	PI64 *int64
	PF64 *float64
	PS   *string
	PU32 *uint32
}
type TEncodings struct {
	DI32  int32   `parquet:",delta"`
	DI64  int64   `parquet:",delta"`
	DS    string  `parquet:",delta"`
	DictS string  `parquet:",dict"`
	DictI int64   `parquet:",dict"`
	SF32  float32 `parquet:",split"`
	SF64  float64 `parquet:",split"`
	DY    []byte  `parquet:",delta"`
}
type TOptEncodings struct {
	DI32  int32   `parquet:",delta,optional"`
	DS    string  `parquet:",delta,optional"`
	DictS string  `parquet:",dict,optional"`
	DictF float64 `parquet:",dict,optional"`
	DictB bool    `parquet:",dict,optional"`
	SF64  float64 `parquet:",split,optional"`
	PDS   *string `parquet:",dict"`
	DU32  uint32  `parquet:",dict"`
}
type TLogical struct {
	Dec32 int32     `parquet:",decimal(2:9)"`
	Dec64 int64     `parquet:",decimal(2:18)"`
	Date  int32     `parquet:",date"`
	TS    int64     `parquet:",timestamp(microsecond)"`
	T     time.Time `parquet:",timestamp(microsecond)"`
	J     string    `parquet:",json"`
	E     string    `parquet:",enum"`
	I96   deprecated.Int96
}
type TSlices struct {
	L []int32
	S []string
	F []float64
}
type TLists struct {
	L []int32  `parquet:",list"`
	S []string `parquet:",list"`
}
type TOptList struct {
	L  []int64  `parquet:",list,optional"`
	LP []*int64 `parquet:",list" parquet-element:",optional"`
}
type TOptSlice struct {
	L []int32  `parquet:",optional"`
	S []string `parquet:",optional,dict"`
}
type tInner struct {
	X int32
	Y string
}
type tInnerOpt struct {
	X int32  `parquet:",optional"`
	Y string `parquet:",optional"`
}
type TNested struct {
	A tInner
	B *tInnerOpt
	C *tInner
}
type tKV struct {
	K string
	V *int64
}
type TSliceOfStruct struct {
	ID    int64
	Items []tKV
}
type TListOfStruct struct {
	Items []tKV `parquet:",list"`
	Tail  string
}
type TSliceOfSlice struct {
	M [][]int32
}
type TListOfList struct {
	M [][]string `parquet:",list"`
}
type TMap struct {
	M map[string]int32
}
type TMapOfStruct struct {
	M map[string]tInnerOpt
	N int32
}
type TMapOfSlice struct {
	M map[int32][]string
}
type TEmb struct {
	EA int32
	EB *string
}
type TEmbedded struct {
	TEmb
	Z float64
}
type TEmbeddedMid struct {
	ID int64
	TEmb
	S string `parquet:",optional"`
}
type tDeepL struct {
	A *string
	N []int32
}
type tDeepP struct {
	L []tDeepL
}
type TDeep struct {
	ID int64
	P  *tDeepP
}
type TBoolRuns struct {
	B  bool
	OB bool `parquet:",optional"`
	PB *bool
	LB []bool
}
type TStrings struct {
	A string `parquet:",dict"`
	B string `parquet:",optional"`
	C []byte `parquet:",dict"`
	D string
}
type TFloatsOnly struct {
	F32  float32
	OF32 float32 `parquet:",optional"`
	F64  float64 `parquet:",dict"`
	LF   []float32
}
type TPtrStructList struct {
	P *struct {
		L []string `parquet:",list"`
		Q *struct{ Z *int32 }
	}
}

type tDictSub struct {
	Tags []string `parquet:",dict"`
}
type TDictNested struct {
	Sub *tDictSub
	OL  []string  `parquet:",list,optional,dict"`
	LP  []*string `parquet:",list,dict" parquet-element:",optional"`
	K   string    `parquet:",dict"`
}
type TDictFixed struct {
	U  [16]byte `parquet:",uuid,dict"`
	A4 [4]byte  `parquet:",dict"`
	S  string   `parquet:",dict"`
	I  int64    `parquet:",dict"`
	OU [16]byte `parquet:",uuid,dict,optional"`
}

// TIntTags: Go integer types stored in wider (or explicitly sized) parquet
// integer columns through the documented int(N) / uint(N) tag options.
type TIntTags struct {
	A int32  `parquet:",int(64)"`
	B uint32 `parquet:",uint(64)"`
	C int    `parquet:",int(64)"`
	D *int32 `parquet:",int(64)"`
	E int32  `parquet:",optional,int(64)"`
	F int16  `parquet:",int(32)"`
	G int8   `parquet:",int(16)"`
	H uint16 `parquet:",uint(32)"`
}

// TFixedArrays: fixed-length byte arrays of lengths around the 8- and 16-byte
// kernels, optional (null when all bytes are zero) and required.
type TFixedArrays struct {
	A3  [3]byte  `parquet:",optional"`
	A8  [8]byte  `parquet:",optional"`
	A9  [9]byte  `parquet:",optional"`
	A12 [12]byte `parquet:",optional"`
	A13 [13]byte `parquet:",optional"`
	A20 [20]byte `parquet:",optional"`
	A24 [24]byte `parquet:",optional"`
	R17 [17]byte
}

// TEmbedded3: struct embedding three levels deep, several fields in the deepest one.
type TEmb3C struct {
	X int32
	Y string
	Z *int64
}
type TEmb3B struct {
	TEmb3C
	B int32
}
type TEmb3A struct {
	TEmb3B
	A string `parquet:",optional"`
}
type TEmbedded3 struct {
	ID int64
	TEmb3A
	W float64
}

// TMapMore: map values that are arrays (referenced, not copied, when
// deconstructed) and optional non-pointer values.
type TMapMore struct {
	MA map[string][4]byte
	MU map[string][16]byte
	MO map[string]string `parquet:"," parquet-value:",optional"`
}

// TIntervals: the INTERVAL logical type on its Go struct.
type TIntervals struct {
	ID int32
	I  parquet.Interval `parquet:",interval"`
}

type tTimeIn struct {
	T time.Time `parquet:",optional"`
	N int32
}

// TTimeLogical: Go time types on the logical types the schema accepts for them.
type TTimeLogical struct {
	D    time.Time      `parquet:",date"`
	DP   *time.Time     `parquet:",date"`
	TSm  time.Time      `parquet:",timestamp(millisecond)"`
	TSn  time.Time      `parquet:",timestamp(nanosecond)"`
	U    string         `parquet:",uuid"`
	Dur  time.Duration  `parquet:",time(millisecond)"`
	DurU time.Duration  `parquet:",time(microsecond)"`
	DurN time.Duration  `parquet:",time(nanosecond)"`
	DurP *time.Duration `parquet:",time(millisecond)"`
	P    *tTimeIn
	L    []tTimeIn
}
type tOptInner struct {
	X int32
	Y string
}
type TOptStruct struct {
	A  tOptInner `parquet:",optional"`
	ID int64
}

// TJSON: columns holding the JSON encoding of a Go value (struct with slice and
// pointer members, slice). No strings or floats inside: invalid UTF-8 and NaN
// have no JSON form.
type tJSONLeaf struct {
	V int32 `json:"v"`
}
type tJSONIn struct {
	N int64      `json:"n"`
	L []int32    `json:"l"`
	P *tJSONLeaf `json:"p,omitempty"`
	B bool       `json:"b"`
}
type TJSON struct {
	ID int64
	J  tJSONIn `parquet:",json"`
	JL []int64 `parquet:",json"`
}

// RT is one row type with thunks instantiating the generic entry points.
type RT struct {
	Name string
	Type reflect.Type
	Rows []any // row alphabet (values of the Go type, boxed)
	// ExplicitSchema: the type has interface-typed fields and is used with a
	// schema given to every entry point (C03 only: what such a field reads back
	// as is not part of the documented mapping)
	ExplicitSchema bool
	// NoReassembly: Reconstruct(Deconstruct(v)) is not v by design of the
	// column types (values stored at a coarser precision)
	NoReassembly bool

	SchemaOf     func() *parquet.Schema
	WriteGeneric func(out io.Writer, opts []parquet.WriterOption, rows []any, cuts []int, flush []bool) error
	WriteAny     func(out io.Writer, opts []parquet.WriterOption, rows []any, cuts []int, flush []bool) error
	// WriteMixed alternates, batch by batch, between the typed Write and
	// WriteRows(Deconstruct) on ONE GenericWriter (typedFirst says which starts).
	WriteMixed func(out io.Writer, rows []any, cuts []int, typedFirst bool) error
	// GenericBufferPeek fills a GenericBuffer batch by batch and, between
	// batches, looks at its pages and rows.
	GenericBufferPeek func(rows []any, cuts []int) (parquet.RowGroup, error)
	// AppendTo writes more rows to a buffer made by GenericBuffer or RowBuffer.
	AppendTo      func(rg parquet.RowGroup, rows []any) error
	ReadAll       func(data []byte) ([]any, error)
	ReadBatched   func(data []byte, batch int) ([]any, error)
	GenericBuffer func(rows []any, cuts []int, opts ...parquet.RowGroupOption) (parquet.RowGroup, sort.Interface, error)
	RowBuffer     func(rows []any, cuts []int, opts ...parquet.RowGroupOption) (parquet.RowGroup, sort.Interface, error)
	SortingWrite  func(out io.Writer, rows []any, cuts []int, sortRun int64, opts ...parquet.WriterOption) error
	New           func() any // pointer to a zero T
	Deref         func(p any) any
}

func box[T any](ts []T) []any {
	out := make([]any, len(ts))
	for i := range ts {
		out[i] = ts[i]
	}
	return out
}

func unbox[T any](rows []any) []T {
	out := make([]T, len(rows))
	for i := range rows {
		out[i] = rows[i].(T)
	}
	return out
}

// batches turns cut positions into [lo,hi) ranges.
func batches(n int, cuts []int) [][2]int {
	var out [][2]int
	lo := 0
	for _, c := range cuts {
		if c > lo && c < n {
			out = append(out, [2]int{lo, c})
			lo = c
		}
	}
	out = append(out, [2]int{lo, n})
	return out
}

func mkRT[T any](name string) *RT { return mkRTWith[T](name, nil, nil) }

// mkRTWith: sc, if not nil, is an explicit schema handed to every entry point
// (row types with interface-typed fields have no schema of their own); rows is
// then the hand-built row alphabet.
func mkRTWith[T any](name string, sc func() *parquet.Schema, rows []any) *RT {
	rt := &RT{Name: name, Type: reflect.TypeOf((*T)(nil)).Elem()}
	wopt := func(opts []parquet.WriterOption) []parquet.WriterOption {
		if sc == nil {
			return opts
		}
		return append([]parquet.WriterOption{sc()}, opts...)
	}
	gopt := func(opts []parquet.RowGroupOption) []parquet.RowGroupOption {
		if sc == nil {
			return opts
		}
		return append([]parquet.RowGroupOption{sc()}, opts...)
	}
	if sc == nil {
		rt.Rows = rows
		if rows == nil {
			rt.Rows = rowAlphabet(rt.Type)
		}
		rt.SchemaOf = func() *parquet.Schema { return parquet.SchemaOf(new(T)) }
	} else {
		rt.Rows = rows
		rt.SchemaOf = sc
		rt.ExplicitSchema = true
	}
	rt.New = func() any { return new(T) }
	rt.Deref = func(p any) any { return *(p.(*T)) }
	rt.WriteGeneric = func(out io.Writer, opts []parquet.WriterOption, rows []any, cuts []int, flush []bool) error {
		w := parquet.NewGenericWriter[T](out, wopt(opts)...)
		ts := unbox[T](rows)
		for bi, b := range batches(len(ts), cuts) {
			if bi > 0 && bi-1 < len(flush) && flush[bi-1] {
				if err := w.Flush(); err != nil {
					return fmt.Errorf("Flush: %w", err)
				}
			}
			n, err := w.Write(ts[b[0]:b[1]])
			if err != nil {
				return fmt.Errorf("Write: %w", err)
			}
			if n != b[1]-b[0] {
				return fmt.Errorf("Write returned %d for %d rows", n, b[1]-b[0])
			}
		}
		return w.Close()
	}
	rt.WriteMixed = func(out io.Writer, rows []any, cuts []int, typedFirst bool) error {
		w := parquet.NewGenericWriter[T](out, wopt(nil)...)
		schema := rt.SchemaOf()
		ts := unbox[T](rows)
		for bi, b := range batches(len(ts), cuts) {
			if (bi%2 == 0) == typedFirst {
				if n, err := w.Write(ts[b[0]:b[1]]); err != nil || n != b[1]-b[0] {
					return fmt.Errorf("Write: %d, %v", n, err)
				}
			} else {
				var prs []parquet.Row
				for i := b[0]; i < b[1]; i++ {
					prs = append(prs, schema.Deconstruct(nil, &ts[i]))
				}
				if n, err := w.WriteRows(prs); err != nil || n != len(prs) {
					return fmt.Errorf("WriteRows: %d, %v", n, err)
				}
			}
		}
		return w.Close()
	}
	rt.WriteAny = func(out io.Writer, opts []parquet.WriterOption, rows []any, cuts []int, flush []bool) error {
		opts = append([]parquet.WriterOption{rt.SchemaOf()}, opts...)
		w := parquet.NewWriter(out, opts...)
		ts := unbox[T](rows)
		for bi, b := range batches(len(ts), cuts) {
			if bi > 0 && bi-1 < len(flush) && flush[bi-1] {
				if err := w.Flush(); err != nil {
					return fmt.Errorf("Flush: %w", err)
				}
			}
			for i := b[0]; i < b[1]; i++ {
				if err := w.Write(&ts[i]); err != nil {
					return fmt.Errorf("Write: %w", err)
				}
			}
		}
		return w.Close()
	}
	rt.ReadAll = func(data []byte) ([]any, error) {
		ts, err := parquet.Read[T](bytes.NewReader(data), int64(len(data)))
		return box(ts), err
	}
	rt.ReadBatched = func(data []byte, batch int) ([]any, error) {
		r := parquet.NewGenericReader[T](bytes.NewReader(data))
		defer r.Close()
		var all []T
		for guard := 0; guard < 100000; guard++ {
			buf := make([]T, batch)
			n, err := r.Read(buf)
			all = append(all, buf[:n]...)
			if err == io.EOF {
				return box(all), nil
			}
			if err != nil {
				return box(all), err
			}
			if n == 0 {
				return box(all), fmt.Errorf("Read returned 0, nil")
			}
		}
		return box(all), fmt.Errorf("reader never reached EOF")
	}
	rt.GenericBuffer = func(rows []any, cuts []int, opts ...parquet.RowGroupOption) (parquet.RowGroup, sort.Interface, error) {
		b := parquet.NewGenericBuffer[T](gopt(opts)...)
		ts := unbox[T](rows)
		for _, r := range batches(len(ts), cuts) {
			if _, err := b.Write(ts[r[0]:r[1]]); err != nil {
				return nil, nil, err
			}
		}
		return b, b, nil
	}
	rt.GenericBufferPeek = func(rows []any, cuts []int) (parquet.RowGroup, error) {
		b := parquet.NewGenericBuffer[T](gopt(nil)...)
		ts := unbox[T](rows)
		bs := batches(len(ts), cuts)
		for bi, r := range bs {
			if _, err := b.Write(ts[r[0]:r[1]]); err != nil {
				return nil, err
			}
			if bi == len(bs)-1 {
				break
			}
			// observe the buffer between writes: pages of every column and all rows
			for _, c := range b.ColumnBuffers() {
				if p := c.Page(); p != nil {
					_ = p.NumValues()
				}
			}
			rr := b.Rows()
			buf := make([]parquet.Row, 7)
			for {
				_, err := rr.ReadRows(buf)
				if err != nil {
					break
				}
			}
			rr.Close()
		}
		return b, nil
	}
	rt.AppendTo = func(rg parquet.RowGroup, rows []any) error {
		w, ok := rg.(interface{ Write([]T) (int, error) })
		if !ok {
			return fmt.Errorf("%T has no typed Write", rg)
		}
		ts := unbox[T](rows)
		n, err := w.Write(ts)
		if err == nil && n != len(ts) {
			err = fmt.Errorf("Write returned %d for %d rows", n, len(ts))
		}
		return err
	}
	rt.SortingWrite = func(out io.Writer, rows []any, cuts []int, sortRun int64, opts ...parquet.WriterOption) error {
		w := parquet.NewSortingWriter[T](out, sortRun, wopt(opts)...)
		ts := unbox[T](rows)
		for _, r := range batches(len(ts), cuts) {
			if _, err := w.Write(ts[r[0]:r[1]]); err != nil {
				return err
			}
		}
		return w.Close()
	}
	rt.RowBuffer = func(rows []any, cuts []int, opts ...parquet.RowGroupOption) (parquet.RowGroup, sort.Interface, error) {
		b := parquet.NewRowBuffer[T](gopt(opts)...)
		ts := unbox[T](rows)
		for _, r := range batches(len(ts), cuts) {
			if _, err := b.Write(ts[r[0]:r[1]]); err != nil {
				return nil, nil, err
			}
		}
		return b, b, nil
	}
	return rt
}

var rowTypes = []*RT{
	mkRT[TJSON]("JSON"),
	mkRT[TScalars]("Scalars"), mkRT[TScalars2]("Scalars2"), mkRT[TOptScalars]("OptScalars"), mkRT[TOptScalars2]("OptScalars2"),
	mkRT[TPointers]("Pointers"), mkRT[TEncodings]("Encodings"), mkRT[TOptEncodings]("OptEncodings"), mkRT[TLogical]("Logical"),
	mkRT[TSlices]("Slices"), mkRT[TLists]("Lists"), mkRT[TOptList]("OptList"), mkRT[TOptSlice]("OptSlice"),
	mkRT[TNested]("Nested"), mkRT[TSliceOfStruct]("SliceOfStruct"), mkRT[TListOfStruct]("ListOfStruct"),
	mkRT[TListOfList]("ListOfList"), mkRT[TMap]("Map"), mkRT[TMapOfStruct]("MapOfStruct"),
	mkRT[TMapOfSlice]("MapOfSlice"), mkRT[TEmbedded]("Embedded"), mkRT[TDeep]("Deep"), mkRT[TBoolRuns]("BoolRuns"),
	mkRT[TStrings]("Strings"), mkRT[TFloatsOnly]("FloatsOnly"), mkRT[TPtrStructList]("PtrStructList"), mkRT[TDictNested]("DictNested"), mkRT[TOptStruct]("OptStruct"), mkRT[TEmbeddedMid]("EmbeddedMid"), mkRT[TDictFixed]("DictFixed"), mkRT[TIntTags]("IntTags"), mkRT[TFixedArrays]("FixedArrays"), mkRT[TTimeLogical]("TimeLogical"), mkRT[TEmbedded3]("Embedded3"), mkRT[TMapMore]("MapMore"), mkRT[TIntervals]("Intervals"),
}

// ---------------------------------------------------------------------------
// Value alphabets (boundary values) built by reflection.
// ---------------------------------------------------------------------------

var (
	timeType  = reflect.TypeOf(time.Time{})
	int96Type = reflect.TypeOf(deprecated.Int96{})
)

const maxAlpha = 7 // per nested node

var emptyWithData = strings.Repeat("z", 3)[:0]

// emptyWithDataMark stands for emptyWithData in the alphabets: the data
// pointer of an empty string does not survive boxing into an interface
// (reflect.ValueOf), so rows are patched in place once they are built.
const emptyWithDataMark = "\x00empty-with-data\x00"

func patchEmptyWithData(v reflect.Value) {
	switch v.Kind() {
	case reflect.String:
		if v.CanAddr() && v.String() == emptyWithDataMark {
			*(*string)(v.Addr().UnsafePointer()) = emptyWithData
		}
	case reflect.Pointer:
		if !v.IsNil() {
			patchEmptyWithData(v.Elem())
		}
	case reflect.Struct:
		for i := 0; i < v.NumField(); i++ {
			patchEmptyWithData(v.Field(i))
		}
	case reflect.Slice, reflect.Array:
		for i := 0; i < v.Len(); i++ {
			patchEmptyWithData(v.Index(i))
		}
	case reflect.Map:
		for _, k := range v.MapKeys() {
			nv := reflect.New(v.Type().Elem()).Elem()
			nv.Set(v.MapIndex(k))
			patchEmptyWithData(nv)
			if k.Kind() == reflect.String && k.String() == emptyWithDataMark {
				v.SetMapIndex(k, reflect.Value{})
				k = reflect.ValueOf("").Convert(k.Type())
				if v.MapIndex(k).IsValid() {
					continue
				}
			}
			v.SetMapIndex(k, nv)
		}
	}
}

func leafAlphabet(t reflect.Type) []reflect.Value {
	v := func(xs ...any) []reflect.Value {
		out := make([]reflect.Value, len(xs))
		for i, x := range xs {
			out[i] = reflect.ValueOf(x).Convert(t)
		}
		return out
	}
	switch t {
	case timeType:
		return []reflect.Value{
			reflect.ValueOf(time.Unix(0, 0).UTC()),
			reflect.ValueOf(time.Date(2024, 2, 29, 23, 59, 59, 999999000, time.UTC)),
			reflect.ValueOf(time.Date(1901, 1, 1, 0, 0, 0, 1000, time.UTC)),
		}
	case int96Type:
		return []reflect.Value{
			reflect.ValueOf(deprecated.Int96{}),
			reflect.ValueOf(deprecated.Int96{1, 2, 3}),
			reflect.ValueOf(deprecated.Int96{0xffffffff, 0xffffffff, 0x7fffffff}),
			reflect.ValueOf(deprecated.Int96{0, 0, 0x80000000}),
		}
	}
	switch t.Kind() {
	case reflect.Bool:
		return v(false, true)
	case reflect.Int8:
		return v(int8(0), int8(1), int8(-1), int8(math.MinInt8), int8(math.MaxInt8))
	case reflect.Int16:
		return v(int16(0), int16(1), int16(-1), int16(math.MinInt16), int16(math.MaxInt16))
	case reflect.Int32:
		return v(int32(0), int32(1), int32(-1), int32(math.MinInt32), int32(math.MaxInt32))
	case reflect.Int64, reflect.Int:
		return v(int64(0), int64(1), int64(-1), int64(math.MinInt64), int64(math.MaxInt64))
	case reflect.Uint8:
		return v(uint8(0), uint8(1), uint8(0xff), uint8(0x80))
	case reflect.Uint16:
		return v(uint16(0), uint16(1), uint16(0xffff), uint16(0x8000))
	case reflect.Uint32:
		return v(uint32(0), uint32(1), uint32(math.MaxUint32), uint32(1<<31))
	case reflect.Uint64, reflect.Uint:
		return v(uint64(0), uint64(1), uint64(math.MaxUint64), uint64(1<<63))
	case reflect.Float32:
		return v(float32(0), float32(1.5), float32(math.Copysign(0, -1)), float32(math.Inf(-1)),
			math.Float32frombits(0x7fc00000), math.Float32frombits(0x7fa00001), float32(math.MaxFloat32), math.Float32frombits(1))
	case reflect.Float64:
		return v(float64(0), float64(1.5), math.Copysign(0, -1), math.Inf(-1), math.Inf(1),
			math.Float64frombits(0x7ff8000000000000), math.Float64frombits(0x7ff4000000000001), math.MaxFloat64, math.Float64frombits(1))
	case reflect.String:
		// emptyWithData: an empty string whose data pointer is not nil (what
		// TrimSpace, Cut, s[:0] return) - still the zero value of the type
		return v("", "a", emptyWithDataMark, "ab", strings.Repeat("a", 9)+"b", strings.Repeat("\xff", 40), strings.Repeat("xyz", 100), "PAR1")
	}
	return nil
}

var durationType = reflect.TypeOf(time.Duration(0))

// fieldAlphabet is alphabet() for a struct field, except where the parquet tag
// narrows the values the field can represent: UUID text in a string, calendar
// days, times of day and timestamps at the precision of the column.
func fieldAlphabet(f reflect.StructField) []reflect.Value {
	tag := f.Tag.Get("parquet")
	t := f.Type
	elem := t
	if t.Kind() == reflect.Pointer {
		elem = t.Elem()
	}
	var base []reflect.Value
	switch {
	case strings.Contains(tag, "uuid") && elem.Kind() == reflect.String:
		for _, u := range []string{"00000000-0000-0000-0000-000000000000", "00112233-4455-6677-8899-aabbccddeeff", "ffffffff-ffff-ffff-ffff-ffffffffffff", "80000000-0000-0000-0000-000000000001"} {
			base = append(base, reflect.ValueOf(u))
		}
	case elem == timeType && strings.Contains(tag, "date"):
		for _, d := range []time.Time{time.Unix(0, 0).UTC(), time.Date(2024, 2, 29, 0, 0, 0, 0, time.UTC), time.Date(1969, 12, 31, 0, 0, 0, 0, time.UTC), time.Date(9999, 12, 31, 0, 0, 0, 0, time.UTC)} {
			base = append(base, reflect.ValueOf(d))
		}
	case elem == timeType && strings.Contains(tag, "timestamp(millisecond)"):
		for _, d := range []time.Time{time.Unix(0, 0).UTC(), time.Date(2024, 2, 29, 23, 59, 59, 999000000, time.UTC), time.Date(1969, 12, 31, 23, 59, 59, 999000000, time.UTC), time.Date(3000, 1, 1, 0, 0, 0, 1000000, time.UTC), time.Date(1000, 6, 15, 12, 0, 0, 0, time.UTC)} {
			base = append(base, reflect.ValueOf(d))
		}
	case elem == durationType && strings.Contains(tag, "time("):
		for _, d := range []time.Duration{0, 1500 * time.Millisecond, 24*time.Hour - time.Millisecond, time.Millisecond} {
			base = append(base, reflect.ValueOf(d))
		}
	default:
		return alphabet(t)
	}
	if t.Kind() != reflect.Pointer {
		return base
	}
	out := []reflect.Value{reflect.Zero(t)}
	for _, e := range base {
		p := reflect.New(elem)
		p.Elem().Set(e)
		out = append(out, p)
	}
	return out
}

func alphabet(t reflect.Type) []reflect.Value {
	if t == timeType || t == int96Type {
		return leafAlphabet(t)
	}
	switch t.Kind() {
	case reflect.Pointer:
		out := []reflect.Value{reflect.Zero(t)}
		for _, e := range alphabet(t.Elem()) {
			p := reflect.New(t.Elem())
			p.Elem().Set(e)
			out = append(out, p)
		}
		return capAlpha(out)
	case reflect.Slice:
		if t.Elem().Kind() == reflect.Uint8 { // []byte leaf
			return []reflect.Value{
				reflect.Zero(t), reflect.ValueOf([]byte("a")).Convert(t), reflect.ValueOf([]byte{}).Convert(t),
				reflect.ValueOf([]byte("ab")).Convert(t), reflect.ValueOf(bytes.Repeat([]byte{0xff}, 40)).Convert(t),
				reflect.ValueOf(bytes.Repeat([]byte("xyz"), 100)).Convert(t), reflect.ValueOf([]byte{0}).Convert(t),
			}
		}
		ea := alphabet(t.Elem())
		mk := func(idx ...int) reflect.Value {
			s := reflect.MakeSlice(t, 0, len(idx))
			for _, i := range idx {
				s = reflect.Append(s, ea[i%len(ea)])
			}
			return s
		}
		out := []reflect.Value{reflect.Zero(t), mk(1), mk(), mk(0), mk(0, 1), mk(1, 0, 2), mk(2, 3, 4, 5, 6)}
		return out
	case reflect.Array:
		if t.Elem().Kind() == reflect.Uint8 {
			n := t.Len()
			a0 := reflect.New(t).Elem()
			a1 := reflect.New(t).Elem()
			a2 := reflect.New(t).Elem()
			a3 := reflect.New(t).Elem()
			for i := 0; i < n; i++ {
				a1.Index(i).SetUint(uint64(i + 1))
				a2.Index(i).SetUint(0xff)
			}
			a3.Index(n - 1).SetUint(1)
			return []reflect.Value{a0, a1, a2, a3}
		}
	case reflect.Map:
		ka, va := alphabet(t.Key()), alphabet(t.Elem())
		mk := func(idx ...int) reflect.Value {
			m := reflect.MakeMap(t)
			for _, i := range idx {
				m.SetMapIndex(ka[i%len(ka)], va[(i+1)%len(va)])
			}
			return m
		}
		return []reflect.Value{reflect.Zero(t), mk(1), mk(), mk(0), mk(0, 1, 2), mk(2, 3)}
	case reflect.Struct:
		return capAlpha(structAlphabet(t))
	}
	return leafAlphabet(t)
}

func capAlpha(a []reflect.Value) []reflect.Value {
	if len(a) > maxAlpha {
		return a[:maxAlpha]
	}
	return a
}

// structAlphabet: zero base, non-zero base, then one factor at a time around
// both bases.
func structAlphabet(t reflect.Type) []reflect.Value {
	n := t.NumField()
	fa := make([][]reflect.Value, n)
	for i := 0; i < n; i++ {
		fa[i] = fieldAlphabet(t.Field(i))
	}
	mk := func(base int, f int, alt int) reflect.Value {
		v := reflect.New(t).Elem()
		for i := 0; i < n; i++ {
			a := fa[i]
			k := base
			if i == f {
				k = alt
			}
			v.Field(i).Set(a[k%len(a)])
		}
		return v
	}
	out := []reflect.Value{mk(0, -1, 0), mk(1, -1, 0)}
	// round-robin over the fields so that a cap on the number of rows keeps
	// the first alternatives of every field rather than all alternatives of
	// the first fields
	for alt, more := 2, true; more; alt++ {
		more = false
		for f := 0; f < n; f++ {
			if alt < len(fa[f]) {
				out = append(out, mk(0, f, alt))
				more = true
			}
		}
	}
	for f := 0; f < n; f++ {
		out = append(out, mk(1, f, 0))
		if len(fa[f]) > 2 {
			out = append(out, mk(1, f, 2))
		}
	}
	for f := 0; f < n; f++ {
		out = append(out, mk(0, f, 1))
	}
	return out
}

func rowAlphabet(t reflect.Type) []any {
	vals := structAlphabet(t)
	if len(vals) > 48 {
		vals = vals[:48]
	}
	out := make([]any, len(vals))
	for i, v := range vals {
		patchEmptyWithData(v)
		out[i] = v.Interface()
	}
	return out
}

// ---------------------------------------------------------------------------
// Normalised equality (model.Normalize + model.Equal of the design).
// ---------------------------------------------------------------------------

// eqNorm compares a written value with a read value under the documented Go
// mapping: nil == empty for slices and maps; floats by bit pattern; an
// `optional` non-pointer float holding -0.0 may come back as -0.0 or +0.0
// (null), the mapping being two-valued there.
func eqNorm(w, r reflect.Value, optional bool) (bool, string) {
	t := w.Type()
	if t == timeType {
		wt, rtm := w.Interface().(time.Time), r.Interface().(time.Time)
		if wt.UnixNano() != rtm.UnixNano() {
			return false, fmt.Sprintf("time %v != %v", wt, rtm)
		}
		return true, ""
	}
	switch t.Kind() {
	case reflect.Float32, reflect.Float64:
		wb, rb := math.Float64bits(w.Float()), math.Float64bits(r.Float())
		if t.Kind() == reflect.Float32 {
			wb, rb = uint64(math.Float32bits(float32(w.Float()))), uint64(math.Float32bits(float32(r.Float())))
		}
		if wb == rb {
			return true, ""
		}
		if optional && w.Float() == 0 && r.Float() == 0 && !math.Signbit(r.Float()) {
			return true, "" // -0.0 stored as null
		}
		return false, fmt.Sprintf("float bits %x != %x", wb, rb)
	case reflect.Pointer:
		if w.IsNil() != r.IsNil() {
			return false, fmt.Sprintf("pointer nil-ness %v != %v", w.IsNil(), r.IsNil())
		}
		if w.IsNil() {
			return true, ""
		}
		return eqNorm(w.Elem(), r.Elem(), false)
	case reflect.Slice:
		if w.Len() != r.Len() {
			return false, fmt.Sprintf("slice len %d != %d", w.Len(), r.Len())
		}
		for i := 0; i < w.Len(); i++ {
			if ok, why := eqNorm(w.Index(i), r.Index(i), optional); !ok {
				return false, fmt.Sprintf("[%d]: %s", i, why)
			}
		}
		return true, ""
	case reflect.Array:
		for i := 0; i < w.Len(); i++ {
			if ok, why := eqNorm(w.Index(i), r.Index(i), false); !ok {
				return false, fmt.Sprintf("[%d]: %s", i, why)
			}
		}
		return true, ""
	case reflect.Map:
		if w.Len() != r.Len() {
			return false, fmt.Sprintf("map len %d != %d", w.Len(), r.Len())
		}
		it := w.MapRange()
		for it.Next() {
			rv := r.MapIndex(it.Key())
			if !rv.IsValid() {
				return false, fmt.Sprintf("map key %v missing", it.Key())
			}
			if ok, why := eqNorm(it.Value(), rv, false); !ok {
				return false, fmt.Sprintf("[%v]: %s", it.Key(), why)
			}
		}
		return true, ""
	case reflect.Struct:
		for i := 0; i < t.NumField(); i++ {
			f := t.Field(i)
			opt := strings.Contains(","+f.Tag.Get("parquet")+",", ",optional,")
			if ok, why := eqNorm(w.Field(i), r.Field(i), opt); !ok {
				return false, f.Name + ": " + why
			}
		}
		return true, ""
	case reflect.String:
		if w.String() != r.String() {
			return false, fmt.Sprintf("string %q != %q", trunc(w.String()), trunc(r.String()))
		}
		return true, ""
	case reflect.Bool:
		if w.Bool() != r.Bool() {
			return false, "bool differs"
		}
		return true, ""
	case reflect.Int, reflect.Int8, reflect.Int16, reflect.Int32, reflect.Int64:
		if w.Int() != r.Int() {
			return false, fmt.Sprintf("int %d != %d", w.Int(), r.Int())
		}
		return true, ""
	case reflect.Uint, reflect.Uint8, reflect.Uint16, reflect.Uint32, reflect.Uint64:
		if w.Uint() != r.Uint() {
			return false, fmt.Sprintf("uint %d != %d", w.Uint(), r.Uint())
		}
		return true, ""
	}
	return false, "unsupported kind " + t.Kind().String()
}

func trunc(s string) string {
	if len(s) > 24 {
		return s[:24] + "…"
	}
	return s
}

// rowsEqual compares written and read row lists.
func rowsEqual(w, r []any) (bool, string) {
	if len(w) != len(r) {
		return false, fmt.Sprintf("row count: wrote %d, read %d", len(w), len(r))
	}
	for i := range w {
		if ok, why := eqNorm(reflect.ValueOf(w[i]), reflect.ValueOf(r[i]), false); !ok {
			return false, fmt.Sprintf("row %d: %s", i, why)
		}
	}
	return true, ""
}

// fieldOfDiff extracts the leading field path of a difference message to use
// in shape keys ("row 3: F32: float bits…" -> "F32").
func fieldOfDiff(why string) string {
	parts := strings.Split(why, ": ")
	var keep []string
	for _, p := range parts {
		if strings.HasPrefix(p, "row ") || strings.HasPrefix(p, "[") {
			continue
		}
		if strings.ContainsAny(p, " ") {
			keep = append(keep, maskDigits(strings.SplitN(p, " ", 2)[0]))
			break
		}
		keep = append(keep, p)
	}
	return strings.Join(keep, ".")
}

func maskDigits(s string) string {
	var b strings.Builder
	for _, c := range s {
		if c >= '0' && c <= '9' {
			continue
		}
		b.WriteRune(c)
	}
	return b.String()
}

// varyRow returns a copy of row whose top-level scalar fields hold values
// derived from i by a fixed xorshift sequence (poorly compressible, all
// distinct): used to build large pages deterministically.
func varyRow(row any, i int) any {
	v := reflect.New(reflect.TypeOf(row)).Elem()
	v.Set(reflect.ValueOf(row))
	h := uint64(i+1) * 0x9E3779B97F4A7C15
	next := func() uint64 {
		h ^= h << 13
		h ^= h >> 7
		h ^= h << 17
		return h
	}
	for f := 0; f < v.NumField(); f++ {
		fv := v.Field(f)
		if !fv.CanSet() {
			continue
		}
		// fields whose tag narrows their values: vary within their own alphabet
		sf := v.Type().Field(f)
		// ([16]byte uuid fields take any bytes: they vary freely below)
		if tag := sf.Tag.Get("parquet"); (strings.Contains(tag, "uuid") && sf.Type.Kind() == reflect.String) || strings.Contains(tag, "date") || strings.Contains(tag, "time(") || strings.Contains(tag, "timestamp(millisecond)") {
			if sf.Type.Kind() == reflect.String && strings.Contains(tag, "uuid") {
				a, b := next(), next()
				fv.SetString(fmt.Sprintf("%08x-%04x-%04x-%04x-%012x", uint32(a), uint16(a>>32), uint16(a>>48), uint16(b), b>>16))
			} else if al := fieldAlphabet(sf); len(al) > 0 {
				fv.Set(al[int(next()%uint64(len(al)))])
			}
			continue
		}
		switch fv.Kind() {
		case reflect.Int8, reflect.Int16, reflect.Int32, reflect.Int64, reflect.Int:
			fv.SetInt(int64(next()) >> (64 - fv.Type().Bits()))
		case reflect.Uint8, reflect.Uint16, reflect.Uint32, reflect.Uint64, reflect.Uint:
			fv.SetUint(next() >> (64 - fv.Type().Bits()))
		case reflect.Float64:
			fv.SetFloat(float64(int64(next())>>11) / 1024)
		case reflect.Float32:
			fv.SetFloat(float64(float32(int32(next()) >> 8)))
		case reflect.String:
			fv.SetString(fmt.Sprintf("%x", next()))
		case reflect.Bool:
			fv.SetBool(next()&1 == 1)
		case reflect.Array:
			if fv.Type().Elem().Kind() == reflect.Uint8 {
				for k := 0; k < fv.Len(); k++ {
					if k%8 == 0 {
						next()
					}
					fv.Index(k).SetUint(uint64(byte(h >> (8 * (uint(k) % 8)))))
				}
			}
		case reflect.Slice:
			if fv.Type().Elem().Kind() == reflect.Uint8 {
				fv.SetBytes([]byte(fmt.Sprintf("%x", next())))
			}
		}
	}
	return v.Interface()
}
