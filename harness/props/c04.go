package props

import (
	"bytes"
	"crypto/sha256"
	"encoding/binary"
	"fmt"
	"math"
	"strings"

	"github.com/parquet-go/parquet-go"
	"github.com/parquet-go/parquet-go/deprecated"
	"github.com/parquet-go/parquet-go/encoding"
	"github.com/parquet-go/parquet-go/encoding/rle"

	"verif/engine"
	"verif/pqref"
)

// C04 — page encodings are lossless, match the format spec, and do not depend
// on the kernel selected nor on what the reused output buffers held.

// a value sequence in PLAIN single-value form (pqref's representation)
type c04Seq [][]byte

type c04Pair struct {
	name     string
	enc      func() encoding.Encoding
	encID    int32 // parquet encoding id for pqref
	typ      int32 // parquet physical type id for pqref (-1: levels, -2: dictionary indexes)
	size     int   // fixed length
	alphabet [][]byte
	bitWidth int
}

func le32(v uint32) []byte { b := make([]byte, 4); binary.LittleEndian.PutUint32(b, v); return b }
func le64(v uint64) []byte { b := make([]byte, 8); binary.LittleEndian.PutUint64(b, v); return b }

func c04Pairs() []c04Pair {
	i32 := [][]byte{le32(0), le32(1), le32(0xffffffff), le32(0x80000000), le32(0x7fffffff), le32(12345)}
	i64 := [][]byte{le64(0), le64(1), le64(math.MaxUint64), le64(1 << 63), le64(math.MaxInt64), le64(1 << 40)}
	f32 := [][]byte{le32(0), le32(0x80000000), le32(math.Float32bits(1.5)), le32(0x7fc00000), le32(0x7fa00001), le32(0xff800000)}
	f64 := [][]byte{le64(0), le64(1 << 63), le64(math.Float64bits(-1.5)), le64(0x7ff8000000000000), le64(0x7ff4000000000001), le64(math.Float64bits(math.MaxFloat64))}
	i96 := [][]byte{make([]byte, 12), bytes.Repeat([]byte{0xff}, 12), {1, 0, 0, 0, 2, 0, 0, 0, 3, 0, 0, 0}}
	ba := [][]byte{{}, []byte("a"), []byte("ab"), []byte("abc"), []byte("abd"), bytes.Repeat([]byte{0xff}, 9), []byte("b")}
	fl4 := [][]byte{{0, 0, 0, 0}, {1, 2, 3, 4}, {1, 2, 3, 5}, {0xff, 0xff, 0xff, 0xff}, {1, 2, 0, 0}}
	fl16 := [][]byte{make([]byte, 16), bytes.Repeat([]byte{0xab}, 16), append(bytes.Repeat([]byte{0xab}, 15), 1), bytes.Repeat([]byte{0xff}, 16)}
	bools := [][]byte{{0}, {1}}
	pre := bytes.Repeat([]byte("prefix/"), 10) // 70 bytes
	baLong := [][]byte{
		append(append([]byte{}, pre...), 'a'),
		append(append([]byte{}, pre...), []byte("b-and-a-suffix-of-some-length")...),
		append(append([]byte{}, pre[:64]...), 'z'),
		append(append([]byte{}, pre[:65]...), bytes.Repeat([]byte{'s'}, 70)...),
		append(append(append([]byte{}, pre...), pre...), 'c'),
		bytes.Repeat([]byte{'q'}, 100),
	}
	mk96 := func(shared int, tail byte) []byte {
		b := bytes.Repeat([]byte{'k'}, 96)
		for i := shared; i < 96; i++ {
			b[i] = tail
		}
		return b
	}
	fl96 := [][]byte{mk96(96, 0), mk96(95, 'a'), mk96(65, 'b'), mk96(64, 'c'), mk96(33, 'd'), mk96(0, 'e')}
	P := func() encoding.Encoding { return &parquet.Plain }
	D := func() encoding.Encoding { return &parquet.DeltaBinaryPacked }
	DL := func() encoding.Encoding { return &parquet.DeltaLengthByteArray }
	DB := func() encoding.Encoding { return &parquet.DeltaByteArray }
	BS := func() encoding.Encoding { return &parquet.ByteStreamSplit }
	R := func() encoding.Encoding { return &parquet.RLE }
	pairs := []c04Pair{
		{name: "PLAIN/BOOLEAN", enc: P, encID: 0, typ: 0, alphabet: bools},
		{name: "PLAIN/INT32", enc: P, encID: 0, typ: 1, alphabet: i32},
		{name: "PLAIN/INT64", enc: P, encID: 0, typ: 2, alphabet: i64},
		{name: "PLAIN/INT96", enc: P, encID: 0, typ: 3, alphabet: i96},
		{name: "PLAIN/FLOAT", enc: P, encID: 0, typ: 4, alphabet: f32},
		{name: "PLAIN/DOUBLE", enc: P, encID: 0, typ: 5, alphabet: f64},
		{name: "PLAIN/BYTE_ARRAY", enc: P, encID: 0, typ: 6, alphabet: ba},
		{name: "PLAIN/FLBA4", enc: P, encID: 0, typ: 7, size: 4, alphabet: fl4},
		{name: "RLE/BOOLEAN", enc: R, encID: 3, typ: 0, alphabet: bools},
		{name: "DELTA_BINARY_PACKED/INT32", enc: D, encID: 5, typ: 1, alphabet: i32},
		{name: "DELTA_BINARY_PACKED/INT64", enc: D, encID: 5, typ: 2, alphabet: i64},
		{name: "DELTA_LENGTH_BYTE_ARRAY/BYTE_ARRAY", enc: DL, encID: 6, typ: 6, alphabet: ba},
		{name: "DELTA_BYTE_ARRAY/BYTE_ARRAY", enc: DB, encID: 7, typ: 6, alphabet: ba},
		{name: "DELTA_BYTE_ARRAY/FLBA4", enc: DB, encID: 7, typ: 7, size: 4, alphabet: fl4},
		{name: "DELTA_BYTE_ARRAY/FLBA16", enc: DB, encID: 7, typ: 7, size: 16, alphabet: fl16},
		// long values: shared prefixes and suffixes on both sides of the 16/32/64-byte
		// blocks that vectorised copy loops work in
		{name: "PLAIN/BYTE_ARRAY(long)", enc: P, encID: 0, typ: 6, alphabet: baLong},
		{name: "DELTA_LENGTH_BYTE_ARRAY/BYTE_ARRAY(long)", enc: DL, encID: 6, typ: 6, alphabet: baLong},
		{name: "DELTA_BYTE_ARRAY/BYTE_ARRAY(long)", enc: DB, encID: 7, typ: 6, alphabet: baLong},
		{name: "DELTA_BYTE_ARRAY/FLBA96", enc: DB, encID: 7, typ: 7, size: 96, alphabet: fl96},
		{name: "BYTE_STREAM_SPLIT/FLOAT", enc: BS, encID: 9, typ: 4, alphabet: f32},
		{name: "BYTE_STREAM_SPLIT/DOUBLE", enc: BS, encID: 9, typ: 5, alphabet: f64},
		{name: "BYTE_STREAM_SPLIT/INT32", enc: BS, encID: 9, typ: 1, alphabet: i32},
		{name: "BYTE_STREAM_SPLIT/INT64", enc: BS, encID: 9, typ: 2, alphabet: i64},
		{name: "BYTE_STREAM_SPLIT/FLBA4", enc: BS, encID: 9, typ: 7, size: 4, alphabet: fl4},
		{name: "BYTE_STREAM_SPLIT/FLBA16", enc: BS, encID: 9, typ: 7, size: 16, alphabet: fl16},
	}
	// hybrid RLE/bit-packed at every bit width: levels (uint8, widths 1..8) and
	// dictionary indexes (int32, widths 0..32)
	for w := 1; w <= 8; w++ {
		w := w
		max := uint32(1<<w - 1)
		pairs = append(pairs, c04Pair{name: fmt.Sprintf("RLE/levels(w=%d)", w), enc: func() encoding.Encoding { return &rle.Encoding{BitWidth: w} },
			typ: -1, bitWidth: w, alphabet: [][]byte{{0}, {byte(max)}, {byte(max / 2)}, {1}}})
	}
	for w := 0; w <= 32; w++ {
		w := w
		var max uint32
		if w > 0 {
			max = uint32(uint64(1)<<w - 1)
		}
		al := [][]byte{le32(0), le32(max), le32(max / 2), le32(min32(1, max))}
		pairs = append(pairs, c04Pair{name: fmt.Sprintf("RLE/int32(w=%d)", w), enc: func() encoding.Encoding { return &rle.Encoding{BitWidth: w} },
			typ: -3, bitWidth: w, alphabet: al})
	}
	// RLE_DICTIONARY index pages: 1 byte bit width + hybrid
	pairs = append(pairs, c04Pair{name: "RLE_DICTIONARY/indexes", enc: func() encoding.Encoding { return &parquet.RLEDictionary }, typ: -2,
		alphabet: [][]byte{le32(0), le32(1), le32(2), le32(255), le32(256), le32(70000)}})
	return pairs
}

// c04BasePrefix is placed before the values of byte-array inputs so that the
// first offset is not zero (a window into a larger buffer).
var c04BasePrefix []byte

func min32(a, b uint32) uint32 {
	if a < b {
		return a
	}
	return b
}

// c04Encode runs the pair's encoder on seq into dst.
func c04Encode(p c04Pair, e encoding.Encoding, dst []byte, seq c04Seq) ([]byte, error) {
	switch {
	case p.typ == -1:
		src := make([]uint8, len(seq))
		for i, v := range seq {
			src[i] = v[0]
		}
		return e.EncodeLevels(dst, src)
	case p.typ == -2 || p.typ == -3 || p.typ == 1:
		src := make([]int32, len(seq))
		for i, v := range seq {
			src[i] = int32(binary.LittleEndian.Uint32(v))
		}
		return e.EncodeInt32(dst, src)
	case p.typ == 0:
		src := make([]byte, (len(seq)+7)/8)
		for i, v := range seq {
			if v[0] != 0 {
				src[i/8] |= 1 << (i % 8)
			}
		}
		return e.EncodeBoolean(dst, src)
	case p.typ == 2:
		src := make([]int64, len(seq))
		for i, v := range seq {
			src[i] = int64(binary.LittleEndian.Uint64(v))
		}
		return e.EncodeInt64(dst, src)
	case p.typ == 3:
		src := make([]deprecated.Int96, len(seq))
		for i, v := range seq {
			src[i] = deprecated.Int96{binary.LittleEndian.Uint32(v), binary.LittleEndian.Uint32(v[4:]), binary.LittleEndian.Uint32(v[8:])}
		}
		return e.EncodeInt96(dst, src)
	case p.typ == 4:
		src := make([]float32, len(seq))
		for i, v := range seq {
			src[i] = math.Float32frombits(binary.LittleEndian.Uint32(v))
		}
		return e.EncodeFloat(dst, src)
	case p.typ == 5:
		src := make([]float64, len(seq))
		for i, v := range seq {
			src[i] = math.Float64frombits(binary.LittleEndian.Uint64(v))
		}
		return e.EncodeDouble(dst, src)
	case p.typ == 6:
		src := append([]byte(nil), c04BasePrefix...)
		offsets := []uint32{uint32(len(src))}
		for _, v := range seq {
			src = append(src, v...)
			offsets = append(offsets, uint32(len(src)))
		}
		return e.EncodeByteArray(dst, src, offsets)
	case p.typ == 7:
		var src []byte
		for _, v := range seq {
			src = append(src, v...)
		}
		return e.EncodeFixedLenByteArray(dst, src, p.size)
	}
	panic("c04Encode: bad pair")
}

// c04Decode decodes with the library into the PLAIN single-value form.
// dirty selects the destination buffer history.
func c04Decode(p c04Pair, e encoding.Encoding, data []byte, n int, dirty int) (c04Seq, error) {
	var out c04Seq
	switch {
	case p.typ == -1:
		dst := dirtyBuf[uint8](dirty, n, 0xAA)
		vals, err := e.DecodeLevels(dst, data)
		if err != nil {
			return nil, err
		}
		for _, v := range vals {
			out = append(out, []byte{v})
		}
	case p.typ == -2 || p.typ == -3 || p.typ == 1:
		dst := dirtyBuf[int32](dirty, n, -0x55555556)
		vals, err := e.DecodeInt32(dst, data)
		if err != nil {
			return nil, err
		}
		for _, v := range vals {
			out = append(out, le32(uint32(v)))
		}
	case p.typ == 0:
		dst := dirtyBuf[byte](dirty, (n+7)/8, 0xAA)
		vals, err := e.DecodeBoolean(dst, data)
		if err != nil {
			return nil, err
		}
		for i := 0; i < n && i/8 < len(vals); i++ {
			out = append(out, []byte{(vals[i/8] >> (i % 8)) & 1})
		}
		// any further decoded bits are padding
	case p.typ == 2:
		dst := dirtyBuf[int64](dirty, n, -0x5555555555555556)
		vals, err := e.DecodeInt64(dst, data)
		if err != nil {
			return nil, err
		}
		for _, v := range vals {
			out = append(out, le64(uint64(v)))
		}
	case p.typ == 3:
		dst := dirtyBuf[deprecated.Int96](dirty, n, deprecated.Int96{0xAAAAAAAA, 0xAAAAAAAA, 0xAAAAAAAA})
		vals, err := e.DecodeInt96(dst, data)
		if err != nil {
			return nil, err
		}
		for _, v := range vals {
			b := make([]byte, 12)
			binary.LittleEndian.PutUint32(b, v[0])
			binary.LittleEndian.PutUint32(b[4:], v[1])
			binary.LittleEndian.PutUint32(b[8:], v[2])
			out = append(out, b)
		}
	case p.typ == 4:
		dst := dirtyBuf[float32](dirty, n, math.Float32frombits(0xAAAAAAAA))
		vals, err := e.DecodeFloat(dst, data)
		if err != nil {
			return nil, err
		}
		for _, v := range vals {
			out = append(out, le32(math.Float32bits(v)))
		}
	case p.typ == 5:
		dst := dirtyBuf[float64](dirty, n, math.Float64frombits(0xAAAAAAAAAAAAAAAA))
		vals, err := e.DecodeDouble(dst, data)
		if err != nil {
			return nil, err
		}
		for _, v := range vals {
			out = append(out, le64(math.Float64bits(v)))
		}
	case p.typ == 6:
		dst := dirtyBuf[byte](dirty, 4*n, 0xAA)
		offs := dirtyBuf[uint32](dirty, n+1, 0xAAAAAAAA)
		vals, offsets, err := e.DecodeByteArray(dst, data, offs)
		if err != nil {
			return nil, err
		}
		for i := 0; i+1 < len(offsets); i++ {
			out = append(out, append([]byte{}, vals[offsets[i]:offsets[i+1]]...))
		}
	case p.typ == 7:
		dst := dirtyBuf[byte](dirty, n*p.size, 0xAA)
		vals, err := e.DecodeFixedLenByteArray(dst, data, p.size)
		if err != nil {
			return nil, err
		}
		for i := 0; i+p.size <= len(vals); i += p.size {
			out = append(out, append([]byte{}, vals[i:i+p.size]...))
		}
	}
	return out, nil
}

// dirtyBuf returns the destination buffer for a dst-history choice:
// 0 nil, 1 empty non-nil, 2 dirty and too small, 3 dirty and 4x too large.
func dirtyBuf[T any](mode, n int, fill T) []T {
	switch mode {
	case 0:
		return nil
	case 1:
		return make([]T, 0)
	case 2:
		c := n - 1
		if c < 1 {
			c = 1
		}
		b := make([]T, c)
		for i := range b {
			b[i] = fill
		}
		return b[:c/2]
	default:
		b := make([]T, 4*n+8)
		for i := range b {
			b[i] = fill
		}
		return b[:n+3]
	}
}

func seqEqual(a, b c04Seq) (bool, string) {
	if len(a) != len(b) {
		return false, fmt.Sprintf("length %d != %d", len(a), len(b))
	}
	for i := range a {
		if !bytes.Equal(a[i], b[i]) {
			return false, fmt.Sprintf("value %d: %x != %x", i, a[i], b[i])
		}
	}
	return true, ""
}

// c04Patterns builds the structured long sequences for a length.
func c04Pattern(al [][]byte, kind, n int) c04Seq {
	s := make(c04Seq, n)
	k := len(al)
	for i := range s {
		switch kind {
		case 0: // constant
			s[i] = al[1%k]
		case 1: // alternating a/b
			s[i] = al[i%2]
		case 2: // cycling through the alphabet (ascending-ish)
			s[i] = al[i%k]
		case 3: // reversed cycle
			s[i] = al[k-1-i%k]
		case 4: // extremes alternation (delta wrap-around)
			idx := 2 + i%2
			if idx >= k {
				idx = i % k
			}
			s[i] = al[idx]
		case 5: // run + literals + run
			switch {
			case i < n/3:
				s[i] = al[0]
			case i < 2*n/3:
				s[i] = al[i%k]
			default:
				s[i] = al[(k-1)%k]
			}
		case 7: // blocks of 4 equal values (half of an 8-value RLE group)
			s[i] = al[(i/4)%k]
		case 8: // blocks of 8 equal values
			s[i] = al[(i/8)%k]
		case 9: // blocks of 3
			s[i] = al[(i/3)%k]
		case 10: // bit-packed context, then a group of 8 whose first 7 are equal and whose 8th differs
			switch (i / 8) % 3 {
			case 1:
				s[i] = al[0]
				if i%8 == 7 {
					s[i] = al[1%k]
				}
			default:
				s[i] = al[i%2]
			}
		case 11: // groups of 8 equal values but one, the odd one at every lane in turn
			s[i] = al[0]
			if i%8 == (i/8)%8 {
				s[i] = al[1%k]
			}
		case 6: // long run then one different value at the end
			s[i] = al[0]
			if i == n-1 {
				s[i] = al[1%k]
			}
		}
	}
	return s
}

const c04PatternKinds = 12

func c04Run(x *engine.X) {
	pairs := c04Pairs()
	gen := x.Choose(2, "gen")
	pi := x.Choose(len(pairs), "pair")
	p := pairs[pi]
	var seq c04Seq
	if gen == 0 {
		maxLen := 4
		if x.Tier == "thorough" {
			maxLen = 6
		}
		al := p.alphabet
		if len(al) > 5 && x.Tier != "thorough" {
			al = al[:5]
		}
		for len(seq) < maxLen {
			c := x.Choose(len(al)+1, "val")
			if c == 0 {
				break
			}
			seq = append(seq, al[c-1])
		}
	} else {
		lens := []int{7, 8, 9, 31, 32, 33, 63, 64, 65, 127, 128, 129, 130, 255, 256, 257, 1023, 1025}
		n := lens[x.Choose(len(lens), "len")]
		seq = c04Pattern(p.alphabet, x.Choose(c04PatternKinds, "pattern"), n)
	}
	c04BasePrefix = nil
	if p.typ == 6 && x.Choose(2, "baseoffset") == 1 {
		c04BasePrefix = []byte("xx")
		x.Descf("base-offset=2")
	}
	x.Descf("pair=%s seq=%s", p.name, c04Desc(seq))
	if len(seq) >= 2 {
		x.Nontrivial(fmt.Sprintf("%s|%x", p.name, sha256.Sum256(flatten(seq))))
	}
	shape := "pair=" + p.name
	e := p.enc()

	// (1) encode into a fresh buffer: the reference bytes
	ref, err := c04Encode(p, e, nil, seq)
	if err != nil {
		x.Failf("encode-error", shape, "Encode: %v", err)
		return
	}
	ref = append([]byte(nil), ref...)
	// (3) encoding is independent of the destination's history
	for mode := 1; mode <= 3; mode++ {
		x.AddEvals(1)
		got, err := c04Encode(p, e, dirtyBuf[byte](mode, len(ref)/2+1, 0xAA), seq)
		if err != nil || !bytes.Equal(got, ref) {
			x.Failf("dst-dependent", shape+";op=encode", "Encode into dst mode %d gives %x (err=%v), fresh gives %x", mode, got, err, ref)
			return
		}
	}
	// 2-call history: encode something else first, reuse the returned buffer
	other := c04Pattern(p.alphabet, 2, 37)
	if prev, err := c04Encode(p, e, nil, other); err == nil {
		got, err := c04Encode(p, e, prev, seq)
		if err != nil || !bytes.Equal(got, ref) {
			x.Failf("dst-dependent", shape+";op=encode-reuse", "Encode reusing the buffer of a previous call gives %x (err=%v), fresh gives %x", got, err, ref)
			return
		}
	}
	// (1) library round trip, for every destination history
	for mode := 0; mode <= 3; mode++ {
		x.AddEvals(1)
		dec, err := c04Decode(p, e, ref, len(seq), mode)
		if err != nil {
			x.Failf("decode-error", shape, "Decode(Encode(x)) failed (dst mode %d): %v; encoded=%x", mode, err, ref)
			return
		}
		if ok, why := seqEqual(seq, dec); !ok {
			x.Failf("roundtrip", shape+fmt.Sprintf(";dst=%d", mode), "Decode(Encode(x)) != x (dst mode %d): %s; encoded=%x", mode, why, ref)
			return
		}
	}
	// (2) independent decoder
	var spec c04Seq
	switch p.typ {
	case -1, -3:
		vals, err := pqref.DecodeHybrid(ref, p.bitWidth, len(seq))
		if err != nil {
			x.Failf("spec-decode", shape, "spec decoder rejects the output: %v; encoded=%x", err, ref)
			return
		}
		for _, v := range vals {
			if p.typ == -1 {
				spec = append(spec, []byte{byte(v)})
			} else {
				spec = append(spec, le32(v))
			}
		}
	case -2:
		if len(seq) == 0 {
			spec = nil
			break
		}
		if len(ref) == 0 {
			x.Failf("spec-decode", shape, "dictionary index page is empty for %d values", len(seq))
			return
		}
		vals, err := pqref.DecodeHybrid(ref[1:], int(ref[0]), len(seq))
		if err != nil {
			x.Failf("spec-decode", shape, "spec decoder rejects the output: %v; encoded=%x", err, ref)
			return
		}
		for _, v := range vals {
			spec = append(spec, le32(v))
		}
	default:
		vals, err := pqref.DecodeValues(p.encID, p.typ, p.size, ref, len(seq))
		if err != nil {
			x.Failf("spec-decode", shape, "spec decoder rejects the output: %v; encoded=%x", err, ref)
			return
		}
		spec = vals
	}
	if ok, why := seqEqual(seq, spec); !ok {
		x.Failf("spec-mismatch", shape, "spec decoder reads a different sequence: %s; encoded=%x", why, ref)
		return
	}
	// (3b) dictionary building for the PLAIN pairs of a value type: the values are
	// inserted into a dictionary of the type (empty, or created with k existing
	// values), every index must lead back to its value, and the indexes and the
	// dictionary page take part in the cross-variant digest (hash probes and
	// lookup kernels are CPU specific)
	dictDigest := ""
	if strings.HasPrefix(p.name, "PLAIN/") && p.typ >= 1 {
		typ, mk := c04TypeOf(p)
		if typ != nil {
			tails := 1
			if gen == 1 {
				tails = 2
			}
			for _, kt := range []int{0, 1, 3, 10, 100, 101, 103, 110}[:4*tails] {
				k, tail := kt%100, kt/100
				var pre []parquet.Value
				for i := 0; i < k; i++ {
					pre = append(pre, mk(c04Distinct(p, i)))
				}
				var d parquet.Dictionary
				if k == 0 {
					d = typ.NewDictionary(0, 0, typ.NewValues(nil, nil))
				} else {
					// an existing dictionary: k distinct values that are not in the alphabet
					tmp := typ.NewDictionary(0, 0, typ.NewValues(nil, nil))
					tmp.Insert(make([]int32, k), pre)
					d = typ.NewDictionary(0, k, tmp.Page().Data())
				}
				vals := make([]parquet.Value, len(seq))
				for i, v := range seq {
					vals[i] = mk(v)
				}
				if tail == 1 {
					// values new to the dictionary in the second half of a long insert
					for i := len(seq) / 2; i < len(seq); i++ {
						vals[i] = mk(c04Distinct(p, 100+i))
					}
				}
				idx := make([]int32, len(vals))
				d.Insert(idx, vals)
				back := make([]parquet.Value, len(vals))
				d.Lookup(idx, back)
				for i := range vals {
					if idx[i] < 0 || int(idx[i]) >= d.Len() {
						x.Failf("dictionary", shape+";pre="+fmt.Sprint(k)+";tail="+fmt.Sprint(tail), "value %d got index %d of a dictionary of %d values", i, idx[i], d.Len())
						return
					}
					if !bytes.Equal(d.Index(idx[i]).AppendBytes(nil), vals[i].AppendBytes(nil)) || !bytes.Equal(back[i].AppendBytes(nil), vals[i].AppendBytes(nil)) {
						x.Failf("dictionary", shape+";pre="+fmt.Sprint(k)+";tail="+fmt.Sprint(tail), "dictionary with %d existing values: value %d (%x) was given index %d, which holds %x (Lookup: %x)", k, i, vals[i].AppendBytes(nil), idx[i], d.Index(idx[i]).AppendBytes(nil), back[i].AppendBytes(nil))
						return
					}
				}
				for i := 0; i < k; i++ {
					if !bytes.Equal(d.Index(int32(i)).AppendBytes(nil), pre[i].AppendBytes(nil)) {
						x.Failf("dictionary", shape+";pre="+fmt.Sprint(k), "existing dictionary value %d changed", i)
						return
					}
				}
				h := sha256.New()
				for _, i := range idx {
					h.Write(le32(uint32(i)))
				}
				for i := 0; i < d.Len(); i++ {
					b := d.Index(int32(i)).AppendBytes(nil)
					h.Write([]byte{byte(len(b))})
					h.Write(b)
				}
				dictDigest += fmt.Sprintf("%x", h.Sum(nil)[:8])
			}
		}
	}
	// (4) the bytes (and hence everything derived) must not depend on the build variant
	x.VariantShape(shape)
	x.Outcome(fmt.Sprintf("%x%s", sha256.Sum256(ref), dictDigest))
}

// c04TypeOf returns the parquet type of a PLAIN pair and a constructor of its values.
func c04TypeOf(p c04Pair) (parquet.Type, func([]byte) parquet.Value) {
	switch p.typ {
	case 1:
		return parquet.Int32Type, func(b []byte) parquet.Value { return parquet.Int32Value(int32(binary.LittleEndian.Uint32(b))) }
	case 2:
		return parquet.Int64Type, func(b []byte) parquet.Value { return parquet.Int64Value(int64(binary.LittleEndian.Uint64(b))) }
	case 3:
		return parquet.Int96Type, func(b []byte) parquet.Value {
			return parquet.Int96Value(deprecated.Int96{binary.LittleEndian.Uint32(b), binary.LittleEndian.Uint32(b[4:]), binary.LittleEndian.Uint32(b[8:])})
		}
	case 4:
		return parquet.FloatType, func(b []byte) parquet.Value {
			return parquet.FloatValue(math.Float32frombits(binary.LittleEndian.Uint32(b)))
		}
	case 5:
		return parquet.DoubleType, func(b []byte) parquet.Value {
			return parquet.DoubleValue(math.Float64frombits(binary.LittleEndian.Uint64(b)))
		}
	case 6:
		return parquet.ByteArrayType, func(b []byte) parquet.Value { return parquet.ByteArrayValue(append([]byte(nil), b...)) }
	case 7:
		return parquet.FixedLenByteArrayType(p.size), func(b []byte) parquet.Value { return parquet.FixedLenByteArrayValue(append([]byte(nil), b...)) }
	}
	return nil, nil
}

// c04Distinct returns the i-th of a family of distinct values of the pair's type
// that are not in its alphabet.
func c04Distinct(p c04Pair, i int) []byte {
	switch p.typ {
	case 1, 4:
		return le32(uint32(1000 + i))
	case 2, 5:
		return le64(uint64(1000 + i))
	case 3:
		return append(le64(uint64(1000+i)), le32(7)...)
	case 6:
		return []byte(fmt.Sprintf("existing-%d", i))
	default:
		b := make([]byte, p.size)
		b[0], b[p.size-2], b[p.size-1] = 0xee, byte((i+1)>>8), byte(i+1)
		return b
	}
}

func flatten(s c04Seq) []byte {
	var b []byte
	for _, v := range s {
		b = append(b, byte(len(v)))
		b = append(b, v...)
	}
	return b
}

func c04Desc(s c04Seq) string {
	if len(s) > 8 {
		return fmt.Sprintf("[%x %x %x ... x%d]", s[0], s[1], s[2], len(s))
	}
	var p []string
	for _, v := range s {
		p = append(p, fmt.Sprintf("%x", v))
	}
	return "[" + strings.Join(p, " ") + "]"
}

func init() {
	Register(&engine.Prop{
		ID:    "C04",
		Level: "exploration",
		Rule: "67 (encoding, type) pairs - PLAIN x 8 types, RLE booleans, hybrid RLE/bit-packed levels at widths 1..8 and int32 at widths 0..32, RLE_DICTIONARY index pages, DELTA_BINARY_PACKED int32/int64, DELTA_LENGTH_BYTE_ARRAY, DELTA_BYTE_ARRAY (byte array, flba 4/16/96), long byte arrays sharing 64-140 byte prefixes for PLAIN / DELTA_LENGTH / DELTA_BYTE_ARRAY, BYTE_STREAM_SPLIT (float, double, int32, int64, flba 4/16) - x {ALL sequences of length <=4 (6 thorough) over 5-6 boundary values; 12 structured patterns x 18 lengths around the 8/32/64/128/256/1024 block boundaries} + for the 7 value types: the sequence inserted into a dictionary of the type (empty or created with 1 / 3 / 10 existing values; for the patterns also with the second half of the sequence replaced by values new to the dictionary), every index leading back to its value - x 4 destination-buffer histories (+ reuse of a previous call's buffer) x build variants asm / no-AVX2 / purego; " +
			"non-trivial = >=2 values, distinct by (pair, sequence)",
		Assumptions: []string{"the independent decoder is pqref (written from Encodings.md); encoded bytes are compared across build variants case by case"},
		Bound:       func(string) int { return 0 },
		Run:         c04Run,
		Variants: func(tier string) []string {
			if tier == "thorough" {
				return []string{"asm", "noavx512", "noavx2", "purego"}
			}
			return []string{"asm", "noavx2", "purego"}
		},
		CrossVariant: true,
	})
}
