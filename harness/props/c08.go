package props

import (
	"bytes"
	"fmt"
	"io"
	"reflect"
	"strings"

	"github.com/parquet-go/parquet-go"
	"github.com/parquet-go/parquet-go/compress/snappy"

	"verif/engine"
)

// C08 — seek then read equals sequential skip.
//
// Space: file family (page version x page index or not x 1/3 row groups x
// codec x read buffer size x sync/async) x reader kind x ALL operation
// sequences of length <= D over {SeekToRow(k), k=0..N} U {Read(1), Read(2),
// Read(N+1)} (pages: ReadPage), each followed by a drain to the end.
// Oracle: cursor model over the known rows.

type SRow struct {
	ID int64
	O  *int32
	L  []int32
	N  []tKV
	D  string `parquet:",dict"`
}

const c08N = 10

func c08Rows() []SRow {
	rows := make([]SRow, c08N)
	for i := range rows {
		r := SRow{ID: int64(100 + i), D: fmt.Sprintf("d%d", i%3)}
		if i%3 != 1 {
			r.O = ptrTo(int32(i * 7))
		}
		for j := 0; j < i%4; j++ {
			r.L = append(r.L, int32(i*10+j))
		}
		for j := 0; j < (i+1)%3; j++ {
			kv := tKV{K: fmt.Sprintf("k%d.%d", i, j)}
			if j == 0 {
				kv.V = ptrTo(int64(i))
			}
			r.N = append(r.N, kv)
		}
		rows[i] = r
	}
	return rows
}

type c08File struct {
	desc    string
	data    []byte
	rows    []SRow
	prows   []parquet.Row // Deconstruct of rows
	schema  *parquet.Schema
	fopts   []parquet.FileOption
	nGroups int
}

var c08FileAxes = []int{2, 2, 2, 2, 2, 2} // pagev, pageindex, rowgroups, codec, readbuf, mode

func c08BuildFile(idx int) *c08File {
	ax := make([]int, len(c08FileAxes))
	for i, n := range c08FileAxes {
		ax[i] = idx % n
		idx /= n
	}
	f := &c08File{rows: c08Rows(), schema: parquet.SchemaOf(SRow{})}
	var d []string
	opts := []parquet.WriterOption{parquet.PageBufferSize(16)} // 2 rows per int64 page, 4 per dictionary-index page
	if ax[0] == 1 {
		opts = append(opts, parquet.DataPageVersion(1))
		d = append(d, "v1")
	} else {
		d = append(d, "v2")
	}
	if ax[1] == 1 {
		f.fopts = append(f.fopts, parquet.SkipPageIndex(true))
		d = append(d, "noindex")
	}
	f.nGroups = 1
	if ax[2] == 1 {
		opts = append(opts, parquet.MaxRowsPerRowGroup(4))
		f.nGroups = 3
		d = append(d, "3rg")
	}
	if ax[3] == 1 {
		opts = append(opts, parquet.Compression(&snappy.Codec{}))
		d = append(d, "snappy")
	}
	if ax[4] == 1 {
		f.fopts = append(f.fopts, parquet.ReadBufferSize(16))
		d = append(d, "rbuf16")
	}
	if ax[5] == 1 {
		f.fopts = append(f.fopts, parquet.FileReadMode(parquet.ReadModeAsync))
		d = append(d, "async")
	}
	var buf bytes.Buffer
	w := parquet.NewGenericWriter[SRow](&buf, opts...)
	// one row per Write so that the tiny page buffer cuts pages every 1-3 rows
	for i := range f.rows {
		if _, err := w.Write(f.rows[i : i+1]); err != nil {
			panic(err)
		}
	}
	if err := w.Close(); err != nil {
		panic(err)
	}
	f.data = buf.Bytes()
	for i := range f.rows {
		f.prows = append(f.prows, f.schema.Deconstruct(nil, &f.rows[i]))
	}
	f.desc = strings.Join(d, ",")
	return f
}

// c08Opened is the file opened last by open(): the LoadIndex operation loads
// the page index of its column chunks (a no-op unless SkipPageIndex deferred it).
var c08Opened *parquet.File

func (f *c08File) open() (*parquet.File, error) {
	pf, err := parquet.OpenFile(bytes.NewReader(f.data), int64(len(f.data)), f.fopts...)
	c08Opened = pf
	return pf, err
}

// seekReader abstracts the reader kinds.
// resetter is implemented by the readers that can be repositioned at the start.
type resetter interface{ Reset() }

func (g *genReader) Reset() { g.r.Reset() }
func (r *rowsReader) Reset() {
	if rr, ok := r.r.(interface{ Reset() }); ok {
		rr.Reset()
	}
}

type seekReader interface {
	Seek(k int64) error
	// Read asks for n rows; returns the canonical strings of what came back.
	Read(n int) ([]string, error)
	Close() error
}

type rowsReader struct {
	r interface {
		parquet.RowReader
		SeekToRow(int64) error
	}
	c io.Closer
}

func (r *rowsReader) Seek(k int64) error { return r.r.SeekToRow(k) }
func (r *rowsReader) Read(n int) ([]string, error) {
	buf := make([]parquet.Row, n)
	m, err := r.r.ReadRows(buf)
	return streamOf(buf[:m]), err
}
func (r *rowsReader) Close() error {
	if r.c != nil {
		return r.c.Close()
	}
	return nil
}

type genReader struct{ r *parquet.GenericReader[SRow] }

func (g *genReader) Seek(k int64) error { return g.r.SeekToRow(k) }
func (g *genReader) Read(n int) ([]string, error) {
	buf := make([]SRow, n)
	m, err := g.r.Read(buf)
	out := make([]string, m)
	for i := range out {
		out[i] = goRowString(buf[i])
	}
	return out, err
}
func (g *genReader) Close() error { return g.r.Close() }

func goRowString(r SRow) string {
	var sb strings.Builder
	fmt.Fprintf(&sb, "%d|", r.ID)
	if r.O == nil {
		sb.WriteString("nil|")
	} else {
		fmt.Fprintf(&sb, "%d|", *r.O)
	}
	fmt.Fprintf(&sb, "%v|", r.L)
	for _, kv := range r.N {
		if kv.V == nil {
			fmt.Fprintf(&sb, "%s=nil,", kv.K)
		} else {
			fmt.Fprintf(&sb, "%s=%d,", kv.K, *kv.V)
		}
	}
	sb.WriteString("|" + r.D)
	return sb.String()
}

// pagesReader reads one column page by page; a "row" is the canonical string
// of that column's values in the row.
type pagesReader struct {
	p   parquet.Pages
	col int
}

func (p *pagesReader) Seek(k int64) error { return p.p.SeekToRow(k) }
func (p *pagesReader) Read(int) ([]string, error) {
	page, err := p.p.ReadPage()
	if page == nil {
		return nil, err
	}
	defer parquet.Release(page)
	vals := make([]parquet.Value, page.NumValues())
	n, rerr := page.Values().ReadValues(vals)
	if rerr != nil && rerr != io.EOF {
		return nil, rerr
	}
	vals = vals[:n]
	// split into rows at repetition level 0
	var rows []parquet.Row
	for _, v := range vals {
		if v.RepetitionLevel() == 0 || len(rows) == 0 {
			rows = append(rows, nil)
		}
		rows[len(rows)-1] = append(rows[len(rows)-1], v)
	}
	if int64(len(rows)) != page.NumRows() {
		return nil, fmt.Errorf("page.NumRows()=%d but its values hold %d rows", page.NumRows(), len(rows))
	}
	return streamOf(rows), err
}
func (p *pagesReader) Close() error { return p.p.Close() }

// valueReader reads one column through NewColumnChunkValueReader.
type valueReader struct {
	r       parquet.ColumnChunkValueReader
	pending []parquet.Value
	eof     bool
}

func (v *valueReader) Seek(k int64) error {
	v.pending, v.eof = nil, false
	return v.r.SeekToRow(k)
}
func (v *valueReader) Read(n int) ([]string, error) {
	// read values until n complete rows are available (a row is complete
	// when the next value starts at repetition level 0, or at EOF)
	var rows []parquet.Row
	for {
		// cut complete rows out of pending
		for len(rows) < n {
			end := -1
			for i := 1; i < len(v.pending); i++ {
				if v.pending[i].RepetitionLevel() == 0 {
					end = i
					break
				}
			}
			if end < 0 {
				if v.eof && len(v.pending) > 0 {
					end = len(v.pending)
				} else {
					break
				}
			}
			rows = append(rows, append(parquet.Row(nil), v.pending[:end]...))
			v.pending = v.pending[end:]
		}
		if len(rows) == n || v.eof {
			break
		}
		buf := make([]parquet.Value, 3)
		m, err := v.r.ReadValues(buf)
		for i := 0; i < m; i++ {
			v.pending = append(v.pending, buf[i].Clone())
		}
		if err == io.EOF {
			v.eof = true
		} else if err != nil {
			return streamOf(rows), err
		} else if m == 0 {
			return streamOf(rows), fmt.Errorf("ReadValues returned 0, nil")
		}
	}
	if v.eof && len(v.pending) == 0 {
		return streamOf(rows), io.EOF
	}
	return streamOf(rows), nil
}
func (v *valueReader) Close() error { return v.r.Close() }

var c08Readers = []string{"Reader", "GenericReader", "RowGroup.Rows", "MultiRowGroup.Rows", "Buffer.Rows", "Pages(ID)", "Pages(O)", "Pages(L)", "Pages(N.K)", "Pages(D)", "ValueReader(L)", "ValueReader(D)",
	// Column.Pages spans all row groups with its own seeking code; range views
	// are the row-range row groups of the merge planner (rows [2,8) here)
	"ColumnPages(ID)", "ColumnPages(L)", "RangeView.Rows", "RangeView.Pages(L)", "RangeView.Pages(D)",
	// ConvertRowReader over a source that only implements RowReader: seeks are
	// emulated by skipping forward (a backward seek may be refused)
	"ConvertRowReader(forward-only)",
	// the rows of a sorted merge of the file with a buffer holding two of its rows
	// again (overlapping key ranges: a real k-way merge); it seeks forward only
	"MergeRowGroups.Rows(forward-only)"}

func c08ForwardOnly(kind string) bool { return strings.HasSuffix(kind, "(forward-only)") }

const c08RangeOff, c08RangeLen = 2, 6

// open returns the reader and the expected canonical rows.
func c08Open(f *c08File, kind string) (seekReader, []string, error) {
	colOf := func(name string) int {
		for i, p := range f.schema.Columns() {
			if strings.Join(p, ".") == name {
				return i
			}
		}
		panic("no column " + name)
	}
	colRows := func(col int) []string {
		out := make([]parquet.Row, len(f.prows))
		for i, r := range f.prows {
			for _, v := range r {
				if v.Column() == col {
					out[i] = append(out[i], v)
				}
			}
		}
		return streamOf(out)
	}
	switch {
	case kind == "Buffer.Rows":
		b := parquet.NewGenericBuffer[SRow]()
		b.Write(f.rows)
		return &rowsReader{r: b.Rows()}, streamOf(f.prows), nil
	case kind == "GenericReader":
		pf, err := f.open()
		if err != nil {
			return nil, nil, err
		}
		exp := make([]string, len(f.rows))
		for i, r := range f.rows {
			exp[i] = goRowString(r)
		}
		return &genReader{parquet.NewGenericReader[SRow](pf)}, exp, nil
	}
	pf, err := f.open()
	if err != nil {
		return nil, nil, err
	}
	switch {
	case kind == "Reader":
		r := parquet.NewReader(pf)
		return &rowsReader{r: r, c: r}, streamOf(f.prows), nil
	case kind == "RowGroup.Rows":
		if len(pf.RowGroups()) != 1 {
			return nil, nil, nil // not applicable
		}
		rows := pf.RowGroups()[0].Rows()
		return &rowsReader{r: rows, c: rows}, streamOf(f.prows), nil
	case kind == "MultiRowGroup.Rows":
		rows := parquet.MultiRowGroup(pf.RowGroups()...).Rows()
		return &rowsReader{r: rows, c: rows}, streamOf(f.prows), nil
	case kind == "MergeRowGroups.Rows(forward-only)":
		if strings.Contains(f.desc, "snappy") || strings.Contains(f.desc, "rbuf16") {
			// the merge reads its inputs through the readers exercised above: 16 of the
			// 64 files (page version x page index x row groups x read mode) are enough
			return nil, nil, nil
		}
		b := parquet.NewGenericBuffer[SRow]()
		b.Write([]SRow{f.rows[3], f.rows[7]})
		sorting := parquet.SortingRowGroupConfig(parquet.SortingColumns(parquet.Ascending("ID")))
		m, err := parquet.MergeRowGroups(append(append([]parquet.RowGroup{}, pf.RowGroups()...), b), sorting)
		if err != nil {
			return nil, nil, err
		}
		// (the merged schema orders the columns by name)
		var exp []parquet.Row
		for i := range f.rows {
			r := m.Schema().Deconstruct(nil, &f.rows[i])
			exp = append(exp, r)
			if i == 3 || i == 7 {
				exp = append(exp, r)
			}
		}
		rows := m.Rows()
		return &rowsReader{r: rows, c: rows}, streamOf(exp), nil
	case kind == "ConvertRowReader(forward-only)":
		src := parquet.MultiRowGroup(pf.RowGroups()...).Rows()
		conv, err := parquet.Convert(pf.Schema(), pf.Schema())
		if err != nil {
			return nil, nil, err
		}
		rr := parquet.ConvertRowReader(struct{ parquet.RowReader }{src}, conv)
		sk, ok := rr.(interface {
			parquet.RowReader
			SeekToRow(int64) error
		})
		if !ok {
			return nil, nil, fmt.Errorf("ConvertRowReader result has no SeekToRow")
		}
		return &rowsReader{r: sk, c: src}, streamOf(f.prows), nil
	case strings.HasPrefix(kind, "ColumnPages("):
		name := strings.TrimSuffix(strings.TrimPrefix(kind, "ColumnPages("), ")")
		col := colOf(name)
		return &pagesReader{p: pf.Root().Column(name).Pages(), col: col}, colRows(col), nil
	case strings.HasPrefix(kind, "RangeView."):
		var base parquet.RowGroup
		if len(pf.RowGroups()) == 1 {
			base = pf.RowGroups()[0]
		} else {
			base = parquet.MultiRowGroup(pf.RowGroups()...)
		}
		view := parquet.VerifRowRange(base, c08RangeOff, c08RangeLen)
		if kind == "RangeView.Rows" {
			rows := view.Rows()
			return &rowsReader{r: rows, c: rows}, streamOf(f.prows)[c08RangeOff : c08RangeOff+c08RangeLen], nil
		}
		col := colOf(strings.TrimSuffix(strings.TrimPrefix(kind, "RangeView.Pages("), ")"))
		return &pagesReader{p: view.ColumnChunks()[col].Pages(), col: col}, colRows(col)[c08RangeOff : c08RangeOff+c08RangeLen], nil
	case strings.HasPrefix(kind, "Pages("):
		col := colOf(strings.TrimSuffix(strings.TrimPrefix(kind, "Pages("), ")"))
		var chunk parquet.ColumnChunk
		if len(pf.RowGroups()) == 1 {
			chunk = pf.RowGroups()[0].ColumnChunks()[col]
		} else {
			chunk = parquet.MultiRowGroup(pf.RowGroups()...).ColumnChunks()[col]
		}
		return &pagesReader{p: chunk.Pages(), col: col}, colRows(col), nil
	case strings.HasPrefix(kind, "ValueReader("):
		col := colOf(strings.TrimSuffix(strings.TrimPrefix(kind, "ValueReader("), ")"))
		var chunk parquet.ColumnChunk
		if len(pf.RowGroups()) == 1 {
			chunk = pf.RowGroups()[0].ColumnChunks()[col]
		} else {
			chunk = parquet.MultiRowGroup(pf.RowGroups()...).ColumnChunks()[col]
		}
		return &valueReader{r: parquet.NewColumnChunkValueReader(chunk)}, colRows(col), nil
	}
	panic("unknown reader " + kind)
}

func b2i(b bool) int {
	if b {
		return 1
	}
	return 0
}

func c08Depth(tier string) int {
	if tier == "thorough" {
		return 4
	}
	return 3
}

func c08Run(x *engine.X) {
	nfiles := 1
	for _, n := range c08FileAxes {
		nfiles *= n
	}
	root := x.Choose(nfiles*len(c08Readers), "file*reader")
	fi, ri := root/len(c08Readers), root%len(c08Readers)
	kind := c08Readers[ri]
	f := engine.Memo(x, fmt.Sprintf("c08file%d", fi), func() *c08File { return c08BuildFile(fi) })
	x.Descf("file={%s} reader=%s ops=", f.desc, kind)
	if kind == "Buffer.Rows" && fi != 0 {
		return // the buffer does not depend on the file axes
	}
	r, exp, err := c08Open(f, kind)
	if err != nil {
		x.Failf("open-error", "reader="+kind, "%v", err)
		return
	}
	if r == nil {
		return
	}
	defer r.Close()
	N := len(exp)
	isPages := strings.Contains(kind, "Pages(")
	shape := func(op string) string {
		return fmt.Sprintf("reader=%s;file=%s;at=%s", kind, f.desc, op)
	}

	pos := 0
	var hist []string
	check := func(op string, got []string, err error, asked int) bool {
		if err != nil && err != io.EOF {
			x.Failf("read-error", shape(op), "after %v: %s returned error %v at model position %d", hist, op, err, pos)
			return false
		}
		if pos+len(got) > N {
			x.Failf("wrong-rows", shape(op), "after %v: %s returned %d rows at position %d of %d", hist, op, len(got), pos, N)
			return false
		}
		if !isPages && len(got) > asked {
			x.Failf("wrong-rows", shape(op), "%s returned %d rows for a buffer of %d", op, len(got), asked)
			return false
		}
		for i, g := range got {
			if g != exp[pos+i] {
				x.Failf("wrong-rows", shape(op), "after %v: %s at model position %d returned as row %d:\n  got:  %s\n  want: %s", hist, op, pos, i, g, exp[pos+i])
				return false
			}
		}
		pos += len(got)
		if err == io.EOF && pos != N {
			x.Failf("early-eof", shape(op), "after %v: %s returned io.EOF at model position %d of %d", hist, op, pos, N)
			return false
		}
		if err == nil && len(got) == 0 {
			x.Failf("no-progress", shape(op), "after %v: %s returned 0 rows and no error at position %d of %d", hist, op, pos, N)
			return false
		}
		return true
	}

	D := c08Depth(x.Tier)
	if fi < 2 || fi == 4 || fi == 5 {
		D++ // the plain v2/v1 files with 1 and 3 row groups are explored one operation deeper
	}
	nops := (N + 1) + 3
	if isPages {
		nops = (N + 1) + 1
	}
	canReset := kind == "Reader" || kind == "GenericReader"
	if canReset {
		nops++ // Reset(): the reader is back at row 0, whatever happened before
	}
	// LoadIndex: the page index skipped at open time is loaded in the middle of the history
	lazyIndex := strings.Contains(f.desc, "noindex") && kind != "Buffer.Rows" && c08Opened != nil
	opened := c08Opened
	if lazyIndex {
		nops++
	}
	for d := 0; d < D; d++ {
		c := x.Choose(nops+1, "op")
		if c == 0 {
			break
		}
		c--
		if c <= N {
			op := fmt.Sprintf("Seek(%d)", c)
			hist = append(hist, op)
			if err := r.Seek(int64(c)); err != nil {
				if c08ForwardOnly(kind) && c < pos {
					continue // backward seek refused by a forward-only source: position unchanged
				}
				if c == N {
					x.Descf("%v", hist)
					x.Outcome("seek-end-error")
					return // seeking to the very end may be refused; nothing more to compare
				}
				x.Failf("seek-error", shape("Seek"), "after %v: SeekToRow(%d) of %d rows failed: %v", hist, c, N, err)
				return
			}
			pos = c
			continue
		}
		if lazyIndex && c == nops-1 {
			hist = append(hist, "LoadIndex")
			for _, rg := range opened.RowGroups() {
				for _, cc := range rg.ColumnChunks() {
					cc.OffsetIndex()
					cc.ColumnIndex()
				}
			}
			continue // the position does not change
		}
		if canReset && c == nops-1-b2i(lazyIndex) {
			hist = append(hist, "Reset")
			r.(resetter).Reset()
			pos = 0
			continue
		}
		n := []int{1, 2, N + 1}[c-(N+1)]
		op := fmt.Sprintf("Read(%d)", n)
		if isPages {
			op = "ReadPage"
		}
		hist = append(hist, op)
		got, err := r.Read(n)
		if !check(op, got, err, n) {
			return
		}
	}
	x.Descf("%v", hist)
	if len(hist) >= 2 {
		x.Nontrivial(x.Describe())
	}
	x.State(fmt.Sprintf("%s|%d|%d", kind, fi, pos))
	// drain: everything from the model position to the end, exactly
	for guard := 0; guard < 4*N+8; guard++ {
		if pos == N {
			got, err := r.Read(2)
			if len(got) != 0 || (err != io.EOF && !(isPages && err == nil && len(got) == 0)) {
				if err != io.EOF {
					x.Failf("no-eof", shape("drain"), "after %v: read at the end returned %d rows, err=%v", hist, len(got), err)
				} else if len(got) != 0 {
					x.Failf("wrong-rows", shape("drain"), "after %v: read at the end returned %d rows", hist, len(got))
				}
			}
			break
		}
		got, err := r.Read(3)
		hist = append(hist, "drain")
		if !check("drain", got, err, 3) {
			return
		}
	}
	x.CountN("transitions", int64(len(hist)))
	x.Outcome(fmt.Sprint(pos))
	_ = reflect.TypeOf
}

func init() {
	Register(&engine.Prop{
		ID:    "C08",
		Level: "model_checking",
		MC:    true,
		Rule: "64 files (data page v1/v2 x page index or SkipPageIndex x 1/3 row groups x none/snappy x read buffer default/16 x sync/async) of 10 nested rows with 1-4 rows per page (3 pages in the dictionary column) x 19 reader kinds (ConvertRowReader over a forward-only source, the rows of a sorted k-way merge of the file with a buffer (forward seeks only), Reader, GenericReader, RowGroup.Rows, MultiRowGroup.Rows, Buffer.Rows, ColumnChunk.Pages of 5 columns, ColumnChunkValueReader of 2 columns, Column.Pages of 2 columns, and the merge planner's row-range view of rows [2,8) read as rows and as pages of 2 columns) x ALL operation sequences of length <= D (3 quick, 4 thorough; one deeper on the 4 plain v1/v2 files) over SeekToRow(0..N), Read(1|2|N+1)/ReadPage and, on Reader and GenericReader, Reset(), and, on files opened with SkipPageIndex, the lazy load of the page index, then drained; cursor model oracle on every step; " +
			"non-trivial = >=2 operations before the drain",
		Assumptions: []string{"a refused SeekToRow(N) (seek to the very end) is accepted; async mode runs here under the free Go scheduler as a sequential client (its interleavings are C15's)"},
		Bound:       func(string) int { return 0 },
		Run:         c08Run,
	})
}
