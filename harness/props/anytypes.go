package props

import (
	"math"
	"strings"
	"time"

	"github.com/parquet-go/parquet-go"
)

// (C03-only row types.) Row types whose fields are interface-typed: the schema is given explicitly
// and the dynamic value decides what is written (column_buffer_reflect.go on
// the typed paths, row.go on the reflection path). Used by C03: every
// ingestion path must store the same streams.

type tAnyItem struct {
	X any   `parquet:"x"`
	Y int32 `parquet:"y"`
}

type tAnyG struct {
	P *int32  `parquet:"p"`
	Q *string `parquet:"q"`
}

type TAny struct {
	ID    int64      `parquet:"id"`
	A     any        `parquet:"a"`
	S     any        `parquet:"s"`
	G     any        `parquet:"g"`
	L     any        `parquet:"l"`
	Items []tAnyItem `parquet:"items"`
	P     *tAnyItem  `parquet:"p"`
}

func anyItemNode() parquet.Node {
	return parquet.Group{"x": parquet.Optional(parquet.Int(64)), "y": parquet.Int(32)}
}

func tAnySchema() *parquet.Schema {
	return parquet.NewSchema("t", parquet.Group{
		"id": parquet.Int(64), "a": parquet.Optional(parquet.Int(64)), "s": parquet.Optional(parquet.String()),
		"g":     parquet.Optional(parquet.Group{"p": parquet.Optional(parquet.Int(32)), "q": parquet.Optional(parquet.String())}),
		"l":     parquet.Repeated(parquet.Int(64)),
		"items": parquet.Repeated(anyItemNode()), "p": parquet.Optional(anyItemNode()),
	})
}

// one factor at a time around an all-absent and an all-present base row
func tAnyRows() []any {
	full := TAny{ID: 1, A: int64(5), S: "x", G: map[string]any{"p": int32(3), "q": "qq"}, L: []any{int64(1), int64(2)},
		Items: []tAnyItem{{int64(7), 1}, {nil, 2}}, P: &tAnyItem{int64(9), 3}}
	rows := []any{TAny{}, full}
	add := func(f func(r *TAny)) {
		for _, base := range []TAny{{ID: 2}, full} {
			r := base
			f(&r)
			rows = append(rows, r)
		}
	}
	// (incl. a typed nil pointer: the interface is not nil then, the value is)
	for _, v := range []any{int64(0), int64(-1), int64(math.MaxInt64), int64(math.MinInt64), (*int64)(nil)} {
		v := v
		add(func(r *TAny) { r.A = v })
	}
	add(func(r *TAny) { r.A = nil })
	for _, v := range []any{"", "a", strings.Repeat("s", 70), nil, []byte("bytes"), []byte{}, (*string)(nil)} {
		v := v
		add(func(r *TAny) { r.S = v })
	}
	for _, v := range []any{nil, map[string]any{}, map[string]any{"p": int32(0)}, map[string]any{"q": ""}, map[string]any{"p": int32(-1), "q": "q"},
		map[string]any{"p": nil, "q": "only"}, tAnyG{}, tAnyG{P: ptrTo(int32(4))}, &tAnyG{Q: ptrTo("z")}, (*tAnyG)(nil)} {
		v := v
		add(func(r *TAny) { r.G = v })
	}
	for _, v := range []any{nil, []any{}, []any{int64(0)}, []any{int64(1), int64(2), int64(3)}, []int64{4, 5}, []int64{}, []int64(nil), [2]int64{8, 9}} {
		v := v
		add(func(r *TAny) { r.L = v })
	}
	for _, v := range [][]tAnyItem{nil, {}, {{nil, 1}}, {{int64(0), 0}}, {{int64(7), 1}, {nil, 2}, {int64(8), 3}}} {
		v := v
		add(func(r *TAny) { r.Items = v })
	}
	for _, v := range []*tAnyItem{nil, {}, {X: int64(-3), Y: 1}} {
		v := v
		add(func(r *TAny) { r.P = v })
	}
	return rows
}

type tAnyIn struct {
	V any   `parquet:"v"`
	W []any `parquet:"w"`
}

// TAny2: interface values below maps written to groups, lists of interface
// values, and an interface-typed field two groups deep.
type TAny2 struct {
	K  string         `parquet:"k"`
	M  map[string]any `parquet:"m"`
	LI []any          `parquet:"li"`
	In tAnyIn         `parquet:"in"`
	PI *tAnyIn        `parquet:"pi"`
	Z  any            `parquet:"z"`
}

func tAny2Schema() *parquet.Schema {
	in := func() parquet.Node {
		return parquet.Group{"v": parquet.Optional(parquet.Leaf(parquet.DoubleType)), "w": parquet.Repeated(parquet.String())}
	}
	return parquet.NewSchema("t", parquet.Group{
		"k":  parquet.String(),
		"m":  parquet.Optional(parquet.Group{"a": parquet.Optional(parquet.Int(64)), "b": parquet.Optional(parquet.String()), "c": parquet.Repeated(parquet.Int(32))}),
		"li": parquet.Repeated(parquet.Group{"x": parquet.Optional(parquet.Int(64))}),
		"in": in(), "pi": parquet.Optional(in()),
		"z": parquet.Optional(parquet.Leaf(parquet.BooleanType)),
	})
}

func tAny2Rows() []any {
	full := TAny2{K: "k", M: map[string]any{"a": int64(1), "b": "b", "c": []any{int32(1), int32(2)}},
		LI: []any{map[string]any{"x": int64(1)}, map[string]any{"x": nil}},
		In: tAnyIn{V: 1.5, W: []any{"w1", "w2"}}, PI: &tAnyIn{V: -0.5, W: []any{"p"}}, Z: true}
	rows := []any{TAny2{}, full}
	add := func(f func(r *TAny2)) {
		for _, base := range []TAny2{{K: "e"}, full} {
			r := base
			f(&r)
			rows = append(rows, r)
		}
	}
	for _, v := range []map[string]any{nil, {}, {"a": int64(0)}, {"b": ""}, {"c": []any{}}, {"c": []any{int32(7)}}, {"a": nil, "b": nil}, {"a": int64(-1), "c": []any{int32(1), int32(2), int32(3)}}} {
		v := v
		add(func(r *TAny2) { r.M = v })
	}
	for _, v := range [][]any{nil, {}, {map[string]any{}}, {map[string]any{"x": int64(5)}}, {map[string]any{"x": int64(1)}, map[string]any{}, map[string]any{"x": int64(3)}}} {
		v := v
		add(func(r *TAny2) { r.LI = v })
	}
	for _, v := range []tAnyIn{{}, {V: 0.0}, {V: math.Inf(-1)}, {W: []any{}}, {W: []any{""}}, {V: 2.5, W: []any{"a", "b", "c"}}} {
		v := v
		add(func(r *TAny2) { r.In = v })
		add(func(r *TAny2) { w := v; r.PI = &w })
	}
	add(func(r *TAny2) { r.PI = nil })
	for _, v := range []any{nil, false, true} {
		v := v
		add(func(r *TAny2) { r.Z = v })
	}
	return rows
}

// TTimeSub: times and durations that are NOT multiples of the unit of their
// column, before and after the epoch (what is stored is the value at the
// column's precision; every path must store the same one). C03 only: the
// rows do not read back equal, by design of the column types.
type TTimeSub struct {
	ID  int64
	Tm  time.Time      `parquet:",timestamp(millisecond)"`
	Tu  time.Time      `parquet:",timestamp(microsecond)"`
	Td  time.Time      `parquet:",timestamp"`
	Tn  time.Time      `parquet:",timestamp(nanosecond)"`
	To  *time.Time     `parquet:",timestamp(millisecond)"`
	Dm  time.Duration  `parquet:",time(millisecond)"`
	Du  time.Duration  `parquet:",time(microsecond)"`
	Dp  *time.Duration `parquet:",time(millisecond)"`
	Day time.Time      `parquet:",date"`
	L   []tTimeIn
}

func tTimeSubRows() []any {
	times := []time.Time{
		time.Unix(0, 0).UTC(), time.Unix(0, 1).UTC(), time.Unix(0, -1).UTC(), time.Unix(0, 999_999).UTC(), time.Unix(0, -999_999).UTC(),
		time.Unix(0, 1_000_001).UTC(), time.Unix(0, -1_000_001).UTC(), time.Unix(-14182939, -876_543_211).UTC(), time.Unix(1700000000, 123_456_789).UTC(),
		time.Unix(-1, 500).UTC(), time.Unix(-86400, 1).UTC(), time.Unix(86399, 999_999_999).UTC(), time.Unix(-86401, 999_999_999).UTC(),
	}
	durs := []time.Duration{0, 1, 999_999, 1_000_001, 1500*time.Millisecond + 700, 24*time.Hour - 1, time.Microsecond - 1, time.Microsecond + 1}
	var rows []any
	for i, t := range times {
		t := t
		d := durs[i%len(durs)]
		r := TTimeSub{ID: int64(i), Tm: t, Tu: t, Td: t, Tn: t, Dm: d, Du: d, Day: t, L: []tTimeIn{{T: t, N: 1}, {N: 2}}}
		if i%2 == 0 {
			r.To, r.Dp = &t, &d
		}
		rows = append(rows, r)
	}
	return rows
}

// TOneHot: optional fixed-size arrays whose only non-zero byte sits at every
// position in turn (an optional array is null iff ALL its bytes are zero; the
// kernels that decide it look at the bytes in words and lanes).
type TOneHot struct {
	ID  int64
	U16 [16]byte   `parquet:",uuid,optional"`
	A16 [16]byte   `parquet:",optional"`
	A8  [8]byte    `parquet:",optional"`
	A4  [4]byte    `parquet:",optional"`
	A12 [12]byte   `parquet:",optional"`
	A24 [24]byte   `parquet:",optional"`
	L16 [][16]byte `parquet:",list" parquet-element:",optional"`
}

func tOneHotRows() []any {
	rows := []any{TOneHot{}}
	for i := 0; i < 24; i++ {
		for _, b := range []byte{0x01, 0x80} {
			r := TOneHot{ID: int64(i)}
			r.A24[i] = b
			if i < 16 {
				r.U16[i], r.A16[i] = b, b
				var e, z [16]byte
				e[i] = b
				r.L16 = [][16]byte{e, z, e}
			}
			if i < 12 {
				r.A12[i] = b
			}
			if i < 8 {
				r.A8[i] = b
			}
			if i < 4 {
				r.A4[i] = b
			}
			rows = append(rows, r)
		}
	}
	return rows
}

var anyRowTypes = []*RT{
	mkRTWith[TOneHot]("OneHot", nil, tOneHotRows()),
	func() *RT {
		rt := mkRTWith[TTimeSub]("TimeSub", nil, tTimeSubRows())
		rt.NoReassembly = true
		return rt
	}(),
	mkRTWith[TAny]("Any", tAnySchema, tAnyRows()),
	mkRTWith[TAny2]("Any2", tAny2Schema, tAny2Rows()),
}
