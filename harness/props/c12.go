package props

import (
	"bytes"
	"fmt"
	"io"
	"reflect"
	"runtime"
	"strings"

	"github.com/parquet-go/parquet-go"

	"verif/engine"
)

// C12 — reading through a different but compatible schema only adds or drops
// columns.
//
// Source and target Go struct types are built with reflect.StructOf; the
// target is the source after <=2 edits {delete a field, swap two adjacent
// fields, add an optional leaf, add a required leaf, add an optional group,
// add a list} applied at every position of the type tree (also inside list
// elements and groups). Oracle: Project(source value) on Go values.

// tnode is a mutable description of a struct type.
type tnode struct {
	name   string
	tag    string
	kind   string // "int32","string","ptrint64","ptrstring","slice32","struct","ptrstruct","slicestruct","float64","listint64"
	fields []*tnode
}

func (n *tnode) clone() *tnode {
	c := *n
	c.fields = nil
	for _, f := range n.fields {
		c.fields = append(c.fields, f.clone())
	}
	return &c
}

func (n *tnode) goType() reflect.Type {
	switch n.kind {
	case "int32":
		return reflect.TypeOf(int32(0))
	case "int64":
		return reflect.TypeOf(int64(0))
	case "float64":
		return reflect.TypeOf(float64(0))
	case "string":
		return reflect.TypeOf("")
	case "ptrint64":
		return reflect.TypeOf((*int64)(nil))
	case "ptrint32":
		return reflect.TypeOf((*int32)(nil))
	case "ptrstring":
		return reflect.TypeOf((*string)(nil))
	case "slice32", "list32":
		return reflect.TypeOf([]int32(nil))
	}
	var sf []reflect.StructField
	for _, f := range n.fields {
		tag := f.tag
		if f.kind == "list32" {
			tag = ",list"
		}
		sf = append(sf, reflect.StructField{Name: f.name, Type: f.goType(), Tag: reflect.StructTag(`parquet:"` + tag + `"`)})
	}
	st := reflect.StructOf(sf)
	switch n.kind {
	case "ptrstruct":
		return reflect.PointerTo(st)
	case "slicestruct":
		return reflect.SliceOf(st)
	case "mapstruct":
		return reflect.MapOf(reflect.TypeOf(""), st)
	}
	return st
}

func (n *tnode) String() string {
	if len(n.fields) == 0 {
		return n.name + ":" + n.kind
	}
	var p []string
	for _, f := range n.fields {
		p = append(p, f.String())
	}
	return n.name + ":" + n.kind + "{" + strings.Join(p, " ") + "}"
}

func leaf(name, kind string) *tnode { return &tnode{name: name, kind: kind} }
func group(name, kind string, f ...*tnode) *tnode {
	return &tnode{name: name, kind: kind, fields: f}
}

var c12Sources = []*tnode{
	group("R", "struct", leaf("A", "int32"), leaf("B", "string"), leaf("C", "ptrint64"), leaf("L", "slice32")),
	group("R", "struct", leaf("ID", "int64"), group("G", "struct", leaf("X", "int32"), leaf("Y", "ptrstring")), group("PG", "ptrstruct", leaf("U", "string"), leaf("V", "ptrint64"))),
	group("R", "struct", leaf("ID", "int64"), group("LS", "slicestruct", leaf("K", "string"), leaf("V", "ptrint64"), leaf("N", "slice32")), leaf("T", "string")),
	// required leaves under two optional / repeated ancestors
	group("R", "struct", group("H", "ptrstruct", group("G", "ptrstruct", leaf("V", "int32"), leaf("W", "string")), leaf("K", "int32")), leaf("Z", "int32")),
	group("R", "struct", group("M", "slicestruct", group("N", "slicestruct", leaf("Q", "int32"), leaf("P", "string")), leaf("E", "int32")), leaf("Z", "int32")),
	group("R", "struct", leaf("A", "int32"), leaf("LL", "list32"), group("G", "struct", leaf("X", "int32"), leaf("L2", "slice32"))),
	// groups without a required direct leaf: the only templates for the levels
	// of an added column are optional leaves, a repeated leaf, or a sub-group
	group("R", "struct", group("OG", "ptrstruct", leaf("A", "ptrint64"), leaf("B", "ptrstring")), leaf("Z", "int32")),
	group("R", "struct", group("LG", "ptrstruct", leaf("L", "slice32")), leaf("Z", "int32")),
	group("R", "struct", group("GG", "ptrstruct", group("In", "struct", leaf("X", "int32"))), leaf("Z", "int32")),
	group("R", "struct", group("SO", "slicestruct", leaf("A", "ptrint64"), leaf("N", "slice32")), leaf("Z", "int32")),
	// a repeated group holding sub-groups only, next to a list that sorts before
	// it by name and has lengths of its own
	group("R", "struct", leaf("Attrs", "slice32"), group("Groups", "slicestruct", group("In", "struct", leaf("X", "int32")), group("In2", "ptrstruct", leaf("Y", "string"))), leaf("Z", "int32")),
	// map values
	group("R", "struct", leaf("ID", "int64"), group("MS", "mapstruct", leaf("K", "int32"), leaf("V", "ptrstring")), leaf("T", "string")),
}

// structs lists every struct-like node of the tree (root included).
func (n *tnode) structs(out *[]*tnode) {
	if len(n.fields) > 0 || n.kind == "struct" || n.kind == "ptrstruct" || n.kind == "slicestruct" || n.kind == "mapstruct" {
		*out = append(*out, n)
		for _, f := range n.fields {
			f.structs(out)
		}
	}
}

// edits enumerates the single edits applicable to the tree as closures over a clone.
type c12Edit struct {
	desc  string
	class string // position-independent class: op:parentKind[:addedKind]
	apply func(root *tnode)
	// incompat, when set, is the field path (from the root) of a field whose
	// target type cannot represent the source column (leaf <-> group, single
	// -> repeated): the target is incompatible at that field.
	incompat []string
}

// fieldPaths maps every struct-like node to its field path from the root.
func (n *tnode) fieldPaths(p []string, out map[*tnode][]string) {
	out[n] = p
	for _, f := range n.fields {
		if len(f.fields) > 0 {
			f.fieldPaths(append(append([]string{}, p...), f.name), out)
		}
	}
}

func c12Edits(root *tnode) []c12Edit {
	var out []c12Edit
	var ss []*tnode
	root.structs(&ss)
	fpaths := map[*tnode][]string{}
	root.fieldPaths(nil, fpaths)
	replace := func(si, fi int, repl *tnode) func(r *tnode) {
		return func(r *tnode) {
			var t []*tnode
			r.structs(&t)
			t[si].fields[fi] = repl.clone()
		}
	}
	for si := range ss {
		si := si
		s := ss[si]
		path := s.name
		for fi := range s.fields {
			fi := fi
			f := s.fields[fi]
			fpath := append(append([]string{}, fpaths[s]...), f.name)
			// required -> optional: every source value is representable
			if ok := map[string]string{"int32": "ptrint32", "int64": "ptrint64", "string": "ptrstring", "struct": "ptrstruct"}[f.kind]; ok != "" {
				o := f.clone()
				o.kind = ok
				out = append(out, c12Edit{desc: fmt.Sprintf("optionalize %s.%s", path, f.name), class: "opt:" + s.kind + ":" + f.kind, apply: replace(si, fi, o)})
			}
			// incompatible targets: leaf <-> group, single <-> repeated
			switch f.kind {
			case "int32", "int64", "string":
				out = append(out, c12Edit{desc: fmt.Sprintf("leaf-to-group %s.%s", path, f.name), class: "incompat:leaf-to-group:" + s.kind,
					apply: replace(si, fi, group(f.name, "struct", leaf("P", "int32"))), incompat: fpath})
				if f.kind == "int32" {
					out = append(out, c12Edit{desc: fmt.Sprintf("single-to-repeated %s.%s", path, f.name), class: "incompat:single-to-repeated:" + s.kind,
						apply: replace(si, fi, leaf(f.name, "slice32")), incompat: fpath})
				}
			// (repeated -> single is not generated: the library defines it as
			// "keep the first element", a lossy mapping the statement neither
			// lists as compatible nor can call unaltered; see DESIGN.md)
			case "struct", "ptrstruct", "slicestruct", "mapstruct":
				out = append(out, c12Edit{desc: fmt.Sprintf("group-to-leaf %s.%s", path, f.name), class: "incompat:group-to-leaf:" + f.kind,
					apply: replace(si, fi, leaf(f.name, "int32")), incompat: fpath})
				if f.kind == "struct" || f.kind == "ptrstruct" {
					// the group becomes repeated (one element, or none for a nil
					// group), alone and together with a column added below it
					rg := f.clone()
					rg.kind = "slicestruct"
					out = append(out, c12Edit{desc: fmt.Sprintf("group-to-repeated %s.%s", path, f.name), class: "incompat:group-to-repeated:" + f.kind,
						apply: replace(si, fi, rg), incompat: fpath})
					for _, a := range []*tnode{leaf("NewOpt", "ptrint64"), leaf("NewReq", "int32")} {
						dup := false
						for _, g := range f.fields {
							dup = dup || g.name == a.name // already added by an earlier edit
						}
						if dup {
							continue
						}
						ra := rg.clone()
						ra.fields = append([]*tnode{a}, ra.fields...)
						out = append(out, c12Edit{desc: fmt.Sprintf("group-to-repeated+add %s.%s.%s", path, f.name, a.name), class: "incompat:group-to-repeated+add:" + f.kind + ":" + a.kind,
							apply: replace(si, fi, ra), incompat: fpath})
					}
				}
			}
			if len(s.fields) > 1 {
				out = append(out, c12Edit{desc: fmt.Sprintf("delete %s.%s", path, s.fields[fi].name), class: "delete:" + s.kind + ":" + s.fields[fi].kind, apply: func(r *tnode) {
					var t []*tnode
					r.structs(&t)
					n := t[si]
					n.fields = append(append([]*tnode{}, n.fields[:fi]...), n.fields[fi+1:]...)
				}})
			}
			if fi+1 < len(s.fields) {
				out = append(out, c12Edit{desc: fmt.Sprintf("swap %s.%s<->%s", path, s.fields[fi].name, s.fields[fi+1].name), class: "swap:" + s.kind, apply: func(r *tnode) {
					var t []*tnode
					r.structs(&t)
					n := t[si]
					n.fields[fi], n.fields[fi+1] = n.fields[fi+1], n.fields[fi]
				}})
			}
		}
		adds := []*tnode{
			leaf("NewOpt", "ptrint64"), leaf("NewReq", "int32"), leaf("NewStr", "string"),
			group("NewGrp", "ptrstruct", leaf("P", "int32"), leaf("Q", "ptrstring")), leaf("NewList", "slice32"),
		}
		for _, a := range adds {
			a := a
			dup := false
			for _, f := range s.fields {
				if f.name == a.name {
					dup = true // already added by an earlier edit
				}
			}
			if dup {
				continue
			}
			for _, pos := range []int{0, len(s.fields)} {
				pos := pos
				first := "first"
				if pos != 0 {
					first = "last"
				}
				out = append(out, c12Edit{desc: fmt.Sprintf("add %s.%s@%d", path, a.name, pos), class: "add:" + s.kind + ":" + a.kind + ":" + first, apply: func(r *tnode) {
					var t []*tnode
					r.structs(&t)
					n := t[si]
					nf := append([]*tnode{}, n.fields[:pos]...)
					nf = append(nf, a.clone())
					n.fields = append(nf, n.fields[pos:]...)
				}})
			}
		}
	}
	return out
}

// project maps a source value onto the target type: shared fields by name,
// added fields zero.
func c12Project(src reflect.Value, tt reflect.Type) reflect.Value {
	out := reflect.New(tt).Elem()
	if tt.Kind() == reflect.Pointer {
		if src.Kind() == reflect.Pointer {
			if src.IsNil() {
				return out
			}
			src = src.Elem()
		}
		p := reflect.New(tt.Elem())
		p.Elem().Set(c12Project(src, tt.Elem()))
		out.Set(p)
		return out
	}
	if src.Kind() != tt.Kind() {
		return out // incompatible field: ignored by the caller
	}
	switch tt.Kind() {
	case reflect.Struct:
		for i := 0; i < tt.NumField(); i++ {
			f := tt.Field(i)
			sf := src.FieldByName(f.Name)
			if sf.IsValid() {
				out.Field(i).Set(c12Project(sf, f.Type))
			}
		}
	case reflect.Slice:
		s := reflect.MakeSlice(tt, src.Len(), src.Len())
		for i := 0; i < src.Len(); i++ {
			s.Index(i).Set(c12Project(src.Index(i), tt.Elem()))
		}
		out.Set(s)
	case reflect.Map:
		m := reflect.MakeMapWithSize(tt, src.Len())
		it := src.MapRange()
		for it.Next() {
			m.SetMapIndex(it.Key(), c12Project(it.Value(), tt.Elem()))
		}
		out.Set(m)
	default:
		out.Set(src)
	}
	return out
}

// c12ZeroAt clears the field at the given field path wherever it occurs below v.
func c12ZeroAt(v reflect.Value, path []string) {
	switch v.Kind() {
	case reflect.Pointer:
		if !v.IsNil() {
			c12ZeroAt(v.Elem(), path)
		}
	case reflect.Slice:
		for i := 0; i < v.Len(); i++ {
			c12ZeroAt(v.Index(i), path)
		}
	case reflect.Map:
		it := v.MapRange()
		for it.Next() {
			nv := reflect.New(v.Type().Elem()).Elem()
			nv.Set(it.Value())
			c12ZeroAt(nv, path)
			v.SetMapIndex(it.Key(), nv)
		}
	case reflect.Struct:
		f := v.FieldByName(path[0])
		if !f.IsValid() {
			return
		}
		if len(path) == 1 {
			f.Set(reflect.Zero(f.Type()))
		} else {
			c12ZeroAt(f, path[1:])
		}
	}
}

func hasSlice(t reflect.Type) bool {
	switch t.Kind() {
	case reflect.Slice:
		return t.Elem().Kind() != reflect.Uint8
	case reflect.Pointer:
		return hasSlice(t.Elem())
	case reflect.Struct:
		for i := 0; i < t.NumField(); i++ {
			if hasSlice(t.Field(i).Type) {
				return true
			}
		}
	}
	return false
}

// c12Lengthen makes every list reachable without entering a list n elements long
// (cycling through its elements, or through the element alphabet if it is empty).
func c12Lengthen(v reflect.Value, n int) {
	switch v.Kind() {
	case reflect.Pointer:
		if !v.IsNil() {
			c12Lengthen(v.Elem(), n)
		}
	case reflect.Struct:
		for i := 0; i < v.NumField(); i++ {
			if v.Field(i).CanSet() {
				c12Lengthen(v.Field(i), n)
			}
		}
	case reflect.Slice:
		if v.Type().Elem().Kind() == reflect.Uint8 {
			return
		}
		var src []reflect.Value
		for i := 0; i < v.Len(); i++ {
			src = append(src, v.Index(i))
		}
		if len(src) == 0 {
			src = alphabet(v.Type().Elem())
		}
		if len(src) == 0 {
			return
		}
		out := reflect.MakeSlice(v.Type(), n, n)
		for i := 0; i < n; i++ {
			out.Index(i).Set(src[i%len(src)])
		}
		v.Set(out)
	}
}

var c12Paths = []string{"NewReader(schema)", "ConvertRowGroup", "CopyRows", "MergeRowGroups(schema)", "GenericReader[any](schema)",
	// the merge planner's row-range view (rows [1, n-1)) of the converted row
	// group: pages of added columns are sliced, and sliced again
	"RangeView(ConvertRowGroup)"}

func c12Run(x *engine.X) {
	root := x.Choose(len(c12Sources)*len(c12Paths), "source*path")
	srcN := c12Sources[root/len(c12Paths)]
	path := c12Paths[root%len(c12Paths)]
	edits := c12Edits(srcN)
	tgtN := srcN.clone()
	var ed, classes []string
	var incompat [][]string
	maxEdits := 1
	if x.Tier == "thorough" {
		maxEdits = 2
	}
	for e := 0; e < maxEdits; e++ {
		var list []c12Edit
		if e == 0 {
			list = edits
		} else {
			list = c12Edits(tgtN)
		}
		if len(incompat) > 0 {
			// a second type change of the same field would compose into a
			// repeated -> single change of a group, which is not generated
			var keep []c12Edit
			for _, ed := range list {
				if ed.incompat == nil || strings.Join(ed.incompat, ".") != strings.Join(incompat[0], ".") {
					keep = append(keep, ed)
				}
			}
			list = keep
		}
		c := x.Choose(len(list)+1, "edit")
		if c == 0 {
			break
		}
		list[c-1].apply(tgtN)
		ed = append(ed, list[c-1].desc)
		classes = append(classes, list[c-1].class)
		if list[c-1].incompat != nil {
			incompat = append(incompat, list[c-1].incompat)
		}
	}
	st, tt := srcN.goType(), tgtN.goType()
	rowsAlpha := rowAlphabet(st)
	// rows: all alphabet rows in one file (every null/empty/nesting combination at once) or a single row
	var rows []reflect.Value
	if c := x.Choose(len(rowsAlpha)+2, "rows"); c == 0 || c == len(rowsAlpha)+1 {
		for _, r := range rowsAlpha {
			rows = append(rows, reflect.ValueOf(r))
		}
		if c != 0 {
			// ... followed by a last row whose lists hold 400 elements (more than
			// the 170- and 1024-value batches the column paths read in)
			if !hasSlice(st) || len(rowsAlpha) < 2 {
				return
			}
			long := reflect.New(st).Elem()
			long.Set(reflect.ValueOf(rowsAlpha[1]))
			c12Lengthen(long, 400)
			rows = append(rows, long)
			x.Descf("rows=all+long")
		}
	} else {
		rows = append(rows, reflect.ValueOf(rowsAlpha[c-1]))
		x.Descf("row=r%d", c-1)
	}
	x.Descf("src=%s path=%s edits=%v", srcN, path, ed)
	if len(ed) > 0 {
		x.Nontrivial(x.Describe())
	}
	shape := fmt.Sprintf("path=%s;edits=%s", path, strings.Join(classes, ","))
	mergeAdd := false
	if path == "MergeRowGroups(schema)" {
		// the merge synthesises missing columns with its own mechanism
		// (missingColumnChunk): one class per kind of parent the column is added under
		var cs []string
		for _, c := range classes {
			f := strings.Split(c, ":")
			if f[0] == "add" {
				mergeAdd = true
				c = "add-under:" + f[1]
				if f[1] == "struct" && f[2] == "slice32" {
					c += ":list"
				}
			}
			cs = append(cs, c)
		}
		shape = fmt.Sprintf("path=%s;edits=%s", path, strings.Join(cs, ","))
	}

	srcSchema := parquet.SchemaOf(reflect.New(st).Interface())
	tgtSchema := parquet.SchemaOf(reflect.New(tt).Interface())
	var buf bytes.Buffer
	w := parquet.NewWriter(&buf, srcSchema, parquet.PageBufferSize(32))
	for _, r := range rows {
		p := reflect.New(st)
		p.Elem().Set(r)
		if err := w.Write(p.Interface()); err != nil {
			x.Failf("harness", "write", "writing source: %v", err)
			return
		}
	}
	if err := w.Close(); err != nil {
		x.Failf("harness", "write", "closing source: %v", err)
		return
	}
	data := buf.Bytes()
	f, err := parquet.OpenFile(bytes.NewReader(data), int64(len(data)))
	if err != nil {
		x.Failf("harness", "open", "%v", err)
		return
	}

	var got []reflect.Value
	readRowsInto := func(rr parquet.RowReader) error {
		rb := make([]parquet.Row, 3)
		for guard := 0; guard < 10000; guard++ {
			n, err := rr.ReadRows(rb)
			for i := 0; i < n; i++ {
				p := reflect.New(tt)
				if e := tgtSchema.Reconstruct(p.Interface(), rb[i]); e != nil {
					return fmt.Errorf("Reconstruct: %w", e)
				}
				got = append(got, p.Elem())
			}
			if err == io.EOF {
				return nil
			}
			if err != nil {
				return err
			}
			if n == 0 {
				return fmt.Errorf("ReadRows returned 0, nil")
			}
		}
		return fmt.Errorf("no EOF")
	}
	var rerr error
	rangeView := 0 // >0: the path read rows [1, n-1) of n
	crashed := false
	func() {
		defer func() {
			if r := recover(); r != nil {
				rerr = fmt.Errorf("panic: %v", r)
				if _, isRuntime := r.(runtime.Error); isRuntime || func() bool { _, isErr := r.(error); return !isErr }() {
					crashed = true // not the documented panic(err) of NewReader on a Convert error
				}
			}
		}()
		switch path {
		case "NewReader(schema)":
			r := parquet.NewReader(f, tgtSchema)
			defer r.Close()
			for guard := 0; guard < 10000; guard++ {
				p := reflect.New(tt)
				err := r.Read(p.Interface())
				if err == io.EOF {
					break
				}
				if err != nil {
					rerr = err
					return
				}
				got = append(got, p.Elem())
			}
		case "GenericReader[any](schema)":
			r := parquet.NewGenericReader[any](f, tgtSchema)
			defer r.Close()
			rerr = readRowsInto(r)
		case "ConvertRowGroup":
			conv, err := parquet.Convert(tgtSchema, f.Schema())
			if err != nil {
				rerr = err
				return
			}
			for _, rg := range f.RowGroups() {
				rows := parquet.ConvertRowGroup(rg, conv).Rows()
				rerr = readRowsInto(rows)
				rows.Close()
				if rerr != nil {
					return
				}
			}
		case "RangeView(ConvertRowGroup)":
			conv, err := parquet.Convert(tgtSchema, f.Schema())
			if err != nil {
				rerr = err
				return
			}
			rg := f.RowGroups()[0]
			if len(f.RowGroups()) != 1 || rg.NumRows() < 3 {
				rangeView = -1
				return
			}
			rangeView = int(rg.NumRows())
			view := parquet.VerifRowRange(parquet.ConvertRowGroup(rg, conv), 1, rg.NumRows()-2)
			vr := view.Rows()
			rerr = readRowsInto(vr)
			vr.Close()
		case "CopyRows":
			var out bytes.Buffer
			dw := parquet.NewWriter(&out, tgtSchema)
			for _, rg := range f.RowGroups() {
				rows := rg.Rows()
				_, err := parquet.CopyRows(dw, rows)
				rows.Close()
				if err != nil {
					rerr = err
					return
				}
			}
			if err := dw.Close(); err != nil {
				rerr = err
				return
			}
			of, err := parquet.OpenFile(bytes.NewReader(out.Bytes()), int64(out.Len()))
			if err != nil {
				rerr = err
				return
			}
			for _, rg := range of.RowGroups() {
				rows := rg.Rows()
				rerr = readRowsInto(rows)
				rows.Close()
				if rerr != nil {
					return
				}
			}
		case "MergeRowGroups(schema)":
			m, err := parquet.MergeRowGroups(f.RowGroups(), tgtSchema)
			if err != nil {
				rerr = err
				return
			}
			if !parquet.EqualNodes(m.Schema(), tgtSchema) {
				// the merge normalised the schema (column order): rows cannot be
				// reconstructed positionally into the target type; not applicable
				got = nil
				for i := range rows {
					got = append(got, c12Project(rows[i], tt))
				}
				x.Count("merge-schema-normalised")
				return
			}
			mrows := m.Rows()
			defer mrows.Close()
			rerr = readRowsInto(mrows)
		}
	}()
	if rangeView < 0 {
		return // fewer than 3 rows: no middle range
	}
	if rangeView > 0 {
		rows = rows[1 : rangeView-1]
	}
	if len(incompat) > 0 {
		// incompatible target: it must be rejected with an error, or at least
		// every OTHER column must still be exactly the source's and the rows
		// all there (what the mismatched field reads as is not defined)
		if crashed {
			x.Failf("panic", shape, "incompatible target: %v", rerr)
			return
		}
		if rerr != nil {
			x.Count("incompatible-rejected")
			x.Outcome("rejected")
			return
		}
		x.Count("incompatible-accepted")
		if len(got) != len(rows) {
			x.Failf("row-count", shape, "incompatible target accepted without error and %d rows read for %d written", len(got), len(rows))
			return
		}
		for i := range rows {
			want := c12Project(rows[i], tt)
			for _, p := range incompat {
				c12ZeroAt(want, p)
				c12ZeroAt(got[i], p)
			}
			if ok, why := eqNorm(want, got[i], false); !ok {
				x.Failf("altered", shape+";field="+fieldOfDiff(why), "incompatible target (at %v) accepted without error and row %d differs in another column: %s\n  src:  %+v\n  want: %+v\n  got:  %+v", incompat, i, why, rows[i].Interface(), want.Interface(), got[i].Interface())
				return
			}
		}
		x.Outcome("accepted")
		return
	}
	if rerr != nil {
		// every generated target is compatible (fields only added, dropped or permuted): a rejection is a failure to honour the property's first half
		x.Failf("rejected", shape, "compatible target schema rejected: %v", rerr)
		return
	}
	if len(got) != len(rows) {
		x.Failf("row-count", shape, "wrote %d rows, read %d through the target schema", len(rows), len(got))
		return
	}
	for i := range rows {
		want := c12Project(rows[i], tt)
		if ok, why := eqNorm(want, got[i], false); !ok {
			sh := shape + ";field=" + fieldOfDiff(why)
			if mergeAdd {
				sh = shape
			}
			x.Failf("altered", sh, "row %d read through the target schema differs from the projection of the source row: %s\n  src:  %+v\n  want: %+v\n  got:  %+v", i, why, rows[i].Interface(), want.Interface(), got[i].Interface())
			return
		}
	}
	x.Outcome(fmt.Sprint(len(got)))
}

func maskAll(ss []string) []string {
	out := make([]string, len(ss))
	for i, s := range ss {
		out[i] = strings.ReplaceAll(s, " ", "_")
	}
	return out
}

func init() {
	Register(&engine.Prop{
		ID:    "C12",
		Level: "exploration",
		Rule: "12 source struct types (flat, groups, pointer groups, list of structs, required leaves under two optional or repeated ancestors, list tag, groups whose only template is an optional leaf / a repeated leaf / a sub-group, a repeated group of sub-groups next to a list that sorts before it by name, map values) x target = source after <=1 (2 thorough) edits from {delete a field, swap adjacent fields, add optional leaf / required leaf / string / optional group / list, required->optional, leaf<->group, single->repeated leaf, group->repeated (+ an added column)} at EVERY position of the type tree x rows {all boundary-value alphabet rows in one file, each row alone, all rows followed by a last row whose lists hold 400 elements} x 6 paths (NewReader(schema), GenericReader[any](schema), ConvertRowGroup, CopyRows into a writer of the target schema, MergeRowGroups with the target schema, the row-range view of the converted row group); Go types built with reflect.StructOf; " +
			"non-trivial = at least one edit",
		Assumptions: []string{"only compatible targets are generated (add / drop / permute), so a rejection counts as a violation; incompatible targets (leaf<->group, type changes) are not enumerated"},
		Bound:       func(string) int { return 0 },
		Run:         c12Run,
	})
}
