package props

import (
	"bytes"
	"encoding/binary"
	"fmt"
	"io"
	"strings"

	"github.com/parquet-go/parquet-go"
	"github.com/parquet-go/parquet-go/compress/snappy"

	"verif/engine"
)

// C18 — encrypted files round-trip, leak no plaintext and authenticate every
// module.

type ERow struct {
	ID     int64
	Secret string
	Plain  string `parquet:",dict"`
	L      []int32
	// Z: a dictionary-encoded column that never holds a value (its dictionary
	// page has no entry: an encrypted module with an empty plaintext)
	Z *string `parquet:",dict"`
}

func c18Rows(n int, tag string) []ERow {
	rows := make([]ERow, n)
	for i := range rows {
		rows[i] = ERow{ID: int64(7000 + i), Secret: fmt.Sprintf("SECRET%s-%04d", tag, i), Plain: fmt.Sprintf("PUBTOK%s-%02d", tag, i%4)}
		for j := 0; j < i%3; j++ {
			rows[i].L = append(rows[i].L, int32(i*10+j))
		}
	}
	return rows
}

func erowString(r ERow) string {
	z := "nil"
	if r.Z != nil {
		z = *r.Z
	}
	return fmt.Sprintf("%d|%s|%s|%v|%s", r.ID, r.Secret, r.Plain, r.L, z)
}

type c18Keys struct {
	footer []byte
	cols   map[string][]byte
}

func (k *c18Keys) FooterKey([]byte) ([]byte, error) {
	if k.footer == nil {
		return nil, parquet.ErrKeyNotFound
	}
	return k.footer, nil
}
func (k *c18Keys) ColumnKey(path []string, _ []byte) ([]byte, error) {
	if key, ok := k.cols[strings.Join(path, ".")]; ok {
		if key == nil {
			return nil, parquet.ErrKeyNotFound
		}
		return key, nil
	}
	if k.footer == nil {
		return nil, parquet.ErrKeyNotFound
	}
	return k.footer, nil
}

var (
	c18FooterKey = []byte("0123456789abcdef")
	c18ColKey    = []byte("fedcba9876543210")
	c18BadKey    = []byte("XXXXXXXXXXXXXXXX")
)

type c18Cfg struct {
	desc      string
	encFooter bool
	colKey    bool
	aadPrefix bool
	opts      []parquet.WriterOption
	bloom     bool
}

func c18Configs() []c18Cfg {
	var out []c18Cfg
	for _, ef := range []bool{true, false} {
		for _, ck := range []bool{false, true} {
			for vi, variant := range [][]parquet.WriterOption{
				{parquet.PageBufferSize(48)},
				{parquet.PageBufferSize(48), parquet.DataPageVersion(1), parquet.Compression(&snappy.Codec{})},
				{parquet.PageBufferSize(48), parquet.BloomFilters(parquet.SplitBlockFilter(10, "ID"), parquet.SplitBlockFilter(10, "Secret")), parquet.MaxRowsPerRowGroup(10)},
				// several row groups of compressed pages
				{parquet.PageBufferSize(48), parquet.Compression(&snappy.Codec{}), parquet.MaxRowsPerRowGroup(7)},
				// bloom filters written after the row groups
				{parquet.PageBufferSize(48), parquet.BloomFilters(parquet.SplitBlockFilter(10, "ID"), parquet.SplitBlockFilter(10, "Secret")), parquet.MaxRowsPerRowGroup(10), parquet.DeferBloomFiltersWithBuffers(parquet.NewBufferPool())},
			} {
				c := c18Cfg{encFooter: ef, colKey: ck, aadPrefix: vi == 1, opts: variant, bloom: vi == 2 || vi == 4}
				c.desc = fmt.Sprintf("footer=%s,colkey=%v,variant=%d", map[bool]string{true: "encrypted", false: "plaintext-signed"}[ef], ck, vi)
				out = append(out, c)
			}
		}
	}
	return out
}

func (c c18Cfg) encryption(fileID string) *parquet.EncryptionConfig {
	e := &parquet.EncryptionConfig{FooterKey: c18FooterKey, EncryptedFooter: c.encFooter, FileIdentifier: []byte(fileID)}
	if c.colKey {
		e.ColumnKeys = map[string][]byte{"Secret": c18ColKey}
	}
	if c.aadPrefix {
		e.AadPrefix = []byte("verif-aad")
	}
	return e
}

func (c c18Cfg) keys() *c18Keys {
	k := &c18Keys{footer: c18FooterKey, cols: map[string][]byte{}}
	if c.colKey {
		k.cols["Secret"] = c18ColKey
	}
	return k
}

func c18Write(c c18Cfg, rows []ERow, fileID string) ([]byte, error) {
	var buf bytes.Buffer
	w := parquet.NewGenericWriter[ERow](&buf, append(append([]parquet.WriterOption{}, c.opts...), parquet.WithEncryption(c.encryption(fileID)))...)
	for i := range rows {
		if _, err := w.Write(rows[i : i+1]); err != nil {
			return nil, err
		}
	}
	if err := w.Close(); err != nil {
		return nil, err
	}
	return buf.Bytes(), nil
}

// c18ReadAll opens and fully reads the file (rows, page index, bloom filters).
func c18ReadAll(data []byte, keys parquet.KeyRetriever, bloom bool, probe []ERow) (got []string, err error) {
	defer func() {
		if r := recover(); r != nil {
			err = fmt.Errorf("panic: %v", r)
		}
	}()
	f, e := parquet.OpenFile(bytes.NewReader(data), int64(len(data)), parquet.WithDecryption(keys))
	if e != nil {
		return nil, e
	}
	r := parquet.NewGenericReader[ERow](f)
	defer r.Close()
	for guard := 0; guard < 10000; guard++ {
		buf := make([]ERow, 4)
		n, e := r.Read(buf)
		for i := 0; i < n; i++ {
			got = append(got, erowString(buf[i]))
		}
		if e == io.EOF {
			break
		}
		if e != nil {
			return got, e
		}
	}
	for _, rg := range f.RowGroups() {
		for _, cc := range rg.ColumnChunks() {
			if _, e := cc.ColumnIndex(); e != nil {
				return got, e
			}
			if _, e := cc.OffsetIndex(); e != nil {
				return got, e
			}
			if bloom {
				if bf := cc.BloomFilter(); bf != nil {
					if _, e := bf.Check(parquet.ValueOf(probe[0].ID)); e != nil {
						return got, e
					}
				}
			}
		}
	}
	return got, nil
}

type c18Module struct{ off, total int } // total = 4 + len

// c18Modules walks the length-prefixed modules from offset 4 up to end.
func c18Modules(data []byte, end int) []c18Module {
	var out []c18Module
	off := 4
	for off+4 <= end {
		n := int(binary.LittleEndian.Uint32(data[off:]))
		if n < 28 || off+4+n > end {
			break
		}
		out = append(out, c18Module{off, 4 + n})
		off += 4 + n
	}
	return out
}

var c18Modes = []string{"roundtrip+seek", "leak", "keys", "tamper-bytes", "tamper-swap", "tamper-truncate+transplant",
	// a column chunk with more than 256 pages: modules whose ordinals differ by 256 are exchanged
	"tamper-swap-256",
	// the writer is reused through Reset: the second file must read back too
	"roundtrip-after-reset",
	// the rows go through BeginRowGroup / Commit (row groups that can be filled in parallel)
	"begin-row-group",
	// two row groups begun together, filled, then committed in the order they were
	// begun or in the other one (which the writer may refuse)
	"begin-row-groups-together"}

func c18Run(x *engine.X) {
	cfgs := c18Configs()
	root := x.Choose(len(cfgs)*len(c18Modes), "config*mode")
	cfg := cfgs[root/len(c18Modes)]
	mode := c18Modes[root%len(c18Modes)]
	x.Descf("config={%s} mode=%s", cfg.desc, mode)
	x.Nontrivial(x.Describe())
	shape := fmt.Sprintf("mode=%s;config=%s", mode, cfg.desc)
	nrows := 24
	if mode == "roundtrip+seek" {
		nrows = 150
	}
	if strings.HasPrefix(mode, "tamper") && x.Tier != "thorough" {
		nrows = 9
	}
	if mode == "tamper-swap-256" {
		if cfg.bloom || cfg.aadPrefix {
			return // two of the three option variants are enough for the long files
		}
		nrows = 300
		cfg.opts = append(append([]parquet.WriterOption{}, cfg.opts...), parquet.PageBufferSize(1))
	}
	rows := c18Rows(nrows, "A")
	var exp []string
	for _, r := range rows {
		exp = append(exp, erowString(r))
	}
	data, err := c18Write(cfg, rows, "fileid-A")
	if err != nil {
		x.Failf("write-error", shape, "%v", err)
		return
	}
	got, err := c18ReadAll(data, cfg.keys(), cfg.bloom, rows)
	if err != nil || !equalStrings(got, exp) {
		x.Failf("roundtrip", shape, "reading back with the right keys: err=%v rows=%d/%d", err, len(got), len(exp))
		return
	}

	switch mode {
	case "begin-row-group":
		bshape := "mode=begin-row-group" // the outcome does not depend on the configuration
		var buf bytes.Buffer
		w := parquet.NewGenericWriter[ERow](&buf, append(append([]parquet.WriterOption{}, cfg.opts...), parquet.WithEncryption(cfg.encryption("fileid-A")))...)
		schema := parquet.SchemaOf(ERow{})
		// row groups of 5 rows (below every configured MaxRowsPerRowGroup), begun and committed one after the other
		for lo := 0; lo < len(rows); lo += 5 {
			rgw := w.BeginRowGroup()
			for i := lo; i < lo+5 && i < len(rows); i++ {
				if _, err := rgw.WriteRows([]parquet.Row{schema.Deconstruct(nil, &rows[i])}); err != nil {
					x.Failf("write-error", bshape, "WriteRows: %v", err)
					return
				}
			}
			if _, err := rgw.Commit(); err != nil {
				x.Failf("write-error", bshape, "Commit: %v", err)
				return
			}
		}
		if err := w.Close(); err != nil {
			x.Failf("write-error", bshape, "Close: %v", err)
			return
		}
		out := buf.Bytes()
		for _, r := range rows {
			for _, tok := range []string{r.Secret, r.Plain} {
				if bytes.Contains(out, []byte(tok)) {
					x.Failf("leak", bshape, "rows written through BeginRowGroup/Commit: the raw file contains the plaintext %q of an encrypted column", tok)
					return
				}
			}
		}
		g, err := c18ReadAll(out, cfg.keys(), cfg.bloom, rows)
		if err != nil || !equalStrings(g, exp) {
			x.Failf("roundtrip", bshape, "rows written through BeginRowGroup/Commit do not read back with the right keys: err=%v rows=%d/%d", err, len(g), len(exp))
			return
		}
	case "begin-row-groups-together":
		for _, order := range [][]int{{0, 1}, {1, 0}} {
			bshape := fmt.Sprintf("mode=begin-row-groups-together;commit-order=%v;config=%s", order, cfg.desc)
			var buf bytes.Buffer
			w := parquet.NewGenericWriter[ERow](&buf, append(append([]parquet.WriterOption{}, cfg.opts...), parquet.WithEncryption(cfg.encryption("fileid-A")))...)
			schema := parquet.SchemaOf(ERow{})
			rgws := []*parquet.ConcurrentRowGroupWriter{w.BeginRowGroup(), w.BeginRowGroup()}
			parts := [][]ERow{rows[:5], rows[5:10]} // the first (narrow) column has flushed no page yet, the others have
			for k, rgw := range rgws {
				for i := range parts[k] {
					if _, err := rgw.WriteRows([]parquet.Row{schema.Deconstruct(nil, &parts[k][i])}); err != nil {
						x.Failf("write-error", bshape, "WriteRows: %v", err)
						return
					}
				}
			}
			refused := false
			var want []string
			for _, k := range order {
				if _, err := rgws[k].Commit(); err != nil {
					refused = true // the writer may insist on the order the row groups were begun in
					break
				}
				for _, r := range parts[k] {
					want = append(want, erowString(r))
				}
			}
			if refused {
				continue
			}
			if err := w.Close(); err != nil {
				continue // refusing at Close is a refusal too
			}
			var wantRows []ERow
			for _, k := range order {
				wantRows = append(wantRows, parts[k]...)
			}
			g, err := c18ReadAll(buf.Bytes(), cfg.keys(), cfg.bloom, wantRows)
			if err != nil || !equalStrings(g, want) {
				x.Failf("roundtrip", bshape, "two row groups begun together and committed in order %v: every call succeeded but the file does not read back with the right keys: err=%v rows=%d/%d", order, err, len(g), len(want))
				return
			}
		}
	case "roundtrip-after-reset":
		var buf bytes.Buffer
		w := parquet.NewGenericWriter[ERow](&buf, append(append([]parquet.WriterOption{}, cfg.opts...), parquet.WithEncryption(cfg.encryption("fileid-A")))...)
		for round := 0; round < 3; round++ {
			rr := c18Rows(24+10*round, fmt.Sprint("R", round))
			for i := range rr {
				if _, err := w.Write(rr[i : i+1]); err != nil {
					x.Failf("write-error", shape, "round %d: %v", round, err)
					return
				}
			}
			if err := w.Close(); err != nil {
				x.Failf("write-error", shape, "round %d: Close: %v", round, err)
				return
			}
			var want []string
			for _, r := range rr {
				want = append(want, erowString(r))
			}
			g, err := c18ReadAll(append([]byte(nil), buf.Bytes()...), cfg.keys(), cfg.bloom, rr)
			if err != nil || !equalStrings(g, want) {
				x.Failf("roundtrip", shape+";round="+fmt.Sprint(round), "file %d written by the same writer after Reset does not read back: err=%v rows=%d/%d", round, err, len(g), len(want))
				return
			}
			buf.Reset()
			w.Reset(&buf)
		}
	case "roundtrip+seek":
		// seek histories on the encrypted file: read r rows, seek to k, read 2 rows
		f, err := parquet.OpenFile(bytes.NewReader(data), int64(len(data)), parquet.WithDecryption(cfg.keys()))
		if err != nil {
			x.Failf("roundtrip", shape, "%v", err)
			return
		}
		for _, pre := range []int{0, 1, 5, 20} {
			for k := 0; k < nrows; k += 7 {
				x.AddEvals(1)
				r := parquet.NewGenericReader[ERow](f)
				if pre > 0 {
					r.Read(make([]ERow, pre))
				}
				if err := r.SeekToRow(int64(k)); err != nil {
					x.Failf("seek", shape, "read %d rows then SeekToRow(%d): %v", pre, k, err)
					r.Close()
					return
				}
				buf := make([]ERow, 2)
				n, err := r.Read(buf)
				if (err != nil && err != io.EOF) || n == 0 || erowString(buf[0]) != exp[k] {
					x.Failf("seek", shape, "read %d rows, SeekToRow(%d), Read: n=%d err=%v got %v want %s", pre, k, n, err, buf[:n], exp[k])
					r.Close()
					return
				}
				r.Close()
			}
		}
	case "leak":
		for _, r := range rows {
			for _, tok := range []string{r.Secret, r.Plain} {
				if bytes.Contains(data, []byte(tok)) {
					x.Failf("leak", shape, "the raw file contains the plaintext %q of an encrypted column", tok)
					return
				}
			}
		}
		if bytes.Contains(data, []byte("SECRET")) || bytes.Contains(data, []byte("PUBTOK")) {
			x.Failf("leak", shape, "the raw file contains a plaintext prefix of encrypted values (statistics / dictionary / index)")
			return
		}
	case "keys":
		try := func(what string, k *c18Keys, mustFail bool) bool {
			x.AddEvals(1)
			g, err := c18ReadAll(data, k, cfg.bloom, rows)
			if mustFail && err == nil {
				x.Failf("wrong-key-accepted", shape+";what="+what, "%s: the file was read without error (%d rows, equal=%v)", what, len(g), equalStrings(g, exp))
				return false
			}
			if err == nil && !equalStrings(g, exp) {
				x.Failf("wrong-data", shape+";what="+what, "%s: rows differ from the original without error", what)
				return false
			}
			return true
		}
		if !try("wrong footer key", &c18Keys{footer: c18BadKey, cols: cfg.keys().cols}, true) {
			return
		}
		if !try("no footer key", &c18Keys{footer: nil, cols: cfg.keys().cols}, true) {
			return
		}
		if cfg.colKey {
			if !try("wrong column key", &c18Keys{footer: c18FooterKey, cols: map[string][]byte{"Secret": c18BadKey}}, true) {
				return
			}
			if !try("missing column key", &c18Keys{footer: c18FooterKey, cols: map[string][]byte{"Secret": nil}}, true) {
				return
			}
		}
	default:
		// tampering: locate the modules
		footerLen := int(binary.LittleEndian.Uint32(data[len(data)-8:]))
		end := len(data) - 8 - footerLen
		mods := c18Modules(data, end)
		if len(mods) < 8 {
			x.Failf("harness", "modules", "only %d modules found before the footer", len(mods))
			return
		}
		x.CountN("modules", int64(len(mods)))
		mustFail := func(what string, tampered []byte) bool {
			x.AddEvals(1)
			g, err := c18ReadAll(tampered, cfg.keys(), cfg.bloom, rows)
			if err == nil {
				x.Failf("tamper-accepted", shape, "%s: the file was opened and fully read without error (%d rows, equal to original=%v)", what, len(g), equalStrings(g, exp))
				return false
			}
			if len(g) > len(exp) || !equalStrings(g, exp[:len(g)]) {
				x.Failf("wrong-data", shape, "%s: rows returned before the error differ from the original", what)
				return false
			}
			return true
		}
		switch mode {
		case "tamper-bytes":
			t := append([]byte(nil), data...)
			// every byte of every module, the footer and its trailer
			// in encrypted-footer mode the footer region is [plaintext FileCryptoMetaData][encrypted footer module]
			footerModule := end
			if cfg.encFooter {
				footerModule = len(data) - 8
				for p := end; p+4 < len(data)-8; p++ {
					if n := int(binary.LittleEndian.Uint32(data[p:])); n >= 28 && p+4+n == len(data)-8 {
						footerModule = p
						break
					}
				}
			}
			masks := []byte{0x20}
			if x.Tier == "thorough" {
				masks = []byte{0x20, 0x01, 0x80}
			}
			for i := 4; i < len(data)-4; i++ {
				for _, m := range masks {
					t[i] ^= m
					where := c18Where(i, mods, end)
					ok := true
					if where == "footer" && cfg.encFooter && i < footerModule {
						// the footer region starts with the plaintext FileCryptoMetaData, which is not an
						// encrypted module: a change there may be harmless, but must never alter rows
						x.AddEvals(1)
						g, err := c18ReadAll(t, cfg.keys(), cfg.bloom, rows)
						if err == nil && !equalStrings(g, exp) {
							x.Failf("wrong-data", shape, "byte %d flipped (footer region): rows differ without error", i)
							ok = false
						}
					} else {
						ok = mustFail(fmt.Sprintf("byte %d of %d flipped with mask %#x (%s)", i, len(data), m, where), t)
					}
					t[i] = data[i]
					if !ok {
						return
					}
				}
			}
		case "tamper-swap":
			for a := range mods {
				for b := range mods {
					if a == b || mods[a].total != mods[b].total {
						continue
					}
					if bytes.Equal(data[mods[a].off:mods[a].off+mods[a].total], data[mods[b].off:mods[b].off+mods[b].total]) {
						continue
					}
					t := append([]byte(nil), data...)
					copy(t[mods[a].off:], data[mods[b].off:mods[b].off+mods[b].total])
					if !mustFail(fmt.Sprintf("module %d overwritten with module %d (both %d bytes)", a, b, mods[a].total), t) {
						return
					}
				}
			}
		case "tamper-swap-256":
			// one page per row: 2 modules (header, data) per page, so module m and m+512
			// of a column chunk are the same kind of module 256 page ordinals apart
			swapped := 0
			for _, dist := range []int{512, 510, 514, 256} {
				for a := 0; a+dist < len(mods); a++ {
					b := a + dist
					if mods[a].total != mods[b].total || bytes.Equal(data[mods[a].off:mods[a].off+mods[a].total], data[mods[b].off:mods[b].off+mods[b].total]) {
						continue
					}
					if dist != 512 && a%7 != 0 {
						continue // the control distances are sampled
					}
					t := append([]byte(nil), data...)
					copy(t[mods[a].off:], data[mods[b].off:mods[b].off+mods[b].total])
					copy(t[mods[b].off:], data[mods[a].off:mods[a].off+mods[a].total])
					swapped++
					if !mustFail(fmt.Sprintf("modules %d and %d (%d apart, both %d bytes) exchanged", a, b, dist, mods[a].total), t) {
						return
					}
				}
			}
			x.CountN("far-swaps", int64(swapped))
			if swapped < 200 {
				x.Failf("harness", "far-swaps", "only %d exchanges of equal-size modules 512 apart were possible (%d modules)", swapped, len(mods))
				return
			}
		case "tamper-truncate+transplant":
			// transplant from a twin file with another file identifier (same keys, same shape)
			twin, err := c18Write(cfg, c18Rows(nrows, "B"), "fileid-B")
			if err != nil {
				x.Failf("harness", "twin", "%v", err)
				return
			}
			tfl := int(binary.LittleEndian.Uint32(twin[len(twin)-8:]))
			tmods := c18Modules(twin, len(twin)-8-tfl)
			for a := range mods {
				if a < len(tmods) && tmods[a].total == mods[a].total {
					t := append([]byte(nil), data...)
					copy(t[mods[a].off:], twin[tmods[a].off:tmods[a].off+tmods[a].total])
					if !mustFail(fmt.Sprintf("module %d replaced by the same module of a file with another identifier", a), t) {
						return
					}
				}
			}
			// the same rows written twice with the same configuration object reuse nothing: two files must not share identifiers
			shared := cfg.encryption("")
			shared.FileIdentifier = nil
			wr := func(rows []ERow) ([]byte, error) {
				var buf bytes.Buffer
				w := parquet.NewGenericWriter[ERow](&buf, append(append([]parquet.WriterOption{}, cfg.opts...), parquet.WithEncryption(shared))...)
				for i := range rows {
					w.Write(rows[i : i+1])
				}
				err := w.Close()
				return buf.Bytes(), err
			}
			fa, e1 := wr(rows)
			fb, e2 := wr(c18Rows(nrows, "B"))
			if e1 == nil && e2 == nil {
				al := int(binary.LittleEndian.Uint32(fa[len(fa)-8:]))
				bl := int(binary.LittleEndian.Uint32(fb[len(fb)-8:]))
				am, bm := c18Modules(fa, len(fa)-8-al), c18Modules(fb, len(fb)-8-bl)
				for a := range am {
					if a < len(bm) && am[a].total == bm[a].total {
						t := append([]byte(nil), fb...)
						copy(t[bm[a].off:], fa[am[a].off:am[a].off+am[a].total])
						x.AddEvals(1)
						var expB []string
						for _, r := range c18Rows(nrows, "B") {
							expB = append(expB, erowString(r))
						}
						g, err := c18ReadAll(t, cfg.keys(), cfg.bloom, rows)
						if err == nil && !equalStrings(g, expB) {
							x.Failf("tamper-accepted", shape, "module %d of another file written with the same EncryptionConfig object (no explicit FileIdentifier) was accepted: the read returns the other file's data", a)
							return
						}
					}
				}
			}
			// truncation of modules
			for a := range mods {
				for _, cut := range []int{1, mods[a].total / 2} {
					t := append([]byte(nil), data[:mods[a].off+mods[a].total-cut]...)
					t = append(t, data[mods[a].off+mods[a].total:]...)
					if !mustFail(fmt.Sprintf("module %d shortened by %d bytes", a, cut), t) {
						return
					}
				}
			}
			if !cfg.encFooter {
				// plaintext footer: stripping or zeroing the 28-byte signature must not go unnoticed
				fl := footerLen
				if fl > 28 {
					t := append([]byte(nil), data[:len(data)-8-28]...)
					tail := make([]byte, 8)
					binary.LittleEndian.PutUint32(tail, uint32(fl-28))
					copy(tail[4:], data[len(data)-4:])
					t = append(t, tail...)
					if !mustFail("footer signature stripped", t) {
						return
					}
					z := append([]byte(nil), data...)
					for i := len(z) - 8 - 28; i < len(z)-8; i++ {
						z[i] = 0
					}
					if !mustFail("footer signature zeroed", z) {
						return
					}
				}
			}
		}
	}
	x.Outcome("ok")
}

func c18Where(i int, mods []c18Module, end int) string {
	for k, m := range mods {
		if i >= m.off && i < m.off+m.total {
			rel := i - m.off
			part := "ciphertext"
			switch {
			case rel < 4:
				part = "length"
			case rel < 16:
				part = "nonce"
			case rel >= m.total-16:
				part = "tag"
			}
			return fmt.Sprintf("module %d %s", k, part)
		}
	}
	if i >= end {
		return "footer"
	}
	return "between modules"
}

func init() {
	Register(&engine.Prop{
		ID:    "C18",
		Level: "fault_enumeration",
		Rule: "12 configurations ({encrypted footer, signed plaintext footer} x {footer key only, per-column key} x {v2 small pages; v1+snappy+AAD prefix; bloom filters + 2 row groups}) x 10 modes: round trip + seek histories (read 0/1/5/20 rows, SeekToRow(every 7th row), read) on a 150-row many-page file; leak scan of the raw bytes for every value token and token prefix; wrong / missing footer and column keys; EVERY byte of every module, of the footer and of its signature flipped; every ordered pair of equal-length modules transplanted; modules transplanted from a twin file with another file identifier and from a file written with the same EncryptionConfig object, modules truncated, footer signature stripped / zeroed; " +
			"oracle: a tampered or wrongly keyed file never opens and reads without error, rows returned before an error are a prefix of the original; evaluation = one tampered file or seek history",
		Assumptions: []string{"AES-GCM nonces are random: no oracle depends on ciphertext bytes; module boundaries are found by walking the 4-byte length prefixes from offset 4 to the footer"},
		// 8 workers: the library allocates what a tampered module length prefix
		// asks for (up to 2 GiB at a time) before it reads the module
		Shards: 8,
		Bound:  func(string) int { return 0 },
		Run:    c18Run,
	})
}
