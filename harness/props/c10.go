package props

import (
	"bytes"
	"fmt"
	"math"
	"reflect"
	"sort"
	"strings"

	"github.com/parquet-go/parquet-go"

	"verif/engine"
)

// C10 — sorting buffers and the sorting writer output an ordered permutation.

type SKReq struct {
	ID int64
	K  int32
	K2 string
}
type SKOpt struct {
	ID int64
	K  int32  `parquet:",optional"`
	K2 string `parquet:",optional"`
}
type SKPtr struct {
	ID int64
	K  *int64
	K2 *string
}
type SKStr struct {
	ID int64
	K  string
	K2 float64 `parquet:",optional"`
}
type SKMisc struct {
	ID int64
	K  bool     `parquet:",optional"`
	K2 [16]byte `parquet:",uuid"`
}
type SKRep struct {
	Tags []string
	ID   int64
	K    int64
	K2   string `parquet:",optional"`
}
type skInner struct{ Val *int64 }
type SKNested struct {
	ID  int64
	Opt *skInner
	K   int64
	K2  *int32
}

type skGrpIn struct{ K int64 }

// SKGrp: the first sort key is a REQUIRED leaf of an OPTIONAL group (G.K):
// it is null whenever the group is.
type SKGrp struct {
	ID int64
	G  *skGrpIn
	K2 *string
}

// SKList: the first sort key is a repeated column; the order is whatever
// Schema.Comparator defines for it (no reference comparator of our own).
type SKList struct {
	ID int64
	K  []int64
	K2 string
}

type skType struct {
	rt    *RT
	keys  [][]reflect.Value // alphabets of K and K2 (first entry = null/zero where nullable)
	extra func(v reflect.Value, i int)
	// paths maps a key name to its field path when it is not a top-level field
	paths map[string][]string
	// comparatorOnly: no reference comparator; the order is checked against
	// Schema.Comparator only (repeated keys)
	comparatorOnly bool
}

var skNil = reflect.Value{} // "the group holding the key is nil"

func skPath(paths map[string][]string, col string) []string {
	if p, ok := paths[col]; ok {
		return p
	}
	return []string{col}
}

// skSet stores a key value at its path, allocating the groups on the way.
func skSet(row reflect.Value, path []string, val reflect.Value) {
	if len(path) > 1 && !val.IsValid() {
		return // group left nil
	}
	v := row
	for i, name := range path {
		f := v.FieldByName(name)
		if i == len(path)-1 {
			f.Set(val)
			return
		}
		if f.Kind() == reflect.Pointer {
			if f.IsNil() {
				f.Set(reflect.New(f.Type().Elem()))
			}
			f = f.Elem()
		}
		v = f
	}
}

func ptrTo[T any](v T) *T { return &v }

var skTypes = func() []skType {
	rv := func(xs ...any) []reflect.Value {
		out := make([]reflect.Value, len(xs))
		for i, x := range xs {
			out[i] = reflect.ValueOf(x)
		}
		return out
	}
	u := func(b byte) [16]byte { var a [16]byte; a[0] = b; a[15] = 1; return a }
	return []skType{
		{rt: mkRT[SKReq]("SKReq"), keys: [][]reflect.Value{rv(int32(-1), int32(0), int32(7), int32(math.MinInt32)), rv("", "a", "b")}},
		{rt: mkRT[SKOpt]("SKOpt"), keys: [][]reflect.Value{rv(int32(0), int32(-5), int32(3), int32(9)), rv("", "a", "ab")}},
		{rt: mkRT[SKPtr]("SKPtr"), keys: [][]reflect.Value{rv((*int64)(nil), ptrTo(int64(-2)), ptrTo(int64(0)), ptrTo(int64(5))), rv((*string)(nil), ptrTo(""), ptrTo("z"))}},
		{rt: mkRT[SKStr]("SKStr"), keys: [][]reflect.Value{rv("", "a", "ab", "b"), rv(float64(0), -1.5, math.Inf(1))}},
		{rt: mkRT[SKMisc]("SKMisc"), keys: [][]reflect.Value{rv(false, true), rv(u(0), u(1), u(0xff))}},
		{rt: mkRT[SKRep]("SKRep"), keys: [][]reflect.Value{rv(int64(3), int64(1), int64(2), int64(-9)), rv("", "x", "y")},
			extra: func(v reflect.Value, i int) {
				tags := [][]string{nil, {"t"}, {"u", "v", "w"}, {"a", "b"}}
				v.FieldByName("Tags").Set(reflect.ValueOf(tags[i%4]))
			}},
		{rt: mkRT[SKGrp]("SKGrp"), keys: [][]reflect.Value{{skNil, reflect.ValueOf(int64(-4)), reflect.ValueOf(int64(0)), reflect.ValueOf(int64(6))}, rv((*string)(nil), ptrTo(""), ptrTo("z"))},
			paths: map[string][]string{"K": {"G", "K"}}},
		{rt: mkRT[SKList]("SKList"), keys: [][]reflect.Value{rv([]int64(nil), []int64{1, 3}, []int64{1, 2}, []int64{1, 1}, []int64{0, 9, 9}), rv("", "x")},
			comparatorOnly: true},
		{rt: mkRT[SKNested]("SKNested"), keys: [][]reflect.Value{rv(int64(3), int64(1), int64(2), int64(-9)), rv((*int32)(nil), ptrTo(int32(1)), ptrTo(int32(-1)))},
			extra: func(v reflect.Value, i int) {
				opts := []*skInner{nil, {Val: nil}, {Val: ptrTo(int64(7))}, {Val: ptrTo(int64(-7))}}
				v.FieldByName("Opt").Set(reflect.ValueOf(opts[i%4]))
			}},
	}
}()

// sortSpec is one sorting-column configuration.
type sortSpec struct {
	cols       []string
	desc       []bool
	nullsFirst []bool
}

func (s sortSpec) String() string {
	var p []string
	for i, c := range s.cols {
		d := "asc"
		if s.desc[i] {
			d = "desc"
		}
		n := "nl"
		if s.nullsFirst[i] {
			n = "nf"
		}
		p = append(p, c+":"+d+":"+n)
	}
	return strings.Join(p, "+")
}

func (s sortSpec) columns(paths ...map[string][]string) []parquet.SortingColumn {
	var pm map[string][]string
	if len(paths) > 0 {
		pm = paths[0]
	}
	var out []parquet.SortingColumn
	for i, c := range s.cols {
		var sc parquet.SortingColumn
		if s.desc[i] {
			sc = parquet.Descending(skPath(pm, c)...)
		} else {
			sc = parquet.Ascending(skPath(pm, c)...)
		}
		if s.nullsFirst[i] {
			sc = parquet.NullsFirst(sc)
		}
		out = append(out, sc)
	}
	return out
}

var sortSpecs = func() []sortSpec {
	var out []sortSpec
	for d := 0; d < 2; d++ {
		for n := 0; n < 2; n++ {
			out = append(out, sortSpec{[]string{"K"}, []bool{d == 1}, []bool{n == 1}})
		}
	}
	for d := 0; d < 4; d++ {
		for n := 0; n < 2; n++ {
			out = append(out, sortSpec{[]string{"K", "K2"}, []bool{d&1 == 1, d&2 == 2}, []bool{n == 1, n == 0}})
		}
	}
	out = append(out, sortSpec{[]string{"K2", "K"}, []bool{false, true}, []bool{true, true}})
	return out
}()

// keyOf extracts the sort key of a Go row: (isNull, comparable value).
var skCurrentPaths map[string][]string // key paths of the type of the running execution

func skKey(row reflect.Value, col string) (null bool, v reflect.Value) {
	path := skPath(skCurrentPaths, col)
	for len(path) > 1 {
		g := row.FieldByName(path[0])
		if g.Kind() == reflect.Pointer {
			if g.IsNil() {
				return true, g
			}
			g = g.Elem()
		}
		row, path = g, path[1:]
	}
	col = path[0]
	f := row.FieldByName(col)
	sf, _ := row.Type().FieldByName(col)
	if f.Kind() == reflect.Pointer {
		if f.IsNil() {
			return true, f
		}
		return false, f.Elem()
	}
	if strings.Contains(sf.Tag.Get("parquet"), "optional") && f.IsZero() {
		if f.Kind() == reflect.Float64 && math.Signbit(f.Float()) {
			return false, f
		}
		return true, f
	}
	return false, f
}

func cmpVal(a, b reflect.Value) int {
	switch a.Kind() {
	case reflect.Bool:
		x, y := 0, 0
		if a.Bool() {
			x = 1
		}
		if b.Bool() {
			y = 1
		}
		return x - y
	case reflect.Int32, reflect.Int64:
		switch {
		case a.Int() < b.Int():
			return -1
		case a.Int() > b.Int():
			return 1
		}
		return 0
	case reflect.Float64:
		switch {
		case a.Float() < b.Float():
			return -1
		case a.Float() > b.Float():
			return 1
		}
		return 0
	case reflect.String:
		return strings.Compare(a.String(), b.String())
	case reflect.Array:
		for i := 0; i < a.Len(); i++ {
			if d := int(a.Index(i).Uint()) - int(b.Index(i).Uint()); d != 0 {
				return d
			}
		}
		return 0
	}
	panic("cmpVal: unsupported " + a.Kind().String())
}

func (s sortSpec) compare(a, b reflect.Value) int {
	for i, c := range s.cols {
		an, av := skKey(a, c)
		bn, bv := skKey(b, c)
		var r int
		switch {
		case an && bn:
			r = 0
		case an:
			r = 1
			if s.nullsFirst[i] {
				r = -1
			}
		case bn:
			r = -1
			if s.nullsFirst[i] {
				r = 1
			}
		default:
			r = cmpVal(av, bv)
			if s.desc[i] {
				r = -r
			}
		}
		if r != 0 {
			return r
		}
	}
	return 0
}

func (s sortSpec) keyString(a reflect.Value) string {
	var sb strings.Builder
	for _, c := range s.cols {
		n, v := skKey(a, c)
		if n {
			sb.WriteString("null|")
		} else {
			fmt.Fprintf(&sb, "%v|", v.Interface())
		}
	}
	return sb.String()
}

var c10Containers = []string{"GenericBuffer", "RowBuffer", "Buffer", "SortingWriter", "SortingWriter+dedupe", "GenericBuffer->WriteRowGroup",
	// half of the rows, sort, read everything, the other half, sort again
	"GenericBuffer(sort,read,write,sort)", "RowBuffer(sort,read,write,sort)"}

func c10Run(x *engine.X) {
	root := x.Choose(len(skTypes)*len(sortSpecs)*len(c10Containers), "type*spec*container")
	st := skTypes[root/(len(sortSpecs)*len(c10Containers))]
	spec := sortSpecs[(root/len(c10Containers))%len(sortSpecs)]
	container := c10Containers[root%len(c10Containers)]
	rt := st.rt
	skCurrentPaths = st.paths
	x.Descf("type=%s sort=%s container=%s", rt.Name, spec, container)

	// row kinds = product of the key alphabets
	nk, nk2 := len(st.keys[0]), len(st.keys[1])
	kinds := nk * nk2
	mkRow := func(id int, kind int) any {
		v := reflect.New(rt.Type).Elem()
		v.FieldByName("ID").SetInt(int64(id))
		skSet(v, skPath(st.paths, "K"), st.keys[0][kind%nk])
		skSet(v, skPath(st.paths, "K2"), st.keys[1][kind/nk])
		if st.extra != nil {
			st.extra(v, id+kind)
		}
		if f := v.FieldByName("V"); f.IsValid() {
			f.SetString(fmt.Sprintf("v%d", id))
		}
		return v.Interface()
	}
	var rows []any
	var kindSeq []int
	switch x.Choose(4, "rowgen") {
	case 0: // complete sequences of row kinds
		// quick: all sequences of <=2 kinds, and of 3 kinds varying the first key only;
		// thorough: all sequences of <=3 kinds, and of 4 varying the first key only
		full := 2
		if x.Tier == "thorough" {
			full = 3
		}
		for len(kindSeq) < full {
			c := x.Choose(kinds+1, "rowkind")
			if c == 0 {
				break
			}
			kindSeq = append(kindSeq, c-1)
		}
	case 3: // one row more, varying the first key only
		full := 3
		if x.Tier == "thorough" {
			full = 4
		}
		for i := 0; i < full; i++ {
			k := x.Choose(nk, "rowkindK")
			kindSeq = append(kindSeq, k+nk*((i+k)%nk2))
		}
	case 1: // run-structured: three runs, reverse-ish order, lengths around the 8-wide kernel
		lens := []int{1, 9}
		if x.Tier == "thorough" {
			lens = []int{1, 7, 8, 9, 16, 17, 33}
		}
		for r := 0; r < 3; r++ {
			k := []int{kinds - 1, 0, kinds / 2}[r]
			if r == 1 {
				k = x.Choose(kinds, "runkind")
			}
			n := lens[x.Choose(len(lens), "runlen")]
			for i := 0; i < n; i++ {
				kindSeq = append(kindSeq, k)
			}
		}
	case 2: // all kinds descending then ascending (forces real reordering), repeated
		reps := 1 + x.Choose(2, "reps")
		for r := 0; r < reps; r++ {
			for k := kinds - 1; k >= 0; k-- {
				kindSeq = append(kindSeq, k)
			}
			for k := 0; k < kinds; k++ {
				kindSeq = append(kindSeq, k)
			}
		}
	}
	for i, k := range kindSeq {
		rows = append(rows, mkRow(i, k))
	}
	n := len(rows)
	var cuts []int
	if n > 1 {
		cands := [][]int{nil, {n / 2}, allCuts(n)}
		if n >= 10 {
			cands = append(cands, []int{9})
		}
		if x.Tier == "thorough" {
			cands = append(cands, []int{1})
			if n >= 10 {
				cands = append(cands, []int{8, 9})
			}
		}
		cuts = cands[x.Choose(len(cands), "cuts")]
	}
	x.Descf("kinds=%v cuts=%v", kindSeq, cuts)
	if n >= 2 {
		x.Nontrivial(x.Describe())
	}
	shape := fmt.Sprintf("type=%s;sort=%s;container=%s", rt.Name, spec, container)

	sorting := parquet.SortingRowGroupConfig(parquet.SortingColumns(spec.columns(st.paths)...))
	var got []any
	dedupe := false
	switch container {
	case "GenericBuffer", "RowBuffer", "Buffer", "GenericBuffer->WriteRowGroup", "GenericBuffer(sort,read,write,sort)", "RowBuffer(sort,read,write,sort)":
		var rg parquet.RowGroup
		var si sort.Interface
		var err error
		switch container {
		case "GenericBuffer(sort,read,write,sort)", "RowBuffer(sort,read,write,sort)":
			half := n / 2
			mk := rt.GenericBuffer
			if container == "RowBuffer(sort,read,write,sort)" {
				mk = rt.RowBuffer
			}
			rg, si, err = mk(rows[:half], nil, sorting)
			if err == nil {
				sort.Sort(si)
				if _, err = readAllRows(rg); err == nil {
					err = rt.AppendTo(rg, rows[half:])
				}
			}
		case "GenericBuffer", "GenericBuffer->WriteRowGroup":
			rg, si, err = rt.GenericBuffer(rows, cuts, sorting)
		case "RowBuffer":
			rg, si, err = rt.RowBuffer(rows, cuts, sorting)
		case "Buffer":
			b := parquet.NewBuffer(rt.SchemaOf(), sorting)
			for _, r := range rows {
				p := reflect.New(rt.Type)
				p.Elem().Set(reflect.ValueOf(r))
				if err = b.Write(p.Interface()); err != nil {
					break
				}
			}
			rg, si = b, b
		}
		if err != nil {
			x.Failf("write-error", shape, "%v", err)
			return
		}
		if si.Len() != n {
			x.Failf("len", shape, "Len()=%d after writing %d rows", si.Len(), n)
			return
		}
		sort.Sort(si)
		if container == "GenericBuffer->WriteRowGroup" {
			var buf bytes.Buffer
			w := parquet.NewWriter(&buf, rt.SchemaOf())
			if _, err := w.WriteRowGroup(rg); err != nil {
				x.Failf("write-error", shape, "WriteRowGroup: %v", err)
				return
			}
			if err := w.Close(); err != nil {
				x.Failf("write-error", shape, "Close: %v", err)
				return
			}
			got, err = rt.ReadAll(buf.Bytes())
			if err != nil {
				x.Failf("read-error", shape, "%v", err)
				return
			}
		} else {
			prs, err := readAllRows(rg)
			if err != nil {
				x.Failf("read-error", shape, "Rows(): %v", err)
				return
			}
			schema := rt.SchemaOf()
			for _, pr := range prs {
				p := rt.New()
				if err := schema.Reconstruct(p, pr); err != nil {
					x.Failf("read-error", shape, "Reconstruct: %v", err)
					return
				}
				got = append(got, rt.Deref(p))
			}
			// the order must agree with Schema.Comparator on adjacent rows
			cmp := schema.Comparator(spec.columns(st.paths)...)
			for i := 1; i < len(prs); i++ {
				if cmp(prs[i-1], prs[i]) > 0 {
					x.Failf("comparator-disagrees", shape, "Schema.Comparator says row %d > row %d of the sorted buffer:\n  %v\n  %v", i-1, i, prs[i-1], prs[i])
					return
				}
			}
		}
	case "SortingWriter", "SortingWriter+dedupe":
		if st.comparatorOnly && container == "SortingWriter+dedupe" {
			return // key equality of repeated keys is not defined by the statement
		}
		dedupe = container == "SortingWriter+dedupe"
		runs := []int64{1, 2, int64(n) + 1}
		if x.Tier == "thorough" {
			runs = append(runs, 3)
		}
		run := runs[x.Choose(len(runs), "sortrun")]
		x.Descf("sortrun=%d", run)
		var buf bytes.Buffer
		opts := []parquet.WriterOption{parquet.SortingWriterConfig(parquet.SortingColumns(spec.columns(st.paths)...), parquet.DropDuplicatedRows(dedupe))}
		if err := rt.SortingWrite(&buf, rows, cuts, run, opts...); err != nil {
			x.Failf("write-error", shape, "%v", err)
			return
		}
		var err error
		got, err = rt.ReadAll(buf.Bytes())
		if err != nil {
			x.Failf("read-error", shape, "%v", err)
			return
		}
		// sorting metadata recorded in the file equals the configuration
		f, err := parquet.OpenFile(bytes.NewReader(buf.Bytes()), int64(buf.Len()))
		if err != nil {
			x.Failf("read-error", shape, "OpenFile: %v", err)
			return
		}
		for _, rg := range f.RowGroups() {
			scs := rg.SortingColumns()
			want := spec.columns(st.paths)
			ok := len(scs) == len(want)
			for i := 0; ok && i < len(want); i++ {
				ok = strings.Join(scs[i].Path(), ".") == strings.Join(want[i].Path(), ".") &&
					scs[i].Descending() == want[i].Descending() && scs[i].NullsFirst() == want[i].NullsFirst()
			}
			if !ok {
				x.Failf("sorting-metadata", shape, "row group sorting columns %v, configured %v", scs, want)
				return
			}
		}
	}

	rowsV := make([]reflect.Value, len(got))
	for i := range got {
		rowsV[i] = reflect.ValueOf(got[i])
	}
	// ordered
	for i := 1; i < len(rowsV) && !st.comparatorOnly; i++ {
		if spec.compare(rowsV[i-1], rowsV[i]) > 0 {
			x.Failf("not-sorted", shape, "output rows %d and %d out of order: %+v then %+v", i-1, i, got[i-1], got[i])
			return
		}
	}
	// permutation with intact rows (or one row per key with dedupe)
	byID := map[int64]any{}
	for _, r := range rows {
		byID[reflect.ValueOf(r).FieldByName("ID").Int()] = r
	}
	seen := map[int64]bool{}
	keys := map[string]bool{}
	for i, g := range got {
		id := reflect.ValueOf(g).FieldByName("ID").Int()
		w, ok := byID[id]
		if !ok || seen[id] {
			x.Failf("not-permutation", shape, "output row %d (ID %d) is not an input row or appears twice: %+v", i, id, g)
			return
		}
		seen[id] = true
		if ok, why := eqNorm(reflect.ValueOf(w), reflect.ValueOf(g), false); !ok {
			x.Failf("row-torn", shape+";field="+fieldOfDiff(why), "output row with ID %d differs from the input row: %s\n  in:  %+v\n  out: %+v", id, why, w, g)
			return
		}
		ks := spec.keyString(reflect.ValueOf(g))
		if dedupe && keys[ks] {
			x.Failf("dedupe", shape, "two output rows share sort key %s", ks)
			return
		}
		keys[ks] = true
	}
	if !dedupe && len(got) != n {
		x.Failf("not-permutation", shape, "wrote %d rows, container holds %d", n, len(got))
		return
	}
	if dedupe {
		want := map[string]bool{}
		for _, r := range rows {
			want[spec.keyString(reflect.ValueOf(r))] = true
		}
		if len(want) != len(keys) {
			x.Failf("dedupe", shape, "%d distinct keys written, %d rows out", len(want), len(keys))
			return
		}
	}
	x.Outcome(fmt.Sprint(len(got)))
}

func allCuts(n int) []int {
	var c []int
	for i := 1; i < n; i++ {
		c = append(c, i)
	}
	return c
}

func init() {
	Register(&engine.Prop{
		ID:    "C10",
		Level: "exploration",
		Rule: "7 row types (required / optional non-pointer / pointer / string / bool+uuid keys; a repeated and a nested-optional non-key column) x 13 sorting specs (1-2 columns, asc/desc, nulls first/last) x 6 containers x {all sequences of <=3 (4) row kinds over the product of the key alphabets; 3-run patterns with run lengths around the 8-wide kernel; full up/down sweeps} x Write batchings x sort-run sizes; " +
			"non-trivial = >=2 rows; distinct by description",
		Assumptions: []string{"sort keys exclude NaN and repeated columns; nulls-first/last is applied independently of ascending/descending, as the SortingColumn interface documents"},
		Bound:       func(string) int { return 0 },
		Run:         c10Run,
	})
}
