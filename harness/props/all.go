// Package props registers every property check.
package props

import "verif/engine"

var registry []*engine.Prop

// Register adds a property check (called from init functions in this package).
func Register(p *engine.Prop) { registry = append(registry, p) }

func All() []*engine.Prop { return registry }

func Get(id string) *engine.Prop {
	for _, p := range registry {
		if p.ID == id {
			return p
		}
	}
	return nil
}
