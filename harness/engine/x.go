// Package engine is the stateless bounded-exhaustive explorer shared by every
// property check. A property is a function Run(x) that performs ONE execution
// of the real library and asks x.Choose / x.Deviate wherever something is
// undetermined (input value, option, split point, fault position, schedule
// step). The explorer enumerates every choice vector whose accumulated
// deviation cost stays within the bound, depth first, default answers first.
package engine

import (
	"fmt"
	"hash/fnv"
	"runtime"
	"strings"
	"time"
)

// point is one recorded choice point of an execution.
type point struct {
	n     int    // number of alternatives
	dev   bool   // alternatives >0 cost one deviation each
	label string // checked on replay: a mismatch is a harness error
}

// Failure describes a property violation observed in one execution.
type Failure struct {
	Kind   string `json:"kind"`
	Shape  string `json:"shape"`
	Detail string `json:"detail"`
}

// X is the handle one execution uses to talk to the explorer.
type X struct {
	Tier string // "quick" | "thorough"

	prefix  []int
	choices []int
	points  []point
	cost    int

	desc    []string
	fail    *Failure
	nontriv []string
	outcome []string
	evals   int64

	variantShape string

	w *worker
}

type replayMismatch struct{ msg string }

func (x *X) choose(n int, label string, dev bool) int {
	if n <= 0 {
		panic(replayMismatch{fmt.Sprintf("choice point %q with n=%d", label, n)})
	}
	i := len(x.choices)
	c := 0
	if i < len(x.prefix) {
		c = x.prefix[i]
		if c < 0 || c >= n {
			panic(replayMismatch{fmt.Sprintf("replay divergence at point %d (%q): choice %d out of range %d", i, label, c, n)})
		}
	}
	x.choices = append(x.choices, c)
	x.points = append(x.points, point{n: n, dev: dev, label: label})
	if dev && c > 0 {
		x.cost++
	}
	return c
}

// Choose enumerates an input-domain axis completely (cost 0).
func (x *X) Choose(n int, label string) int { return x.choose(n, label, false) }

// Deviate enumerates an axis whose alternative 0 is the default environment
// answer; any other alternative costs one deviation against the bound.
func (x *X) Deviate(n int, label string) int { return x.choose(n, label, true) }

// Pick is Choose over a slice with the chosen element described in the case.
func Pick[T any](x *X, label string, vals []T) T {
	i := x.Choose(len(vals), label)
	x.Descf("%s=%v", label, vals[i])
	return vals[i]
}

// PickDev is Deviate over a slice (vals[0] is the default).
func PickDev[T any](x *X, label string, vals []T) T {
	i := x.Deviate(len(vals), label)
	if i != 0 {
		x.Descf("%s=%v", label, vals[i])
	}
	return vals[i]
}

// Cost returns the deviations spent so far in this execution.
func (x *X) Cost() int { return x.cost }

// Descf appends to the human-readable description of the case.
func (x *X) Descf(format string, args ...any) {
	x.desc = append(x.desc, fmt.Sprintf(format, args...))
}

// Failf records a violation (the first one of an execution wins).
// kind+shape form the key known findings are matched against: shape must be a
// pure function of the failing case, narrow enough that a different failing
// input, call site or history yields a different key.
func (x *X) Failf(kind, shape, format string, args ...any) {
	if x.fail == nil {
		x.fail = &Failure{Kind: kind, Shape: shape, Detail: fmt.Sprintf(format, args...)}
	}
}

// Failed reports whether a violation was already recorded.
func (x *X) Failed() bool { return x.fail != nil }

// Nontrivial marks this execution as non-trivial under the property's rule;
// key identifies the distinct case class (distinct keys are counted).
func (x *X) Nontrivial(key string) { x.nontriv = append(x.nontriv, key) }

// Outcome contributes to the execution's outcome digest (distinct outcomes
// are counted so vacuous exploration is visible).
func (x *X) Outcome(s string) { x.outcome = append(x.outcome, s) }

// VariantShape sets the shape key used if this case's outcome digest differs
// from the reference build variant's.
func (x *X) VariantShape(s string) { x.variantShape = s }

// Variant returns the build variant this process runs as.
func (x *X) Variant() string { return x.w.variant }

// Count bumps a named coverage counter.
func (x *X) Count(name string) { x.w.counters[name]++ }

// CountN adds n to a named coverage counter.
func (x *X) CountN(name string, n int64) { x.w.counters[name] += n }

// AddEvals records that this execution evaluated n extra sub-cases itself
// (an inner loop that is complete over a finite domain).
func (x *X) AddEvals(n int64) { x.evals += n; x.w.progress.Add(1) }

// Memo caches a deterministic value for the lifetime of the worker.
func Memo[T any](x *X, key string, build func() T) T {
	if v, ok := x.w.memo[key]; ok {
		return v.(T)
	}
	v := build()
	if len(x.w.memo) > 4096 {
		x.w.memo = map[string]any{}
	}
	x.w.memo[key] = v
	return v
}

func (x *X) description() string { return strings.Join(x.desc, " ") }

func hash64(s string) uint64 {
	h := fnv.New64a()
	h.Write([]byte(s))
	return h.Sum64()
}

// panicShape turns a recovered panic into a stable shape key: the first
// library frame on the stack plus the panic message with numbers masked.
func panicShape(r any) (shape, detail string) {
	buf := make([]byte, 16<<10)
	buf = buf[:runtime.Stack(buf, false)]
	st := string(buf)
	frame := "?"
	lines := strings.Split(st, "\n")
	seenPanic := false
	for _, l := range lines {
		if strings.HasPrefix(l, "panic(") {
			seenPanic = true
			continue
		}
		if !seenPanic || strings.HasPrefix(l, "\t") {
			continue
		}
		if strings.HasPrefix(l, "runtime.") || strings.HasPrefix(l, "verif/engine.") {
			continue
		}
		if i := strings.LastIndex(l, "("); i > 0 {
			l = l[:i]
		}
		frame = l
		break
	}
	frame = strings.TrimPrefix(frame, "github.com/parquet-go/parquet-go")
	msg := fmt.Sprint(r)
	return "at=" + frame + ";msg=" + maskNumbers(msg), msg + "\n" + st
}

func maskNumbers(s string) string {
	var b strings.Builder
	in := false
	for _, c := range s {
		if c >= '0' && c <= '9' {
			if !in {
				b.WriteByte('N')
				in = true
			}
			continue
		}
		in = false
		b.WriteRune(c)
	}
	out := b.String()
	if len(out) > 120 {
		out = out[:120]
	}
	return out
}

// Describe returns the human-readable description of the case so far.
func (x *X) Describe() string { return x.description() }

// Expired reports whether the worker's wall-clock budget is used up; inner
// loops of long executions call it and stop (the run is then reported as not
// exhaustive).
func (x *X) Expired() bool {
	if time.Now().After(x.w.deadline) {
		x.w.res.Truncated = true
		return true
	}
	return false
}

// ChoicesHash identifies the choice vector made so far.
func (x *X) ChoicesHash() uint64 { return hash64(fmt.Sprint(x.choices)) }

// StateHash records a distinct abstract state given by its hash.
func (x *X) StateHash(h uint64) {
	if len(x.w.states) < setCap {
		x.w.states[h] = struct{}{}
	}
}
