package engine

import (
	"encoding/json"
	"fmt"
	"os"
	"runtime/pprof"
	"sort"
	"sync/atomic"
	"syscall"
	"time"
)

// Prop is one property check.
type Prop struct {
	ID          string
	Level       string // evidence level: exploration | fault_enumeration | model_checking
	Rule        string // how cases are enumerated and what makes one non-trivial
	Assumptions []string
	// Bound returns the deviation bound for a tier.
	Bound func(tier string) int
	// Run performs one execution.
	Run func(x *X)
	// Shards is the number of worker processes (0 = 16).
	Shards int
	// Budget is the wall-clock budget per tier (0 = 4 min quick / 40 min thorough).
	Budget func(tier string) time.Duration
	// CaseDeadline is the hang deadline of one execution (0 = 120 s).
	CaseDeadline time.Duration
	// MemLimit is the worker address-space cap in bytes (0 = 12 GiB).
	MemLimit uint64
	// Variants lists the build variants the check runs in (nil = {"asm"}).
	Variants func(tier string) []string
	// CrossVariant, when true, requires per-case outcome digests to agree
	// across variants (workers then record (case hash, outcome hash) pairs).
	CrossVariant bool
	// ModelChecking evidence extras.
	MC bool
	// Risky: an execution may kill the process (fatal out-of-memory); the
	// worker then records the running choice vector in a side file first.
	Risky bool
	// Extra lists further binaries (build variants) the parent needs.
	Extra []string
	// Aux is an auxiliary entry point run as `vcheck --aux --id <ID> -- args…`
	// (used by supplements that need their own processes).
	Aux func(tier string, args []string) int
	// Supplement runs in the parent after the exploration: a complementary
	// pass whose findings are reported like exploration violations but that is
	// not the deciding enumeration (its coverage goes under coverage.supplement).
	Supplement func(c *SuppCtx) *SuppResult
}

// SuppCtx is what a supplement gets from the parent.
type SuppCtx struct {
	Tier   string
	BinDir string
	OutDir string
	Work   string
}

// SuppFinding is one finding of a supplement; Artefact is written to the replay file.
type SuppFinding struct {
	Kind, Shape, Detail string
	Artefact            string
}

// SuppResult is a supplement's coverage and findings.
type SuppResult struct {
	Coverage map[string]any
	Findings []SuppFinding
	Error    string // harness failure
}

// Violation is a failing execution written by a worker.
type Violation struct {
	Property string   `json:"property"`
	Tier     string   `json:"tier"`
	Variant  string   `json:"variant"`
	Choices  []int    `json:"choices"`
	Labels   []string `json:"labels"`
	Case     string   `json:"case"`
	Failure  Failure  `json:"failure"`
}

func (v *Violation) Key() string { return v.Failure.Kind + "|" + v.Failure.Shape }

// WorkerResult is what one worker process reports.
type WorkerResult struct {
	Shard         int               `json:"shard"`
	Variant       string            `json:"variant"`
	Executions    int64             `json:"executions"`
	Evals         int64             `json:"evals"`
	Points        int64             `json:"points"`
	MaxDepth      int               `json:"max_depth"`
	MaxCost       int               `json:"max_cost"`
	Truncated     bool              `json:"truncated"`
	Nontriv       []uint64          `json:"nontriv"`
	Outcomes      []uint64          `json:"outcomes"`
	States        []uint64          `json:"states,omitempty"`
	Counters      map[string]int64  `json:"counters"`
	Samples       []string          `json:"samples"`
	Violations    []Violation       `json:"violations"`
	ViolCounts    map[string]int64  `json:"viol_counts"`
	CaseOutcomes  map[uint64]uint64 `json:"case_outcomes,omitempty"`
	HarnessError  string            `json:"harness_error,omitempty"`
	WallS         float64           `json:"wall_s"`
	CapHitNontriv bool              `json:"cap_hit_nontriv"`
}

type worker struct {
	p        *Prop
	tier     string
	variant  string
	bound    int
	deadline time.Time

	res      WorkerResult
	nontriv  map[uint64]struct{}
	outcomes map[uint64]struct{}
	states   map[uint64]struct{}
	counters map[string]int64
	memo     map[string]any
	perKey   map[string]int

	first   []string
	last    string
	longest string

	progress atomic.Int64
	current  atomic.Pointer[[]int]
	replay   bool
	curFile  *os.File
	golden   map[uint64]uint64
}

const setCap = 4 << 20

var traceOn = os.Getenv("VERIF_TRACE") != ""

func (w *worker) run(prefix []int) (x *X) {
	t0 := time.Now()
	x = &X{Tier: w.tier, prefix: prefix, w: w}
	cur := append([]int(nil), prefix...)
	w.current.Store(&cur)
	if w.curFile != nil {
		b, _ := json.Marshal(cur)
		w.curFile.Truncate(0)
		w.curFile.WriteAt(b, 0)
	}
	func() {
		defer func() {
			if r := recover(); r != nil {
				if m, ok := r.(replayMismatch); ok {
					panic(fmt.Sprintf("HARNESS-ERROR %s", m.msg))
				}
				shape, detail := panicShape(r)
				x.Failf("panic", shape, "%s", detail)
			}
		}()
		w.p.Run(x)
	}()
	w.progress.Add(1)
	if traceOn {
		fmt.Fprintf(os.Stderr, "TRACE %8.3fs %v %s\n", time.Since(t0).Seconds(), x.choices, x.description())
	}
	if len(x.choices) < len(prefix) {
		if x.Failed() {
			// the execution failed before it reached the end of the prefix, where
			// an earlier execution with the same choices had not: the failure
			// depends on something the explorer does not control (free-running
			// goroutines of the async read mode, warm pools). It is a failing
			// execution all the same: it is recorded with the choices it made and
			// left to the 5x fresh-process replay to confirm or dismiss.
			w.counters["divergent-failures"]++
		} else {
			panic(fmt.Sprintf("HARNESS-ERROR replay divergence: execution made %d choices, prefix has %d", len(x.choices), len(prefix)))
		}
	}
	w.res.Executions++
	w.res.Evals += 1 + x.evals
	w.res.Points += int64(len(x.points))
	if len(x.points) > w.res.MaxDepth {
		w.res.MaxDepth = len(x.points)
	}
	if x.cost > w.res.MaxCost {
		w.res.MaxCost = x.cost
	}
	d := x.description()
	if len(w.first) < 3 {
		w.first = append(w.first, d)
	}
	w.last = d
	if len(d) > len(w.longest) && len(d) < 2000 {
		w.longest = d
	}
	for _, k := range x.nontriv {
		if len(w.nontriv) < setCap {
			w.nontriv[hash64(k)] = struct{}{}
		} else {
			w.res.CapHitNontriv = true
		}
	}
	if len(x.outcome) > 0 && len(w.outcomes) < setCap {
		o := hash64(fmt.Sprint(x.outcome))
		w.outcomes[o] = struct{}{}
		if w.p.CrossVariant {
			ch := hash64(fmt.Sprint(x.choices))
			if w.golden != nil {
				if g, ok := w.golden[ch]; ok && g != o {
					x.Failf("variant-mismatch", x.variantShape, "outcome digest differs between build variants (reference %016x, %s %016x): %v", g, w.variant, o, x.outcome)
				}
			} else {
				if w.res.CaseOutcomes == nil {
					w.res.CaseOutcomes = map[uint64]uint64{}
				}
				w.res.CaseOutcomes[ch] = o
			}
		}
	}
	if x.fail != nil {
		v := Violation{Property: w.p.ID, Tier: w.tier, Variant: w.variant,
			Choices: append([]int(nil), x.choices...), Case: d, Failure: *x.fail}
		for _, pt := range x.points {
			v.Labels = append(v.Labels, pt.label)
		}
		k := v.Key()
		w.res.ViolCounts[k]++
		if w.perKey[k] < 3 && len(w.res.Violations) < 200 {
			w.perKey[k]++
			w.res.Violations = append(w.res.Violations, v)
		}
	}
	return x
}

// State records a distinct abstract state key (model-checking evidence).
func (x *X) State(key string) {
	if len(x.w.states) < setCap {
		x.w.states[hash64(key)] = struct{}{}
	}
}

func costOf(x *X, upto int) int {
	c := 0
	for i := 0; i < upto; i++ {
		if x.points[i].dev && x.choices[i] > 0 {
			c++
		}
	}
	return c
}

func (w *worker) explore(prefix []int) {
	if time.Now().After(w.deadline) {
		w.res.Truncated = true
		return
	}
	x := w.run(prefix)
	for i := len(prefix); i < len(x.points); i++ {
		pt := x.points[i]
		if pt.n <= 1 {
			continue
		}
		c := costOf(x, i)
		if pt.dev {
			c++
		}
		if c > w.bound {
			continue
		}
		for alt := 1; alt < pt.n; alt++ {
			np := make([]int, i+1)
			copy(np, x.choices[:i])
			np[i] = alt
			w.explore(np)
			if w.res.Truncated {
				return
			}
		}
	}
}

func newWorker(p *Prop, tier, variant string) *worker {
	w := &worker{p: p, tier: tier, variant: variant,
		nontriv: map[uint64]struct{}{}, outcomes: map[uint64]struct{}{}, states: map[uint64]struct{}{},
		counters: map[string]int64{}, memo: map[string]any{}, perKey: map[string]int{}}
	w.res.ViolCounts = map[string]int64{}
	w.res.Variant = variant
	w.bound = 0
	if p.Bound != nil {
		w.bound = p.Bound(tier)
	}
	return w
}

func keys(m map[uint64]struct{}) []uint64 {
	out := make([]uint64, 0, len(m))
	for k := range m {
		out = append(out, k)
	}
	sort.Slice(out, func(i, j int) bool { return out[i] < out[j] })
	return out
}

func (w *worker) finish(start time.Time, out string) {
	w.res.Nontriv = keys(w.nontriv)
	w.res.Outcomes = keys(w.outcomes)
	w.res.States = keys(w.states)
	w.res.Counters = w.counters
	w.res.Samples = append(w.first, w.last)
	if w.longest != "" {
		w.res.Samples = append(w.res.Samples, w.longest)
	}
	w.res.WallS = time.Since(start).Seconds()
	b, _ := json.Marshal(&w.res)
	if err := os.WriteFile(out, b, 0o644); err != nil {
		fmt.Fprintln(os.Stderr, "HARNESS-ERROR cannot write result:", err)
		os.Exit(2)
	}
}

// RunWorker explores the shard's part of the choice tree and writes the result.
func RunWorker(p *Prop, tier, variant string, shard, nshards int, out string, budget time.Duration, bound int) {
	start := time.Now()
	if pf := os.Getenv("VERIF_CPUPROFILE"); pf != "" && shard == 0 {
		f, _ := os.Create(pf)
		pprof.StartCPUProfile(f)
		defer pprof.StopCPUProfile()
	}
	w := newWorker(p, tier, variant)
	w.res.Shard = shard
	if bound >= 0 {
		w.bound = bound
	}
	w.deadline = start.Add(budget)
	caseDeadline := p.CaseDeadline
	if caseDeadline == 0 {
		caseDeadline = 40 * time.Second
	}
	// hang watchdog: an execution that does not finish within caseDeadline is
	// reported as a "hang" violation of the case being executed.
	go func() {
		last, lastT := int64(-1), time.Now()
		for {
			time.Sleep(500 * time.Millisecond)
			cur := w.progress.Load()
			if cur != last {
				last, lastT = cur, time.Now()
				continue
			}
			if time.Since(lastT) > caseDeadline {
				ch := w.current.Load()
				v := Violation{Property: p.ID, Tier: tier, Variant: variant, Choices: *ch,
					Case:    "(execution did not finish)",
					Failure: Failure{Kind: "hang", Shape: "deadline", Detail: fmt.Sprintf("no progress for %v", caseDeadline)}}
				hr := WorkerResult{Shard: shard, Variant: variant, Truncated: true,
					Violations: []Violation{v}, ViolCounts: map[string]int64{v.Key(): 1}}
				b, _ := json.Marshal(&hr)
				os.WriteFile(out, b, 0o644)
				os.Exit(3)
			}
		}
	}()
	defer func() {
		if r := recover(); r != nil {
			w.res.HarnessError = fmt.Sprint(r)
			w.res.Truncated = true
			w.finish(start, out)
			fmt.Fprintln(os.Stderr, r)
			os.Exit(2)
		}
	}()
	// the running choice vector is always recorded in a side file so that a
	// fatal runtime error (memory corruption, out of memory) can be
	// attributed to the case that was executing
	w.curFile, _ = os.Create(out + ".cur")
	if g := os.Getenv("VERIF_GOLDEN"); g != "" {
		if b, err := os.ReadFile(g); err == nil {
			json.Unmarshal(b, &w.golden)
		}
	}
	// probe the root to learn the width of the shard axis (choice point 0)
	probe := newWorker(p, tier, variant)
	probe.deadline = w.deadline
	px := probe.run(nil)
	w.memo = probe.memo
	n0 := 1
	if len(px.points) > 0 {
		n0 = px.points[0].n
	}
	if len(px.points) == 0 {
		if shard == 0 {
			w.explore(nil)
		}
	} else {
		// root alternatives are handed out dynamically through a shared
		// ticket file so that uneven sub-trees balance across workers
		next := func() int { return -1 }
		if q := os.Getenv("VERIF_QUEUE"); q != "" {
			next = func() int { return takeTicket(q) }
		} else {
			c := shard - nshards
			next = func() int { c += nshards; return c }
		}
		for c0 := next(); c0 >= 0 && c0 < n0; c0 = next() {
			if c0 > 0 && px.points[0].dev && w.bound < 1 {
				break
			}
			w.explore([]int{c0})
			if w.res.Truncated {
				break
			}
		}
	}
	w.finish(start, out)
}

// RunReplay executes one recorded choice vector and reports its outcome.
func RunReplay(p *Prop, v *Violation) (fail *Failure) {
	w := newWorker(p, v.Tier, v.Variant)
	w.replay = true
	w.deadline = time.Now().Add(time.Hour)
	if g := os.Getenv("VERIF_GOLDEN"); g != "" {
		if b, err := os.ReadFile(g); err == nil {
			json.Unmarshal(b, &w.golden)
		}
	}
	x := w.run(v.Choices)
	// a hang or a crash is recorded with the choices known when it happened (the
	// prefix being explored), the execution itself would have made more
	partial := v.Failure.Kind == "hang" || v.Failure.Kind == "crash"
	if len(x.choices) != len(v.Choices) && !(partial && len(x.choices) > len(v.Choices)) {
		panic(fmt.Sprintf("HARNESS-ERROR replay divergence: %d choices made, %d recorded", len(x.choices), len(v.Choices)))
	}
	for i, pt := range x.points {
		if i < len(v.Labels) && v.Labels[i] != pt.label {
			panic(fmt.Sprintf("HARNESS-ERROR replay divergence at point %d: label %q, recorded %q", i, pt.label, v.Labels[i]))
		}
	}
	fmt.Println("CASE", x.description())
	return x.fail
}

// takeTicket atomically fetches and increments the counter stored in path.
func takeTicket(path string) int {
	f, err := os.OpenFile(path, os.O_RDWR|os.O_CREATE, 0o644)
	if err != nil {
		panic("HARNESS-ERROR ticket file: " + err.Error())
	}
	defer f.Close()
	if err := syscall.Flock(int(f.Fd()), syscall.LOCK_EX); err != nil {
		panic("HARNESS-ERROR flock: " + err.Error())
	}
	defer syscall.Flock(int(f.Fd()), syscall.LOCK_UN)
	var buf [32]byte
	n, _ := f.ReadAt(buf[:], 0)
	v := 0
	fmt.Sscanf(string(buf[:n]), "%d", &v)
	f.Truncate(0)
	f.WriteAt([]byte(fmt.Sprintf("%d", v+1)), 0)
	return v
}
