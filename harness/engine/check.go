package engine

import (
	"bufio"
	"crypto/sha256"
	"encoding/json"
	"fmt"
	"os"
	"os/exec"
	"path/filepath"
	"sort"
	"strconv"
	"strings"
	"sync"
	"time"
)

// VerifDir is the root of the verification tree.
func VerifDir() string {
	if d := os.Getenv("VERIF_DIR"); d != "" {
		return d
	}
	return "/verif"
}

// OutDir is where evidence, replays and scratch results are written (differs
// from VerifDir only when a check is pointed at a scratch tree).
func OutDir() string {
	if d := os.Getenv("VERIF_OUT"); d != "" {
		return d
	}
	return VerifDir()
}

// VariantEnv returns extra environment for a build variant's processes and
// the binary suffix it runs.
func VariantEnv(variant string) (bin string, env []string) {
	switch variant {
	case "asm":
		return "asm", nil
	case "noavx512":
		return "asm", []string{"GODEBUG=cpu.avx512=off,cpu.avx512f=off,cpu.avx512vl=off,cpu.avx512bw=off,cpu.avx512dq=off,cpu.avx512cd=off,cpu.avx512vbmi=off"}
	case "noavx2":
		return "asm", []string{"GODEBUG=cpu.avx512=off,cpu.avx512f=off,cpu.avx512vl=off,cpu.avx512bw=off,cpu.avx512dq=off,cpu.avx512cd=off,cpu.avx512vbmi=off,cpu.avx2=off,cpu.bmi2=off,cpu.bmi1=off"}
	case "purego":
		return "purego", nil
	case "sched":
		return "sched", []string{"GOMAXPROCS=1"}
	}
	return variant, nil
}

type known struct {
	property, kind, shape, what string
	seen                        bool
}

func loadKnown(id string) []*known {
	f, err := os.Open(filepath.Join(VerifDir(), "KNOWN_FINDINGS.txt"))
	if err != nil {
		return nil
	}
	defer f.Close()
	var out []*known
	sc := bufio.NewScanner(f)
	sc.Buffer(make([]byte, 1<<20), 1<<20)
	for sc.Scan() {
		l := strings.TrimSpace(sc.Text())
		if !strings.HasPrefix(l, "known: ") {
			continue // "fixed:" entries and comments suppress nothing
		}
		l = strings.TrimPrefix(l, "known: ")
		head, what, _ := strings.Cut(l, " :: ")
		k := &known{what: what}
		for _, f := range strings.Split(head, "\t") {
			name, val, _ := strings.Cut(f, "=")
			switch name {
			case "property":
				k.property = val
			case "kind":
				k.kind = val
			case "shape":
				k.shape = val
			}
		}
		if k.property == id {
			out = append(out, k)
		}
	}
	return out
}

type evidence struct {
	PropertyID  string         `json:"property_id"`
	Tier        string         `json:"tier"`
	Seed        int            `json:"seed"`
	Level       string         `json:"level"`
	Coverage    map[string]any `json:"coverage"`
	Assumptions []string       `json:"assumptions"`
	WallS       float64        `json:"wall_s"`
	Violations  int            `json:"violations"`
}

// RunCheck is the parent: shards the exploration over worker processes,
// aggregates, confirms violations by fresh-process replay, matches known
// findings, writes evidence and returns the exit code.
func RunCheck(p *Prop, tier string) int {
	start := time.Now()
	vd := OutDir()
	binDir := os.Getenv("VERIF_BIN")
	if binDir == "" {
		binDir = filepath.Join(vd, ".work", "bin")
	}
	work := filepath.Join(vd, ".work", "res", p.ID)
	os.RemoveAll(work)
	os.MkdirAll(work, 0o755)
	nshards := p.Shards
	if nshards == 0 {
		nshards = 16
	}
	if s := os.Getenv("VERIF_SHARDS"); s != "" {
		nshards, _ = strconv.Atoi(s)
	}
	budget := 4 * time.Minute
	if tier == "thorough" {
		budget = 40 * time.Minute
	}
	if p.Budget != nil {
		if b := p.Budget(tier); b > 0 {
			budget = b
		}
	}
	if s := os.Getenv("VERIF_BUDGET_S"); s != "" {
		n, _ := strconv.Atoi(s)
		budget = time.Duration(n) * time.Second
	}
	variants := []string{"asm"}
	if p.Variants != nil {
		variants = p.Variants(tier)
	}
	mem := p.MemLimit
	if mem == 0 {
		mem = 12 << 30
	}

	var results []*WorkerResult
	harnessErr := ""
	sem := make(chan struct{}, 16)
	maxBound := boundOf(p, tier)
	passes := []int{maxBound}
	if tier == "thorough" && maxBound >= 2 {
		passes = []int{maxBound - 1, maxBound} // iterate the bound: complete b-1 before b
	}
	boundCompleted := -1
	deadlineAll := start.Add(budget)
	for _, passBound := range passes {
		passTruncated := false
		var passResults []*WorkerResult
		remaining := time.Until(deadlineAll)
		if remaining < 5*time.Second {
			break
		}
		for vi, variant := range variants {
			bin, env := VariantEnv(variant)
			exe := filepath.Join(binDir, "vcheck-"+bin)
			golden := ""
			if p.CrossVariant && vi > 0 {
				golden = filepath.Join(work, "golden.json")
			}
			queue := filepath.Join(work, "queue-"+variant)
			os.WriteFile(queue, []byte("0"), 0o644)
			var mu sync.Mutex
			var wg sync.WaitGroup
			var vres []*WorkerResult
			for s := 0; s < nshards; s++ {
				wg.Add(1)
				sem <- struct{}{}
				go func(s int) {
					defer wg.Done()
					defer func() { <-sem }()
					for attempt := 0; attempt < 12; attempt++ {
						out := filepath.Join(work, fmt.Sprintf("%s-%d-%d.json", variant, s, attempt))
						cmd := exec.Command(exe, "--worker", "--id", p.ID, "--tier", tier, "--variant", variant,
							"--shard", fmt.Sprintf("%d/%d", s, nshards), "--out", out,
							"--budget", fmt.Sprint(int(remaining.Seconds())), "--mem", fmt.Sprint(mem), "--bound", fmt.Sprint(passBound))
						cmd.Env = append(os.Environ(), env...)
						if os.Getenv("GOMAXPROCS") == "" {
							cmd.Env = append(cmd.Env, "GOMAXPROCS=2")
						}
						cmd.Env = append(cmd.Env, "VERIF_QUEUE="+queue)
						if golden != "" {
							cmd.Env = append(cmd.Env, "VERIF_GOLDEN="+golden)
						}
						logf, _ := os.Create(out + ".log")
						cmd.Stdout, cmd.Stderr = logf, logf
						err := cmd.Run()
						logf.Close()
						b, rerr := os.ReadFile(out)
						r := &WorkerResult{}
						if rerr != nil || json.Unmarshal(b, r) != nil {
							// the worker died without writing a result (fatal runtime
							// error such as out of memory): attribute it to the case
							// it was executing, recorded in the side file.
							r = &WorkerResult{Shard: s, Variant: variant, Truncated: true, ViolCounts: map[string]int64{}}
							if cb, e := os.ReadFile(out + ".cur"); e == nil && len(cb) > 0 {
								v := Violation{Property: p.ID, Tier: tier, Variant: variant}
								if json.Unmarshal(cb, &v.Choices) == nil {
									lg, _ := os.ReadFile(out + ".log")
									kind, shape := "crash", "worker-died"
									if strings.Contains(string(lg), "out of memory") || strings.Contains(string(lg), "cannot allocate memory") {
										shape = "out-of-memory"
									}
									tail := string(lg)
									if len(tail) > 3000 {
										tail = tail[:3000]
									}
									v.Case = "(worker died during this execution)"
									v.Failure = Failure{Kind: kind, Shape: shape, Detail: fmt.Sprintf("worker exit: %v\n%s", err, tail)}
									r.Violations = []Violation{v}
									r.ViolCounts[v.Key()] = 1
								}
							} else {
								lg, _ := os.ReadFile(out + ".log")
								r.HarnessError = fmt.Sprintf("worker %s/%d died: %v: %s", variant, s, err, tailStr(string(lg), 2000))
							}
						}
						mu.Lock()
						vres = append(vres, r)
						mu.Unlock()
						// a worker that hung or died abandons its current root; a fresh
						// one carries on with the remaining tickets
						if err == nil || time.Now().After(deadlineAll) || r.HarnessError != "" {
							break
						}
					}
				}(s)
			}
			wg.Wait()
			sort.Slice(vres, func(i, j int) bool { return vres[i].Shard < vres[j].Shard })
			passResults = append(passResults, vres...)
			for _, r := range vres {
				if r.Truncated {
					passTruncated = true
				}
			}
			if p.CrossVariant && vi == 0 {
				g := map[uint64]uint64{}
				for _, r := range vres {
					for k, v := range r.CaseOutcomes {
						g[k] = v
					}
				}
				b, _ := json.Marshal(g)
				os.WriteFile(filepath.Join(work, "golden.json"), b, 0o644)
			}
		}
		// a later pass re-executes everything of the earlier one: keep the
		// deepest pass that produced results (and every violation seen)
		if !passTruncated {
			boundCompleted = passBound
			results = passResults
		} else {
			if len(results) == 0 {
				results = passResults
			} else {
				// keep the completed pass for the counts, add violations of the partial one
				for _, r := range passResults {
					results = append(results, &WorkerResult{Shard: r.Shard, Variant: r.Variant, Truncated: true,
						Violations: r.Violations, ViolCounts: r.ViolCounts, HarnessError: r.HarnessError,
						Executions: 0, Counters: map[string]int64{"partial_pass_executions": r.Executions}})
				}
			}
			break
		}
	}

	// aggregate
	var execs, evals, points int64
	maxDepth, maxCost := 0, 0
	truncated := false
	countCapped := false
	nontriv := map[uint64]struct{}{}
	outcomes := map[uint64]struct{}{}
	states := map[uint64]struct{}{}
	counters := map[string]int64{}
	var samples []any
	violCounts := map[string]int64{}
	groups := map[string][]Violation{}
	perVariantExec := map[string]int64{}
	for _, r := range results {
		if r.HarnessError != "" && harnessErr == "" {
			harnessErr = r.HarnessError
		}
		execs += r.Executions
		evals += r.Evals
		points += r.Points
		perVariantExec[r.Variant] += r.Executions
		if r.MaxDepth > maxDepth {
			maxDepth = r.MaxDepth
		}
		if r.MaxCost > maxCost {
			maxCost = r.MaxCost
		}
		// (the cap bounds the memory of the SET used to count distinct cases, not
		// the exploration: the count is then a lower bound, reported as such)
		truncated = truncated || r.Truncated
		countCapped = countCapped || r.CapHitNontriv
		for _, h := range r.Nontriv {
			nontriv[h] = struct{}{}
		}
		for _, h := range r.Outcomes {
			outcomes[h] = struct{}{}
		}
		for _, h := range r.States {
			states[h] = struct{}{}
		}
		for k, v := range r.Counters {
			counters[k] += v
		}
		if len(samples) < 12 {
			for _, s := range r.Samples {
				if s != "" && len(samples) < 12 {
					samples = append(samples, s)
				}
			}
		}
		for k, v := range r.ViolCounts {
			violCounts[k] += v
		}
		for _, v := range r.Violations {
			groups[v.Key()] = append(groups[v.Key()], v)
		}
	}
	if harnessErr != "" {
		fmt.Println("HARNESS-ERROR", harnessErr)
		return 2
	}

	// confirm each violation group by 5 fresh-process replays of its smallest case
	kn := loadKnown(p.ID)
	os.MkdirAll(filepath.Join(vd, "replays"), 0o755)
	gkeys := make([]string, 0, len(groups))
	for k := range groups {
		gkeys = append(gkeys, k)
	}
	sort.Strings(gkeys)
	exit := 0
	confirmed, nondet := 0, 0
	var nondetKeys []string
	// known findings first, then at most maxConfirm other groups are replayed
	isKnown := func(k string) bool {
		for _, kf := range kn {
			if kf.kind+"|"+kf.shape == k {
				return true
			}
		}
		return false
	}
	sort.SliceStable(gkeys, func(i, j int) bool { return isKnown(gkeys[i]) && !isKnown(gkeys[j]) })
	const maxConfirm = 8
	unknownSeen := 0
	for _, k := range gkeys {
		g := groups[k]
		if !isKnown(k) {
			unknownSeen++
			if unknownSeen > maxConfirm {
				continue
			}
		}
		sort.Slice(g, func(i, j int) bool {
			if len(g[i].Case) != len(g[j].Case) {
				return len(g[i].Case) < len(g[j].Case)
			}
			return fmt.Sprint(g[i].Choices) < fmt.Sprint(g[j].Choices)
		})
		v := g[0]
		b, _ := json.MarshalIndent(&v, "", " ")
		sum := sha256.Sum256([]byte(v.Property + "|" + v.Variant + "|" + k))
		path := filepath.Join(vd, "replays", fmt.Sprintf("%s-%x.json", p.ID, sum[:6]))
		os.WriteFile(path, b, 0o644)
		ok := 0
		otherKeys := map[string]int{}
		for i := 0; i < 5; i++ {
			bin, env := VariantEnv(v.Variant)
			cmd := exec.Command(filepath.Join(binDir, "vcheck-"+bin), "--replay", path, "--mem", fmt.Sprint(mem))
			cmd.Env = append(os.Environ(), env...)
			if v.Failure.Kind == "variant-mismatch" {
				cmd.Env = append(cmd.Env, "VERIF_GOLDEN="+filepath.Join(work, "golden.json"))
			}
			outb, _ := cmd.CombinedOutput()
			if strings.Contains(string(outb), "REPLAY-RESULT FAIL key="+k+"\n") {
				ok++
			} else if i := strings.Index(string(outb), "REPLAY-RESULT FAIL key="); i >= 0 {
				// the case fails in a fresh process too, but differently (an error
				// where the worker saw wrong data, say: the worker's process had
				// warm pools and caches): it is a failure of this case all the
				// same, reported under what the fresh process sees
				rest := string(outb)[i+len("REPLAY-RESULT FAIL key="):]
				if j := strings.IndexByte(rest, '\n'); j >= 0 {
					rest = rest[:j]
				}
				otherKeys[rest]++
			} else if v.Failure.Kind == "hang" && strings.Contains(string(outb), "REPLAY-HANG") {
				ok++ // hung again
			} else if v.Failure.Kind == "crash" && !strings.Contains(string(outb), "REPLAY-RESULT") && !strings.Contains(string(outb), "HARNESS-ERROR") && !strings.Contains(string(outb), "REPLAY-HANG") {
				ok++ // the process died again before reporting
			}
		}
		if ok < 5 && len(otherKeys) == 1 {
			for ok2, n := range otherKeys {
				if ok+n == 5 {
					if kk := strings.SplitN(ok2, "|", 2); len(kk) == 2 {
						v.Failure.Detail = fmt.Sprintf("(in the worker process this case failed as %s|%s; every fresh-process replay fails as below)\n%s", v.Failure.Kind, v.Failure.Shape, v.Failure.Detail)
						v.Failure.Kind, v.Failure.Shape = kk[0], kk[1]
						ok = 5
					}
				}
			}
		}
		if ok < 5 {
			nondet++
			nondetKeys = append(nondetKeys, fmt.Sprintf("%s (%d/5)", k, ok))
			truncated = true
			continue
		}
		confirmed++
		matched := false
		for _, kf := range kn {
			if kf.kind == v.Failure.Kind && kf.shape == v.Failure.Shape {
				matched = true
				if !kf.seen {
					kf.seen = true
					fmt.Printf("KNOWN-FINDING: property=%s %s [kind=%s shape=%s cases=%d replay=%s]\n", p.ID, kf.what, kf.kind, kf.shape, violCounts[k], path)
				}
			}
		}
		if !matched {
			fmt.Printf("VIOLATION property=%s replay=%s\n", p.ID, path)
			fmt.Printf("  kind=%s shape=%s cases=%d\n  case: %s\n  detail: %s\n", v.Failure.Kind, v.Failure.Shape, violCounts[k], v.Case, firstLines(v.Failure.Detail, 12))
			exit = 1
		}
	}

	var suppCov map[string]any
	if p.Supplement != nil {
		sr := p.Supplement(&SuppCtx{Tier: tier, BinDir: binDir, OutDir: vd, Work: work})
		if sr != nil && sr.Error != "" {
			fmt.Println("HARNESS-ERROR", sr.Error)
			return 2
		}
		if sr != nil {
			suppCov = sr.Coverage
			seenKey := map[string]bool{}
			for _, f := range sr.Findings {
				k := f.Kind + "|" + f.Shape
				violCounts[k]++
				if seenKey[k] {
					continue
				}
				seenKey[k] = true
				sum := sha256.Sum256([]byte(p.ID + "|supp|" + k))
				path := filepath.Join(vd, "replays", fmt.Sprintf("%s-%x.txt", p.ID, sum[:6]))
				os.WriteFile(path, []byte(f.Artefact), 0o644)
				confirmed++
				matched := false
				for _, kf := range kn {
					if kf.kind == f.Kind && kf.shape == f.Shape {
						matched = true
						if !kf.seen {
							kf.seen = true
							fmt.Printf("KNOWN-FINDING: property=%s %s [kind=%s shape=%s replay=%s]\n", p.ID, kf.what, kf.kind, kf.shape, path)
						}
					}
				}
				if !matched {
					fmt.Printf("VIOLATION property=%s replay=%s\n", p.ID, path)
					fmt.Printf("  kind=%s shape=%s (supplementary pass)\n  detail: %s\n", f.Kind, f.Shape, firstLines(f.Detail, 30))
					exit = 1
				}
			}
		}
	}

	cov := map[string]any{
		"evaluations":                        evals,
		"executions":                         execs,
		"distinct_nontrivial":                len(nontriv),
		"distinct_nontrivial_is_lower_bound": countCapped,
		"distinct_outcomes":                  len(outcomes),
		"rule":                               p.Rule,
		"samples":                            samples,
		"exhaustive":                         !truncated,
		"choice_points":                      points,
		"max_depth":                          maxDepth,
		"deviation_bound":                    boundOf(p, tier),
		"deviation_bound_completed":          boundCompleted,
		"max_deviations_used":                maxCost,
		"variants":                           variants,
		"executions_by_variant":              perVariantExec,
		"shards":                             nshards,
		"counters":                           counters,
		"violation_groups":                   violCounts,
		"confirmed_groups":                   confirmed,
		"nondeterministic":                   nondetKeys,
		"groups_not_replayed":                max(0, unknownSeen-maxConfirm),
		"budget_s":                           budget.Seconds(),
	}
	if suppCov != nil {
		cov["supplement"] = suppCov
	}
	if p.MC || p.Level == "model_checking" {
		cov["states"] = len(states)
		cov["transitions"] = counters["transitions"]
		cov["traces_validated_against_impl"] = execs
	}
	ev := evidence{PropertyID: p.ID, Tier: tier, Seed: seedEnv(), Level: p.Level, Coverage: cov,
		Assumptions: p.Assumptions, WallS: time.Since(start).Seconds(), Violations: confirmed}
	if ev.Assumptions == nil {
		ev.Assumptions = []string{}
	}
	os.MkdirAll(filepath.Join(vd, "evidence"), 0o755)
	b, _ := json.MarshalIndent(&ev, "", " ")
	if err := os.WriteFile(filepath.Join(vd, "evidence", p.ID+".json"), b, 0o644); err != nil {
		fmt.Println("HARNESS-ERROR", err)
		return 2
	}
	fmt.Printf("%s %s: executions=%d evaluations=%d nontrivial=%d outcomes=%d exhaustive=%v groups=%d confirmed=%d nondet=%d wall=%.1fs\n",
		p.ID, tier, execs, evals, len(nontriv), len(outcomes), !truncated, len(groups), confirmed, nondet, time.Since(start).Seconds())
	return exit
}

func boundOf(p *Prop, tier string) int {
	if p.Bound == nil {
		return 0
	}
	return p.Bound(tier)
}

func seedEnv() int {
	n, _ := strconv.Atoi(os.Getenv("VERIF_SEED"))
	return n
}

func tailStr(s string, n int) string {
	if len(s) > n {
		return s[len(s)-n:]
	}
	return s
}

func firstLines(s string, n int) string {
	l := strings.Split(s, "\n")
	if len(l) > n {
		l = l[:n]
	}
	return strings.Join(l, "\n    ")
}
