//go:build verif

package schedtest

import (
	"fmt"
	"reflect"
	"strings"
	"testing"

	"github.com/parquet-go/parquet-go/verifsched"
	"github.com/parquet-go/parquet-go/verifsched/vatomic"
	"github.com/parquet-go/parquet-go/verifsched/vchan"
	"github.com/parquet-go/parquet-go/verifsched/vsync"
)

// lostUpdate builds the toy race: two goroutines do Load then Store(+1).
func lostUpdate(final *int64) func() func() {
	return func() func() {
		return func() {
			var x vatomic.Int64
			var wg vsync.WaitGroup
			wg.Add(2)
			for i := 0; i < 2; i++ {
				verifsched.Go(func() {
					v := x.Load()
					x.Store(v + 1)
					wg.Done()
				})
			}
			wg.Wait()
			*final = x.Load()
		}
	}
}

func TestToyLostUpdate(t *testing.T) {
	for _, bound := range []int{0, 1, 2} {
		var final int64
		lost := 0
		var witness []int
		st := Explore(bound, 10000, 0, lostUpdate(&final), func(e Execution) bool {
			if e.Result.Deadlock || e.Result.Livelock || e.Result.Panic != nil {
				t.Fatalf("bound %d: unexpected result %+v", bound, e.Result)
			}
			if final != 2 {
				lost++
				if witness == nil {
					witness = e.Choices
				}
			}
			return true
		})
		t.Logf("lost-update %v lost=%d witness=%v", st, lost, witness)
		if bound == 0 && lost != 0 {
			t.Errorf("bound 0 must not find the lost update, found %d", lost)
		}
		if bound >= 1 && lost == 0 {
			t.Errorf("bound %d must find the lost update", bound)
		}
	}
}

func lockOrder() func() {
	return func() {
		var a, b vsync.Mutex
		var wg vsync.WaitGroup
		wg.Add(2)
		verifsched.Go(func() { a.Lock(); b.Lock(); b.Unlock(); a.Unlock(); wg.Done() })
		verifsched.Go(func() { b.Lock(); a.Lock(); a.Unlock(); b.Unlock(); wg.Done() })
		wg.Wait()
	}
}

func TestToyDeadlock(t *testing.T) {
	for _, bound := range []int{0, 1} {
		dead := 0
		var blocked []string
		st := Explore(bound, 10000, 0, lockOrder, func(e Execution) bool {
			if e.Result.Deadlock {
				dead++
				blocked = e.Result.Blocked
				if e.Result.Leaked != 3 || len(e.Result.Blocked) != 3 || e.Result.BodyDone {
					t.Errorf("deadlock result inconsistent: %+v", e.Result)
				}
			}
			return true
		})
		t.Logf("lock-order %v blocked=%q", st, blocked)
		if bound == 0 && dead != 0 {
			t.Errorf("bound 0: lock-order deadlock needs a preemption, got %d", dead)
		}
		if bound == 1 && dead == 0 {
			t.Errorf("bound 1 must report the lock-order deadlock")
		}
	}
	// the process-wide state must be clean after abandoned goroutines
	if verifsched.Active() {
		t.Fatal("Active outside Run")
	}
}

func TestDeterminismToy(t *testing.T) {
	var final int64
	var vectors [][]int
	Explore(2, 10000, 0, lostUpdate(&final), func(e Execution) bool {
		vectors = append(vectors, e.Choices)
		return true
	})
	vs2 := [][]int{}
	Explore(1, 10000, 0, lockOrder, func(e Execution) bool { vs2 = append(vs2, e.Choices); return true })
	check := func(name string, vectors [][]int, mk func() func()) {
		for _, v := range vectors {
			e1, l1 := RunOnce(v, 10000, mk)
			e2, l2 := RunOnce(v, 10000, mk)
			if !reflect.DeepEqual(e1.Result.Trace, e2.Result.Trace) || !reflect.DeepEqual(l1, l2) ||
				!reflect.DeepEqual(e1.Choices, e2.Choices) || !reflect.DeepEqual(e1.Result.States, e2.Result.States) {
				t.Fatalf("%s: replay of %v not deterministic:\n%v\n%v", name, v, e1.Result.Trace, e2.Result.Trace)
			}
			if !reflect.DeepEqual(e1.Choices, v) {
				t.Fatalf("%s: replay of %v asked different questions: %v", name, v, e1.Choices)
			}
		}
		t.Logf("%s: %d choice vectors replayed twice, identical traces/questions/state hashes", name, len(vectors))
	}
	check("lost-update", vectors, lostUpdate(&final))
	check("lock-order", vs2, lockOrder)
}

func TestPanicCaptured(t *testing.T) {
	res := verifsched.Run(func(n int, _ string, _ bool) int { return 0 }, 1000, func() {
		verifsched.Go(func() { panic("boom in g1") })
		verifsched.Yield("x")
	})
	if res.Panic != "boom in g1" || !strings.Contains(res.PanicStack, "toy_test.go") || res.Deadlock {
		t.Fatalf("panic not captured: %+v", res)
	}
	res = verifsched.Run(nil, 1000, func() { panic(fmt.Errorf("g0")) })
	if res.Panic == nil || !res.BodyDone {
		t.Fatalf("g0 panic not captured: %+v", res)
	}
	res = verifsched.Run(func(n int, _ string, _ bool) int { return 0 }, 50, func() {
		verifsched.Go(func() {
			for {
				verifsched.Yield("spin")
			}
		})
		for {
			verifsched.Yield("spin")
		}
	})
	if !res.Livelock || res.Leaked != 2 {
		t.Fatalf("livelock not reported: %+v", res)
	}
}

func TestChooserPanicPropagates(t *testing.T) {
	defer func() {
		if r := recover(); r != "chooser" {
			t.Fatalf("chooser panic did not propagate: %v", r)
		}
		// and the scheduler is reusable afterwards
		res := verifsched.Run(nil, 100, func() {})
		if !res.BodyDone {
			t.Fatal("Run unusable after chooser panic")
		}
	}()
	verifsched.Run(func(int, string, bool) int { panic("chooser") }, 100, func() {
		verifsched.Go(func() { verifsched.Yield("a") })
		verifsched.Yield("b")
	})
}

// Channel semantics under every schedule (bound 2).
func TestChanSemantics(t *testing.T) {
	type out struct {
		got    []int
		closed bool
		sel    []int
	}
	var o out
	mk := func() func() {
		o = out{}
		return func() {
			unbuf := vchan.Make[int](0)
			buf := vchan.Make[int](2)
			done := vchan.Make[struct{}](0)
			var nilch *vchan.Chan[int]
			verifsched.Go(func() {
				for i := 1; i <= 3; i++ {
					unbuf.Send(i)
				}
				unbuf.Close()
			})
			verifsched.Go(func() {
				buf.Send(10)
				buf.Send(20)
				buf.Send(30) // blocks until a receive
				done.Close()
			})
			for {
				v, ok := unbuf.Recv2()
				if !ok {
					o.closed = true
					break
				}
				o.got = append(o.got, v)
			}
			for len(o.sel) < 3 {
				rc := vchan.RecvCase(buf)
				rn := vchan.RecvCase(nilch)
				switch vchan.Select(false, rc, rn) {
				case 0:
					o.sel = append(o.sel, rc.Val)
				case 1:
					panic("received from nil channel")
				}
			}
			done.Recv()
			if v, ok := unbuf.Recv2(); ok || v != 0 {
				panic("recv on closed channel must yield zero,false")
			}
			// default only when nothing is ready
			if vchan.Select(true, vchan.RecvCase(buf)) != -1 {
				panic("default expected")
			}
		}
	}
	st := Explore(2, 10000, 0, mk, func(e Execution) bool {
		if e.Result.Deadlock || e.Result.Panic != nil {
			t.Fatalf("chan semantics: %+v", e.Result)
		}
		if !reflect.DeepEqual(o.got, []int{1, 2, 3}) || !o.closed || !reflect.DeepEqual(o.sel, []int{10, 20, 30}) {
			t.Fatalf("chan semantics violated: %+v (choices %v)", o, e.Choices)
		}
		return true
	})
	t.Logf("chan semantics %v", st)
	if st.Schedules < 2 {
		t.Fatal("expected several schedules")
	}

	// panics mandated by the language
	for name, body := range map[string]func(){
		"send on closed channel":  func() { c := vchan.Make[int](1); c.Close(); c.Send(1) },
		"close of closed channel": func() { c := vchan.Make[int](1); c.Close(); c.Close() },
		"close of nil channel":    func() { var c *vchan.Chan[int]; c.Close() },
		"verifsched: double Put": func() {
			vsync.SetPoolPolicy(vsync.PoolAlwaysReuse)
			var p vsync.Pool
			x := new(int)
			p.Put(x)
			p.Put(x)
		},
		"sync: negative WaitGroup": func() { var wg vsync.WaitGroup; wg.Done() },
	} {
		res := verifsched.Run(nil, 100, body)
		if res.Panic == nil || !strings.Contains(fmt.Sprint(res.Panic), name) {
			t.Errorf("%s: got panic %v", name, res.Panic)
		}
	}
	vsync.SetPoolPolicy(vsync.PoolReal)
	vsync.ResetPools()

	// nil channel blocks forever -> deadlock, Run still returns
	res := verifsched.Run(nil, 100, func() { var c *vchan.Chan[int]; c.Recv() })
	if !res.Deadlock || len(res.Blocked) != 1 || !strings.Contains(res.Blocked[0], "chan recv") {
		t.Errorf("nil channel recv: %+v", res)
	}
}

// Pass-through mode: the shims behave like the real primitives for plain
// concurrent Go code outside Run.
func TestPassThrough(t *testing.T) {
	c := vchan.Make[int](0)
	d := vchan.Make[int](1)
	var mu vsync.Mutex
	var wg vsync.WaitGroup
	var n vatomic.Int64
	var once vsync.Once
	for i := 0; i < 4; i++ {
		wg.Add(1)
		verifsched.Go(func() {
			defer wg.Done()
			once.Do(func() { n.Add(100) })
			mu.Lock()
			n.Add(1)
			mu.Unlock()
			c.Send(i)
		})
	}
	sum := 0
	for i := 0; i < 4; i++ {
		rc := vchan.RecvCase(c)
		if vchan.Select(false, rc, vchan.RecvCase(d)) != 0 {
			t.Fatal("unexpected case")
		}
		sum += rc.Val
	}
	wg.Wait()
	c.Close()
	if _, ok := c.Recv2(); ok || sum != 6 || n.Load() != 104 {
		t.Fatalf("pass-through wrong: sum=%d n=%d", sum, n.Load())
	}
	if vchan.Select(true, vchan.RecvCase(d)) != -1 {
		t.Fatal("default expected")
	}

	// pool policies outside Run
	defer vsync.SetPoolPolicy(vsync.PoolReal)
	var p vsync.Pool
	news := 0
	p.New = func() any { news++; return new(int) }
	vsync.SetPoolPolicy(vsync.PoolAlwaysReuse)
	a := p.Get().(*int)
	b := p.Get().(*int)
	p.Put(a)
	p.Put(b)
	if p.Get().(*int) != b || p.Get().(*int) != a || news != 2 {
		t.Fatal("PoolAlwaysReuse is not LIFO")
	}
	p.Put(a)
	vsync.ResetPools()
	if p.Get().(*int) == a || news != 3 {
		t.Fatal("ResetPools did not empty the stack")
	}
	vsync.SetPoolPolicy(vsync.PoolNeverReuse)
	p.Put(a)
	if p.Get().(*int) == a {
		t.Fatal("PoolNeverReuse reused")
	}
	// PoolChoose under Run: the chooser decides hit/miss
	vsync.SetPoolPolicy(vsync.PoolChoose)
	vsync.ResetPools()
	for want := 0; want < 2; want++ {
		var hit bool
		var q vsync.Pool
		q.New = func() any { return new(int) }
		res := verifsched.Run(func(n int, label string, dev bool) int {
			if label != "pool" || n != 2 || !dev {
				t.Errorf("unexpected question %d %s %v", n, label, dev)
			}
			return want
		}, 100, func() {
			x := q.Get().(*int)
			q.Put(x)
			hit = q.Get().(*int) == x
		})
		if res.Panic != nil || hit != (want == 0) {
			t.Fatalf("PoolChoose want=%d hit=%v res=%+v", want, hit, res)
		}
	}
}
