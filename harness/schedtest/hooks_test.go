//go:build verif

package schedtest

import (
	"bytes"
	"testing"

	"github.com/parquet-go/parquet-go"
)

type hrow struct {
	A int64  `parquet:"a"`
	B string `parquet:"b"`
}

// The root re-exports of the injected hooks work in every variant (asm,
// purego, sched) in plain sequential use.
func TestRootHooks(t *testing.T) {
	defer parquet.VerifSetPoolPolicy(parquet.VerifPoolReal)
	defer parquet.VerifSetPoison(false)
	for _, pol := range []int{parquet.VerifPoolAlwaysReuse, parquet.VerifPoolNeverReuse, parquet.VerifPoolReal} {
		parquet.VerifSetPoolPolicy(pol)
		parquet.VerifResetPools()
		parquet.VerifSetPoison(true)
		before := parquet.VerifPoisonCount()
		for round := 0; round < 3; round++ {
			var buf bytes.Buffer
			w := parquet.NewGenericWriter[hrow](&buf)
			rows := make([]hrow, 2000)
			for i := range rows {
				rows[i] = hrow{A: int64(i), B: "value-value-value"}
			}
			if _, err := w.Write(rows); err != nil {
				t.Fatal(err)
			}
			if err := w.Close(); err != nil {
				t.Fatal(err)
			}
			got, err := parquet.Read[hrow](bytes.NewReader(buf.Bytes()), int64(buf.Len()))
			if err != nil {
				t.Fatal(err)
			}
			for i := range rows {
				if got[i] != rows[i] {
					t.Fatalf("policy %d round %d: row %d corrupted under poison: %+v", pol, round, i, got[i])
				}
			}
		}
		poisoned := parquet.VerifPoisonCount() - before
		pooled := parquet.VerifPooledObjects()
		t.Logf("policy=%d slices poisoned=%d objects in LIFO pools=%d", pol, poisoned, pooled)
		if poisoned == 0 {
			t.Errorf("policy %d: putSliceToPool hook never fired", pol)
		}
		if (pol == parquet.VerifPoolAlwaysReuse) != (pooled > 0) {
			t.Errorf("policy %d: %d pooled objects", pol, pooled)
		}
		parquet.VerifResetPools()
		if parquet.VerifPooledObjects() != 0 {
			t.Errorf("ResetPools left objects behind")
		}
	}
}
