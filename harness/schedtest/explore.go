//go:build verif

// Package schedtest proves that the verifsched scheduler, its shims and the
// mkoverlay rewriter work, using a tiny stateless DFS explorer.
package schedtest

import (
	"fmt"

	"github.com/parquet-go/parquet-go/verifsched"
)

// Execution is one explored schedule.
type Execution struct {
	Choices []int // answers given to the Chooser, in order
	Cost    int   // deviations (preemptions, pool misses) spent
	Result  verifsched.Result
}

// Stats summarises an exploration.
type Stats struct {
	Bound      int
	Schedules  int // executions performed
	Distinct   int // distinct traces
	States     int // distinct state hashes over all executions
	MaxSteps   int
	Deadlocks  int
	Livelocks  int
	Panics     int
	MaxChoices int
}

func (s Stats) String() string {
	return fmt.Sprintf("bound=%d schedules=%d distinct-traces=%d distinct-states=%d max-steps=%d max-choice-points=%d deadlocks=%d livelocks=%d panics=%d",
		s.Bound, s.Schedules, s.Distinct, s.States, s.MaxSteps, s.MaxChoices, s.Deadlocks, s.Livelocks, s.Panics)
}

type point struct {
	n   int
	dev bool
}

// recorder is the Chooser used for one execution: it replays prefix and then
// answers 0 (the default) while recording every question.
type recorder struct {
	prefix  []int
	choices []int
	points  []point
	labels  []string
}

func (r *recorder) choose(n int, label string, dev bool) int {
	c := 0
	if i := len(r.choices); i < len(r.prefix) {
		c = r.prefix[i]
		if c >= n {
			panic(fmt.Sprintf("schedtest: replay divergence at point %d (%s): choice %d of %d", i, label, c, n))
		}
	}
	r.choices = append(r.choices, c)
	r.points = append(r.points, point{n, dev})
	r.labels = append(r.labels, label)
	return c
}

// RunOnce executes mk()'s body under the scheduler, replaying choices.
func RunOnce(choices []int, horizon int, mk func() func()) (Execution, []string) {
	r := &recorder{prefix: choices}
	body := mk()
	res := verifsched.Run(r.choose, horizon, body)
	cost := 0
	for i, p := range r.points {
		if p.dev && r.choices[i] > 0 {
			cost++
		}
	}
	return Execution{Choices: r.choices, Cost: cost, Result: res}, r.labels
}

// Explore enumerates, depth first and default answers first, every choice
// vector whose deviation cost stays within bound. mk is called before every
// execution to build fresh state and returns the body to run as g0. visit is
// called after every execution; returning false stops the exploration.
func Explore(bound, horizon, maxRuns int, mk func() func(), visit func(Execution) bool) Stats {
	st := Stats{Bound: bound}
	traces := map[string]struct{}{}
	states := map[uint64]struct{}{}
	var prefix []int
	for {
		r := &recorder{prefix: prefix}
		body := mk()
		res := verifsched.Run(r.choose, horizon, body)
		cost := 0
		costAt := make([]int, len(r.points)+1) // cost of choices[:i]
		for i, p := range r.points {
			costAt[i] = cost
			if p.dev && r.choices[i] > 0 {
				cost++
			}
		}
		costAt[len(r.points)] = cost

		st.Schedules++
		key := fmt.Sprint(res.Trace)
		traces[key] = struct{}{}
		for _, h := range res.States {
			states[h] = struct{}{}
		}
		st.MaxSteps = max(st.MaxSteps, res.Steps)
		st.MaxChoices = max(st.MaxChoices, len(r.points))
		if res.Deadlock {
			st.Deadlocks++
		}
		if res.Livelock {
			st.Livelocks++
		}
		if res.Panic != nil {
			st.Panics++
		}
		cont := visit(Execution{Choices: append([]int(nil), r.choices...), Cost: cost, Result: res})

		// backtrack: deepest point with an untried alternative within bound
		next := -1
		if cont && (maxRuns <= 0 || st.Schedules < maxRuns) {
			for i := len(r.points) - 1; i >= 0; i-- {
				c := r.choices[i]
				if c+1 >= r.points[i].n {
					continue
				}
				nc := costAt[i]
				if r.points[i].dev {
					nc++ // any alternative > 0 costs one deviation
				}
				if nc > bound {
					continue
				}
				next = i
				break
			}
		}
		if next < 0 {
			break
		}
		prefix = append(append([]int(nil), r.choices[:next]...), r.choices[next]+1)
	}
	st.Distinct = len(traces)
	st.States = len(states)
	return st
}
