//go:build verif && vsched

package schedtest

import (
	"bytes"
	"fmt"
	"io"
	"reflect"
	"strings"
	"testing"

	"github.com/parquet-go/parquet-go"
	"github.com/parquet-go/parquet-go/verifsched"
)

type row struct {
	A int64 `parquet:"a"`
}

const libRows = 12

// buildFile writes a single-column file whose column chunk has several pages
// and a page index.
func buildFile(t testing.TB) []byte {
	var buf bytes.Buffer
	w := parquet.NewGenericWriter[row](&buf, parquet.PageBufferSize(24), parquet.DataPageStatistics(true))
	rows := make([]row, libRows)
	for i := range rows {
		rows[i].A = int64(100 + i)
	}
	for i := 0; i < len(rows); i += 4 { // one page per Write call
		if _, err := w.Write(rows[i : i+4]); err != nil {
			t.Fatal(err)
		}
	}
	if err := w.Close(); err != nil {
		t.Fatal(err)
	}
	return buf.Bytes()
}

func openFile(t testing.TB, data []byte, opts ...parquet.FileOption) *parquet.File {
	f, err := parquet.OpenFile(bytes.NewReader(data), int64(len(data)), opts...)
	if err != nil {
		t.Fatal(err)
	}
	return f
}

// consume runs the consumer sequence ReadPage, SeekToRow(k), ReadPage…, Close
// and returns a textual log of everything it observed.
func consume(pages parquet.Pages, k int64) []string {
	var log []string
	read := func() bool {
		p, err := pages.ReadPage()
		if err != nil {
			log = append(log, "err="+err.Error())
			return false
		}
		vals := make([]parquet.Value, p.NumValues())
		n, rerr := p.Values().ReadValues(vals)
		if rerr != nil && rerr != io.EOF {
			log = append(log, "values-err="+rerr.Error())
		}
		var sb strings.Builder
		fmt.Fprintf(&sb, "page rows=%d:", p.NumRows())
		for _, v := range vals[:n] {
			fmt.Fprintf(&sb, " %d", v.Int64())
		}
		log = append(log, sb.String())
		parquet.Release(p)
		return true
	}
	read()
	if err := pages.SeekToRow(k); err != nil {
		log = append(log, "seek-err="+err.Error())
	}
	for read() {
	}
	if err := pages.Close(); err != nil {
		log = append(log, "close-err="+err.Error())
	}
	return log
}

func TestAsyncPagesAllSchedules(t *testing.T) {
	data := buildFile(t)
	parquet.VerifSetPoolPolicy(parquet.VerifPoolAlwaysReuse)
	defer parquet.VerifSetPoolPolicy(parquet.VerifPoolReal)

	f := openFile(t, data)
	chunk := f.RowGroups()[0].ColumnChunks()[0]
	npages := 0
	{
		pg := chunk.Pages()
		for {
			p, err := pg.ReadPage()
			if err != nil {
				break
			}
			npages++
			parquet.Release(p)
		}
		pg.Close()
	}
	if npages < 3 {
		t.Fatalf("test file has only %d pages", npages)
	}

	for _, k := range []int64{0, 7} {
		parquet.VerifResetPools()
		want := consume(chunk.Pages(), k)
		t.Logf("k=%d pages=%d synchronous reference: %q", k, npages, want)

		var vectors [][]int
		for _, bound := range []int{0, 1, 2} {
			var got []string
			goroutines := 0
			mk := func() func() {
				parquet.VerifResetPools()
				got = nil
				return func() { got = consume(parquet.AsyncPages(chunk.Pages()), k) }
			}
			st := Explore(bound, 100000, 0, mk, func(e Execution) bool {
				r := e.Result
				if r.Deadlock || r.Livelock || r.Panic != nil || r.Leaked != 0 || !r.BodyDone {
					t.Fatalf("k=%d bound=%d choices=%v: deadlock=%v livelock=%v leaked=%d panic=%v\nblocked=%q\ntrace tail=%q\n%s",
						k, bound, e.Choices, r.Deadlock, r.Livelock, r.Leaked, r.Panic, r.Blocked, tail(r.Trace, 12), r.PanicStack)
				}
				if !reflect.DeepEqual(got, want) {
					t.Fatalf("k=%d bound=%d choices=%v: async pages differ from synchronous reader\n got %q\nwant %q", k, bound, e.Choices, got, want)
				}
				goroutines = max(goroutines, r.Goroutines)
				if bound == 1 {
					vectors = append(vectors, e.Choices)
				}
				return true
			})
			t.Logf("AsyncPages k=%d %v goroutines=%d", k, st, goroutines)
			if goroutines != 2 {
				t.Fatalf("expected the readPages goroutine to be controlled, got %d goroutines", goroutines)
			}
			if bound > 0 && st.Distinct < 2 {
				t.Fatalf("expected more than one distinct schedule, got %d", st.Distinct)
			}
		}

		// (b) determinism on the real library
		for i, v := range vectors {
			if i%7 != 0 {
				continue
			}
			var got []string
			mk := func() func() {
				parquet.VerifResetPools()
				return func() { got = consume(parquet.AsyncPages(chunk.Pages()), k) }
			}
			e1, l1 := RunOnce(v, 100000, mk)
			e2, l2 := RunOnce(v, 100000, mk)
			if !reflect.DeepEqual(e1.Result.Trace, e2.Result.Trace) || !reflect.DeepEqual(l1, l2) || !reflect.DeepEqual(e1.Choices, v) ||
				!reflect.DeepEqual(e1.Result.States, e2.Result.States) {
				t.Fatalf("k=%d: replay of %v is not deterministic", k, v)
			}
			_ = got
		}
		t.Logf("k=%d: %d bound-1 vectors replayed twice: identical traces, questions and state hashes", k, (len(vectors)+6)/7)
	}
}

func tail(s []string, n int) []string {
	if len(s) > n {
		return s[len(s)-n:]
	}
	return s
}

func describeIndex(ci parquet.ColumnIndex, oi parquet.OffsetIndex) string {
	var sb strings.Builder
	fmt.Fprintf(&sb, "pages=%d/%d", ci.NumPages(), oi.NumPages())
	for i := 0; i < ci.NumPages(); i++ {
		fmt.Fprintf(&sb, " [%d..%d nulls=%d off=%d first=%d]", ci.MinValue(i).Int64(), ci.MaxValue(i).Int64(), ci.NullCount(i), oi.Offset(i), oi.FirstRowIndex(i))
	}
	return sb.String()
}

func TestLazyPageIndexAllSchedules(t *testing.T) {
	data := buildFile(t)
	parquet.VerifSetPoolPolicy(parquet.VerifPoolAlwaysReuse)
	defer parquet.VerifSetPoolPolicy(parquet.VerifPoolReal)

	eager := openFile(t, data).RowGroups()[0].ColumnChunks()[0]
	eci, err1 := eager.ColumnIndex()
	eoi, err2 := eager.OffsetIndex()
	if err1 != nil || err2 != nil {
		t.Fatalf("reference file has no page index: %v %v", err1, err2)
	}
	want := describeIndex(eci, eoi)
	t.Logf("eager reference: %s", want)

	for _, bound := range []int{0, 1, 2} {
		var got [2]string
		var ptrs [2][2]any
		casLosers := 0
		mk := func() func() {
			parquet.VerifResetPools()
			got = [2]string{}
			chunk := openFile(t, data, parquet.SkipPageIndex(true)).RowGroups()[0].ColumnChunks()[0]
			return func() {
				for i := 0; i < 2; i++ {
					verifsched.Go(func() {
						var ci parquet.ColumnIndex
						var oi parquet.OffsetIndex
						var err error
						if i == 0 {
							ci, err = chunk.ColumnIndex()
							if err == nil {
								oi, err = chunk.OffsetIndex()
							}
						} else {
							oi, err = chunk.OffsetIndex()
							if err == nil {
								ci, err = chunk.ColumnIndex()
							}
						}
						if err != nil {
							got[i] = "error: " + err.Error()
							return
						}
						ptrs[i] = [2]any{ci, oi}
						got[i] = describeIndex(ci, oi)
					})
				}
			}
		}
		st := Explore(bound, 100000, 0, mk, func(e Execution) bool {
			r := e.Result
			if r.Deadlock || r.Livelock || r.Panic != nil || r.Leaked != 0 {
				t.Fatalf("bound=%d choices=%v: %+v", bound, e.Choices, r)
			}
			if got[0] != want || got[1] != want {
				t.Fatalf("bound=%d choices=%v: lazily loaded index differs\n g1 %s\n g2 %s\nwant %s", bound, e.Choices, got[0], got[1], want)
			}
			seen := map[string]int{}
			for _, step := range r.Trace {
				if i := strings.Index(step, "atomic.cas "); i >= 0 {
					seen[step[i:]]++
				}
			}
			for _, n := range seen {
				if n > 1 { // both goroutines raced to publish the same index
					casLosers++
					break
				}
			}
			if ptrs[0] != ptrs[1] {
				t.Fatalf("bound=%d choices=%v: the two goroutines observed different published index objects (CAS loser must adopt the winner)", bound, e.Choices)
			}
			return true
		})
		t.Logf("lazy ColumnIndex/OffsetIndex %v schedules-with-a-CAS-loser=%d", st, casLosers)
		if bound > 0 && casLosers == 0 {
			t.Fatalf("bound %d never exercised the CompareAndSwap loser path", bound)
		}
		if bound > 0 && st.Distinct < 2 {
			t.Fatalf("expected several schedules")
		}
	}
}
